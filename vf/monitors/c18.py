"""C18 -- the compiled core is memory-safe and reference-neutral.

Phases
  san   (S build: ASan+UBSan+live asserts)  hostile scenarios, random API programs with
        chaos callbacks, k-th-callback fault injection, and the other monitors' workloads
        replayed at a fraction of their budget.  The oracle is the sanitizer / the process
        exit status, observed by the parent through the write-ahead case log.
  ref   (P build)  steady-state reference-count and allocated-block neutrality of
        operations repeated on the same objects.
  suite (S build, thorough only)  the repository's own test modules under the sanitizer.
"""
import gc
import importlib
import os
import pickle
import copy
import subprocess
import sys

from traits.api import (
    HasTraits, Int, Float, Str, Any, List, Dict, Set, Instance, Property, DelegatesTo,
    PrototypedFrom, Trait, TraitType, TraitError, Range, Enum, Tuple, Either, Event,
    ReadOnly, Disallow, Module, Callable, Supports, cached_property, CInt, Map, Type, This, Complex,
    push_exception_handler, pop_exception_handler, Undefined,
)
from traits.ctrait import CTrait
from traits.observation import api as obsapi

from vf.monitors import _c18_fuzz as fz

META = {
    "level": "other",
    "explanation": (
        "Sanitizer-and-monitor observation of generated executions; nothing is proved. Phase san runs "
        "hostile scenarios, random API programs whose user callbacks perform hostile actions (remove "
        "the trait being processed, replace __dict__, mutate notifier lists, gc, re-enter, raise) "
        "during the C call, k-th-callback fault injection, and the other properties' workloads at a "
        "fraction of their budget, all against an ASan+UBSan build of ctraits.c with the file's own "
        "asserts enabled (PYTHONMALLOC=malloc so object reuse is visible); a sanitizer report, abort "
        "or signal is attributed to the case by a write-ahead log. Phase ref checks steady-state "
        "reference neutrality: an operation repeated 200x on the same objects must leave the "
        "refcounts of mortal sentinel arguments constant from iteration 10 on and allocated blocks "
        "may drift < 0.25 per iteration. Thorough adds the repository's own test modules under the "
        "sanitizer. A clean run is not memory safety: red zones miss non-adjacent and intra-object "
        "overflows, CPython itself is not instrumented, uninitialised reads are not covered (MSan "
        "unusable offline)."),
    "rule": ("cases = sanitizer-clean executions of (scenario | generated program | fault-injected "
             "program | other monitor's case) plus refcount-neutrality experiments; "
             "distinct_nontrivial = distinct (stratum, program shape: trait kinds x op kinds x "
             "callback kinds that actually fired x hostile actions actually performed) signatures"),
    "phases": [
        {"name": "san", "flavour": "S", "shards": 16},
        {"name": "ref", "flavour": "P", "shards": 4},
        {"name": "suite", "flavour": "S", "shards": 16, "tiers": ["thorough"]},
        {"name": "cov", "flavour": "V", "shards": 1, "tiers": ["thorough"]},
    ],
    "gates": {
        "quick": {"evaluations": 2000, "chaos_actions": 1000, "callbacks_fired": 6000,
                  "faults_injected": 120, "ref_experiments": 100, "scenario_runs": 40,
                  "others_cases": 600},
        "thorough": {"evaluations": 30000, "chaos_actions": 15000, "callbacks_fired": 90000,
                     "faults_injected": 2000, "ref_experiments": 100, "scenario_runs": 400,
                     "others_cases": 10000, "suite_modules": 40},
    },
    "watchdog": {"quick": 1500, "thorough": 10800},
    "case_timeout": 600,
    "assumptions": [
        "ASan/UBSan runtime of clang-14; CPython itself is uninstrumented",
        "only documented API entry points are driven (no crafted __setstate__ tuples, no malformed "
        "CTrait.set_validate descriptors)",
    ],
}

# c15 (the mini-language parser) is pure Python text processing and is left out
OTHERS = ["c01", "c02", "c03", "c04", "c05", "c06", "c07", "c08", "c09", "c10", "c11", "c12",
          "c13", "c14", "c16", "c17", "c19", "c20"]


# =============================================================================
# hostile hand-written scenarios (each parametrised by an rng)
# =============================================================================
def sc_handlers_mutate(rng):
    class A(HasTraits):
        x = Int
        y = Int
    a = A()
    hs = []

    def mk(i):
        def h(obj, name, old, new):
            for g in list(hs):
                if g is not h and rng.random() < 0.7:
                    try:
                        obj.on_trait_change(g, 'x', remove=True)
                    except Exception:
                        pass
            if len(hs) < 40:
                obj.on_trait_change(mk(i + 100), 'x')
            if rng.random() < 0.5:
                gc.collect()
        hs.append(h)
        return h
    for i in range(rng.randint(1, 6)):
        a.on_trait_change(mk(i), 'x')
    for k in range(rng.randint(5, 40)):
        a.x = k


def sc_anytrait_handlers_mutate(rng):
    """object-level (anytrait) handlers that remove themselves / each other / add new ones while
    the object's notifier list is being iterated; the changed traits have no listeners of their own"""
    class A(HasTraits):
        x = Int
        y = Any
        z = List(Int)
    a = A()
    hs = []

    def mk(i):
        def h(obj, name, old, new):
            victims = [g for g in hs if g is not h]
            rng.shuffle(victims)
            for g in victims[:rng.randint(0, len(victims))]:
                try:
                    obj.on_trait_change(g, remove=True)
                    hs.remove(g)
                except Exception:
                    pass
            if rng.random() < 0.4:
                try:
                    obj.on_trait_change(h, remove=True)
                    hs.remove(h)
                except Exception:
                    pass
            if len(hs) < 6 and rng.random() < 0.6:
                obj.on_trait_change(mk(i + 100))
            if rng.random() < 0.4:
                gc.collect()
        hs.append(h)
        return h
    for rounds in range(rng.randint(2, 6)):
        for i in range(rng.randint(2, 6)):
            a.on_trait_change(mk(i))
        for k in range(rng.randint(1, 6)):
            a.x = k + 1
            a.y = object()
            a.z.append(k)
            a.z = [k]


def sc_default_removes_trait(rng):
    class A(HasTraits):
        pass
    a = A()

    def dflt(obj):
        obj.remove_trait('d')
        gc.collect()
        return 5
    t = Int().as_ctrait()
    t.set_default_value(8, dflt)
    a.add_trait('d', t)
    a.on_trait_change(lambda: None, 'd')
    a.d


def sc_default_method_removes_trait(rng):
    class A(HasTraits):
        d = Int

        def _d_default(self):
            self.remove_trait('d')
            gc.collect()
            return 5
    a = A()
    a.on_trait_change(lambda: None, 'd')   # makes an instance trait
    a.d


def sc_handler_removes_trait(rng):
    class A(HasTraits):
        pass
    a = A()
    a.add_trait('d', Int())

    def h(obj, name, old, new):
        obj.remove_trait('d')
        gc.collect()
    a.on_trait_change(h, 'd')
    for k in range(5):
        try:
            a.d = k
        except Exception:
            pass
        if a._trait('d', 0) is None:
            a.add_trait('d', Int())
            a.on_trait_change(h, 'd')


def sc_post_setattr_removes(rng):
    class M(TraitType):
        def validate(self, o, n, v):
            return v

        def post_setattr(self, o, n, v):
            o.remove_trait(n)
            gc.collect()

    class A(HasTraits):
        pass
    a = A()
    a.add_trait('d', M())
    a.on_trait_change(lambda: None, 'd')
    a.d = 3


def sc_validator_removes_trait(rng):
    class A(HasTraits):
        pass
    a = A()

    def val(obj, name, value):
        obj.remove_trait('dyn')
        gc.collect()
        return value
    a.add_trait('dyn', Trait(0, val))
    a.on_trait_change(lambda: None, 'dyn')
    a.dyn = 3


def sc_default_dict_replaced(rng):
    class A(HasTraits):
        d = Int

        def _d_default(self):
            self.__dict__ = {}
            gc.collect()
            return 4
    a = A()
    a.on_trait_change(lambda: None, 'd')
    a.d
    a.d = 5
    a.d


def sc_validator_replaces_dict(rng):
    def val(o, n, v):
        o.__dict__ = {}
        gc.collect()
        return v

    class A(HasTraits):
        t = Trait(0, val)

        def _t_changed(self):
            pass
    a = A()
    a.t = 1
    a.t = 2


def sc_delegate_chain(rng):
    class N(HasTraits):
        nxt = Instance('N')
        v = DelegatesTo('nxt')

    class L(HasTraits):
        v = Int(7)
    n = rng.choice([5, 50, 99, 100, 101, 120, 300])
    nodes = [N() for _ in range(n)]
    for i in range(n - 1):
        nodes[i].nxt = nodes[i + 1]
    nodes[-1].add_trait('nxt', Instance(L))
    nodes[-1].nxt = L()
    for start in (0, max(0, n - 101), max(0, n - 99), n - 1):
        for f in (lambda: nodes[start].v, lambda: setattr(nodes[start], 'v', 3),
                  lambda: nodes[start].base_trait('v'), lambda: nodes[start].trait_get('v'),
                  lambda: nodes[start].trait('v'), lambda: delattr(nodes[start], 'v')):
            try:
                f()
            except Exception:
                pass


def sc_delegate_cycle(rng):
    class NV(HasTraits):
        nxt = Instance(HasTraits)
        v = DelegatesTo('nxt')

    class NW(HasTraits):
        nxt = Instance(HasTraits)
        v = PrototypedFrom('nxt')

    class NL(HasTraits):
        nxt = Instance(HasTraits)
        v = DelegatesTo('nxt', listenable=False)
    N = rng.choice([NV, NW, NL])
    k = rng.randint(1, 4)
    ns = [N() for _ in range(k)]
    for i in range(k):
        try:
            ns[i].nxt = ns[(i + 1) % k]
        except Exception:
            pass
    a = ns[0]
    fs = [lambda: a.v, lambda: setattr(a, 'v', 1), lambda: a.base_trait('v'),
          lambda: a.trait_get('v'), lambda: a.trait('v'), lambda: delattr(a, 'v'),
          lambda: a.trait_get(), lambda: a.on_trait_change(lambda: None, 'v'),
          lambda: a.observe(lambda e: None, 'v'), lambda: a.validate_trait('v', 1),
          lambda: a.trait_set(v=2), lambda: a.clone_traits(), lambda: copy.deepcopy(a)]
    rng.shuffle(fs)
    for f in fs:
        try:
            f()
        except RecursionError:
            pass
        except Exception:
            pass


def sc_delegate_name_cycle(rng):
    """the DELEGATE attribute itself is deferred: to itself, to a sibling in a cycle, through a
    property that reads the deferred attribute, through a chain of deferrals on one object"""
    listen = rng.random() < 0.5
    kind = rng.randrange(5)
    D = rng.choice([DelegatesTo, PrototypedFrom])
    try:
        if kind == 0:
            class A(HasTraits):
                c = D('c', listenable=listen)
        elif kind == 1:
            class A(HasTraits):
                p = D('q', listenable=listen)
                q = D('p', listenable=listen)
                c = D('p', listenable=listen)
        elif kind == 2:
            class A(HasTraits):
                holder = Property()
                c = D('holder', listenable=listen)

                def _get_holder(self):
                    return self.c
        elif kind == 3:
            class A(HasTraits):
                real = Instance(HasTraits)
                d1 = D('real', prefix='d1')
                d2 = D('d1', listenable=listen)
                d3 = D('d2', listenable=listen)
                c = D('d3', listenable=listen)
        else:
            class A(HasTraits):
                c = D('c', prefix=rng.choice(['c', 'x', '*', 'c*']), listenable=listen)
                __prefix__ = 'c'
        a = A()
    except (RecursionError, Exception):
        return
    fs = [lambda: a.c, lambda: setattr(a, 'c', 1), lambda: a.base_trait('c'), lambda: a.trait('c'),
          lambda: delattr(a, 'c'), lambda: a.trait_get(), lambda: a.on_trait_change(lambda: None, 'c'),
          lambda: a.observe(lambda e: None, 'c'), lambda: a.validate_trait('c', 1), lambda: a.trait_set(c=2),
          lambda: a.clone_traits(), lambda: copy.deepcopy(a), lambda: pickle.dumps(a), lambda: a._trait('c', 2),
          lambda: a._trait('c', -2), lambda: a.trait_property_changed('c', 1, 2), lambda: getattr(a, 'p', None),
          lambda: getattr(a, 'd3', None), lambda: a.sync_trait('c', A.__new__(A))]
    rng.shuffle(fs)
    for f in fs:
        try:
            f()
        except RecursionError:
            pass
        except Exception:
            pass


def sc_original_value_defaults(rng):
    """callable defaults of traits that store the ORIGINAL value while the validator returns a
    different object (Expression: compiled code; AdaptsTo: the adapter), reached by first read,
    first assignment under a listener, del with listeners, CTrait.default_value_for"""
    from traits.api import Expression, AdaptsTo, Interface, provides, Adapter
    from traits.adaptation.api import AdaptationManager, set_global_adaptation_manager, get_global_adaptation_manager

    class IP(Interface):
        pass

    class Src:
        pass

    @provides(IP)
    class Ad(Adapter):
        pass

    class S(str):
        pass

    class H(HasTraits):
        formula = Expression
        ada = AdaptsTo(IP)

        def _formula_default(self):
            return S("1 + %d" % rng.randrange(1000))

        def _ada_default(self):
            return Src()
    old = get_global_adaptation_manager()
    mgr = AdaptationManager()
    mgr.register_factory(Ad, Src, IP)
    set_global_adaptation_manager(mgr)
    try:
        for k in range(20):
            h = H()
            if rng.random() < 0.5:
                h.on_trait_change(lambda: None, rng.choice(["formula", "ada"]))
            ops = [lambda: h.formula, lambda: h.formula_, lambda: h.ada, lambda: h.ada_,
                   lambda: setattr(h, "formula", "2*3"), lambda: setattr(h, "ada", Src()),
                   lambda: delattr(h, "formula"), lambda: delattr(h, "ada"),
                   lambda: h.trait("formula").default_value_for(h, "formula"),
                   lambda: h.trait("ada").default_value_for(h, "ada"), lambda: h.trait_get(),
                   lambda: h.reset_traits(), lambda: gc.collect(), lambda: copy.deepcopy(h), lambda: h.clone_traits()]
            for _ in range(rng.randint(3, 12)):
                try:
                    rng.choice(ops)()
                except Exception:
                    pass
    finally:
        set_global_adaptation_manager(old)


def sc_delegate_value_dies(rng):
    class P(HasTraits):
        x = Int

    class C(HasTraits):
        p = Instance(P)
        x = DelegatesTo('p')
    c = C(p=P())

    def h(obj, name, old, new):
        c.p = None
        gc.collect()
    c.p.on_trait_change(h, 'x')
    c.x = 5


def sc_delegate_dropped_during_access(rng):
    """Every callback a delegated read / write / delete can reach on the DELEGATE (default
    method, property getter / setter, validator, post_setattr, static handler, listener) drops
    the last long-lived reference to that delegate - the owner's own attribute is re-bound -
    while the compiled core is still working on it."""
    import itertools as _it
    state = {}

    def drop():
        if state.get("armed"):
            state["armed"] = False
            o = state["owner"]
            how = state["how"]
            try:
                if how == "rebind":
                    o.target = state["mk"]()
                elif how == "none":
                    o.target = None
                else:
                    o.__dict__.pop("target", None)
            except Exception:
                pass
            if state["gc"]:
                gc.collect()

    class DropV(TraitType):
        default_value = 0

        def validate(self, obj, name, value):
            drop()
            return value

    class DropP(TraitType):
        default_value = 0

        def post_setattr(self, obj, name, value):
            drop()

    class TDefault(HasTraits):
        value = Int()

        def _value_default(self):
            drop()
            return 42

    class TListDefault(HasTraits):
        value = List(Int)

        def _value_default(self):
            drop()
            return [1]

    class TProp(HasTraits):
        value = Property(Int)

        def _get_value(self):
            drop()
            return 1

        def _set_value(self, v):
            drop()

    class TValidator(HasTraits):
        value = DropV()

    class TPost(HasTraits):
        value = DropP()

    class THandler(HasTraits):
        value = Int()

        def _value_changed(self):
            drop()

    class TListener(HasTraits):
        value = Int()

    def mk_owner(route, listenable, supply="stored"):
        if supply == "stored":
            class Owner(HasTraits):
                target = Instance(HasTraits)
                value = route("target", listenable=listenable)
            return Owner

        # the delegate is not stored on the owner: a property hands it out, either a fresh
        # temporary on every access (nothing else refers to it) or one kept in a side table
        class OwnerP(HasTraits):
            target = Property()
            value = route("target", listenable=False)

            def _get_target(self):
                if supply == "temporary":
                    return state["mk"]()
                return state.setdefault("kept", state["mk"]())

            def _set_target(self, v):
                state["kept"] = v
        return OwnerP
    ops = [lambda o: o.value, lambda o: setattr(o, "value", 3), lambda o: delattr(o, "value"),
           lambda o: o.trait_get("value"), lambda o: o.trait_set(value=4),
           lambda o: (setattr(o, "value", 5), o.value), lambda o: o.trait("value"),
           lambda o: o.validate_trait("value", 6)]
    combos = list(_it.product([TDefault, TListDefault, TProp, TValidator, TPost, THandler, TListener],
                              [DelegatesTo, PrototypedFrom], [True, False],
                              ["none", "raw", "observe", "otc"], ["none", "otc", "observe"],
                              ["rebind", "none", "pop"], range(len(ops))))
    rng.shuffle(combos)
    for ci, (T, route, listenable, tl, ol, how, opi) in enumerate(combos[:1500]):
        supply = "stored" if ci % 3 else rng.choice(["temporary", "kept"])
        Owner = mk_owner(route, listenable, supply)
        state.pop("kept", None)
        state.update(mk=T)
        try:
            owner = Owner(target=T()) if supply == "stored" else Owner()
        except Exception:
            continue
        state.update(owner=owner, how=how, mk=T, gc=rng.random() < 0.2, armed=False)
        try:
            t = owner.target
        except Exception:
            continue
        try:
            if tl == "raw":
                t._trait("value", 2)._notifiers(True).append(lambda *a: drop())
            elif tl == "observe":
                t.observe(lambda e: drop(), "value")
            elif tl == "otc":
                t.on_trait_change(lambda: drop(), "value")
            if ol == "otc":
                owner.on_trait_change(lambda: None, "value")
            elif ol == "observe":
                owner.observe(lambda e: None, "value")
        except Exception:
            pass
        del t
        state["armed"] = True
        try:
            ops[opi](owner)
        except RecursionError:
            pass
        except Exception:
            pass
        state["armed"] = False


def sc_nonstr_prefix(rng):
    class P(HasTraits):
        q_x = Int

    class C(HasTraits):
        __prefix__ = rng.choice([5, None, b"q_", ("q_",), 1.5])
        p = Instance(P, ())
        x = DelegatesTo('p', prefix='*')
    c = C()
    for f in (lambda: c.x, lambda: setattr(c, 'x', 1), lambda: c.trait('x'), lambda: c.base_trait('x')):
        try:
            f()
        except Exception:
            pass


def sc_nonstr_names(rng):
    class A(HasTraits):
        x = Int
    a = A()
    for nm in (1, None, b'x', ('x',), 1.5):
        for f in (lambda: a.__setattr__(nm, 1), lambda: a.__getattribute__(nm),
                  lambda: a.__delattr__(nm), lambda: a.trait(nm), lambda: a.base_trait(nm),
                  lambda: a.trait_property_changed(nm, 1, 2), lambda: a.add_trait(nm, Int()),
                  lambda: a.remove_trait(nm), lambda: a.on_trait_change(lambda: None, nm),
                  lambda: a.trait_get(nm), lambda: a.trait_set(**{str(nm): 1}),
                  lambda: getattr(a, nm), lambda: setattr(a, nm, 1)):
            try:
                f()
            except Exception:
                pass


def sc_property_pickle(rng):
    class A(HasTraits):
        p = Property(Int)
        q = Property(Int, observe='_p')
        r = Property()
        _p = Int

        def _get_p(self):
            return self._p

        def _set_p(self, v):
            self._p = v

        @cached_property
        def _get_q(self):
            return self._p

        def _get_r(self):
            return 1
    a = A()
    for nm in ('p', 'q', 'r', '_p'):
        ct = a.trait(nm)
        for f in (lambda: ct.__getstate__(), lambda: pickle.dumps(ct), lambda: copy.deepcopy(ct),
                  lambda: copy.copy(ct)):
            try:
                f()
            except Exception:
                pass


def sc_gc_threshold(rng):
    old = gc.get_threshold()
    gc.set_threshold(1, 1, 1)
    try:
        class N(HasTraits):
            v = Int
            c = Instance('N')
            cs = List(Instance('N'))
            p = Property(Int, observe='cs.items.v')

            def _get_p(self):
                return sum(x.v for x in self.cs)
        r = N()
        E = []
        r.observe(E.append, 'cs.items.c.v, c.c.v, p')
        for k in range(rng.randint(20, 80)):
            n = N(c=N())
            r.cs.append(n)
            r.c = n
            n.c.v = k
            r.cs[0:1] = [N(c=N(v=k))]
            if len(r.cs) > 5:
                del r.cs[::2]
            r.p
    finally:
        gc.set_threshold(*old)


def sc_trait_defs_roundtrip(rng):
    """pickle / deepcopy / clone of every kind of trait definition object."""
    class X(HasTraits):
        pass
    mk = fz.trait_makers(rng, X)
    a = X()
    for kind, m in mk:
        if isinstance(m, str):
            continue
        try:
            tt = m()
            ct = tt.as_ctrait() if hasattr(tt, "as_ctrait") else tt
        except Exception:
            continue
        for f in (lambda: pickle.loads(pickle.dumps(ct, rng.choice([0, 2, 5]))),
                  lambda: copy.deepcopy(ct), lambda: copy.copy(ct), lambda: ct.__getstate__(),
                  lambda: CTrait(0).clone(ct), lambda: ct.default_value(),
                  lambda: ct.default_value_for(a, "zz"), lambda: ct.get_validate(),
                  lambda: [ct.validate(a, "zz", v) for v in fz.VALUE_POOL[:20]]):
            try:
                f()
            except Exception:
                pass


def sc_items_event(rng):
    class A(HasTraits):
        xs = List(Int)
    a = A()
    a.on_trait_change(lambda: None, 'xs_items')
    for args in ((), ('xs_items',), ('xs_items', 1), ('xs_items', 1, a.trait('xs')),
                 ('nope_items', 1, a.trait('xs')), ('xs_items', None, None),
                 ('xs_items', 1, Int().as_ctrait()), ('xs_items', 1, a.trait('xs').handler.items_event()),
                 ('nope_items', 1, a.trait('xs').handler.items_event())):
        try:
            a.trait_items_event(*args)
        except Exception:
            pass


def sc_huge(rng):
    vals = tuple(range(5000))

    class A(HasTraits):
        e = Enum(*vals)
        t = Tuple(*([Int] * 300))
        u = Either(*[Range(float(i), float(i) + 0.5) for i in range(60)])
    a = A()
    for v in (4999, 5000, "x", tuple(range(300)), tuple(range(299)), 59.2, 59.7, float("nan")):
        for nm in ("e", "t", "u"):
            try:
                setattr(a, nm, v)
            except Exception:
                pass


def sc_getattr_hooks(rng):
    """handlers that delete / replace the object's dict entries while a get/set is in flight"""
    class A(HasTraits):
        x = Any
        y = Property(depends_on='x')
        z = List(Int)

        @cached_property
        def _get_y(self):
            self.__dict__.pop('x', None)
            return 1

        def _x_changed(self, old, new):
            self.__dict__.pop('x', None)
            self.__dict__.pop('z', None)

        def _z_items_changed(self, ev):
            self.z = [9]
    a = A()
    for k in range(10):
        try:
            a.x = object()
            a.y
            a.z.append(k)
            a.z
            del a.x
        except Exception:
            pass


def sc_observe_mutating_handlers(rng):
    class N(HasTraits):
        v = Int
        kids = List(Instance('N'))
        d = Dict(Str, Instance('N'))
    r = N(kids=[N(), N()])
    hs = []

    def mk():
        def h(ev):
            if rng.random() < 0.5 and hs:
                g = hs.pop(rng.randrange(len(hs)))
                try:
                    r.observe(g, "kids.items.v", remove=True)
                except Exception:
                    pass
            if rng.random() < 0.5 and len(hs) < 20:
                g = mk()
                r.observe(g, "kids.items.v")
            if rng.random() < 0.3:
                r.kids = [N(), r.kids[0]] if r.kids else [N()]
            if rng.random() < 0.2:
                gc.collect()
        hs.append(h)
        return h
    obsapi.push_exception_handler(handler=lambda e: None, reraise_exceptions=False)
    try:
        r.observe(mk(), "kids.items.v")
        for k in range(30):
            for n in list(r.kids):
                n.v = k
            if rng.random() < 0.3:
                r.kids.append(N())
    finally:
        obsapi.pop_exception_handler()


def sc_default_attribute_error_warning(rng):
    """dynamic defaults raising AttributeError, with the UserWarning traits issues for it
    ignored / shown / turned into an error"""
    import warnings

    class A(HasTraits):
        d = Int
        e = Instance(RefObj, factory=lambda: (_ for _ in ()).throw(AttributeError("factory")))
        f = Any

        def _d_default(self):
            raise AttributeError("default %d" % rng.randrange(10 ** 6))

        def _f_default(self):
            return self.nope      # AttributeError from a nested attribute access

    for mode in ("error", "always", "ignore", "error"):
        with warnings.catch_warnings():
            warnings.simplefilter(mode)
            for nm in ("d", "e", "f"):
                a = A()
                a.on_trait_change(lambda: None, nm)
                for k in range(3):
                    try:
                        getattr(a, nm)
                    except BaseException as exc:
                        # walk the exception graph the C code built
                        seen = 0
                        while exc is not None and seen < 10:
                            repr(exc)
                            str(exc)
                            exc = exc.__cause__ or exc.__context__
                            seen += 1
        gc.collect()


def sc_plain_property(rng):
    """standard Python descriptors on a HasTraits class (trait kind `generic`) and `__class__`"""
    class A(HasTraits):
        x = Int

        @property
        def p(self):
            return self.x + 1

        @p.setter
        def p(self, v):
            self.x = v

        @p.deleter
        def p(self):
            del self.x

        @property
        def bad(self):
            raise ValueError("bad")

        @property
        def ro(self):
            return [self]

    class B(A):
        y = Int
        p = Int(7)          # a trait shadowing an inherited plain property

    class S(A):
        __slots__ = ()

    a = A()
    log = []
    ops = [lambda: a.p, lambda: setattr(a, "p", rng.choice([3, "s", None, 2 ** 70])),
           lambda: delattr(a, "p"), lambda: a.bad, lambda: setattr(a, "bad", 1), lambda: delattr(a, "bad"),
           lambda: a.ro, lambda: setattr(a, "ro", 1), lambda: a.__class__,
           lambda: setattr(a, "__class__", rng.choice([B, A, S, int, HasTraits, None])),
           lambda: getattr(a, "y", None), lambda: a.trait("p"), lambda: a.base_trait("bad"),
           lambda: a.on_trait_change(lambda: log.append(1), "p"),
           lambda: a.observe(lambda e: log.append(2), "x"), lambda: a.trait_set(p=4),
           lambda: a.trait_get("p", "ro"), lambda: pickle.loads(pickle.dumps(a)), lambda: copy.deepcopy(a),
           lambda: a.clone_traits(), lambda: a.trait_property_changed("p", 1, 2),
           lambda: a.add_trait("p", Int()), lambda: a.remove_trait("p"), lambda: gc.collect()]
    for k in range(60):
        try:
            rng.choice(ops)()
        except Exception:
            pass


def sc_no_dict_instance(rng):
    """instances whose __init__ never ran (object __dict__ still NULL in the C struct)"""
    class A(HasTraits):
        x = Int
        xs = List(Int)
        d = Instance(HasTraits, ())
        any_ = Any
        ev = Event
        ro = ReadOnly
        q = Property()

        def _get_q(self):
            return 1

        def _x_changed(self):
            pass

    for k in range(12):
        a = A.__new__(A)
        ops = [lambda: a.x, lambda: delattr(a, "x"), lambda: setattr(a, "x", 1), lambda: a.xs.append(1),
               lambda: setattr(a, "undeclared", 1), lambda: delattr(a, "undeclared"), lambda: a.undeclared,
               lambda: a.__dict__, lambda: a.trait_get(), lambda: a.on_trait_change(lambda: None, "x"),
               lambda: a.observe(lambda e: None, "xs.items"), lambda: a.d, lambda: setattr(a, "ev", 1),
               lambda: a.ro, lambda: setattr(a, "ro", 2), lambda: delattr(a, "ro"), lambda: a.q,
               lambda: a.trait_property_changed("q", 1, 2), lambda: a.add_trait("z", Int()),
               lambda: a.remove_trait("z"), lambda: a._trait("x", 2), lambda: a._notifiers(True),
               lambda: a.traits_inited(), lambda: a.traits_init(), lambda: a.__init__(x=3),
               lambda: pickle.dumps(a), lambda: copy.copy(a), lambda: a.trait_items_event("xs_items", 1, a.trait("xs").handler.items_event()),
               lambda: a._trait_change_notify(rng.random() < 0.5), lambda: a._trait_veto_notify(rng.random() < 0.5)]
        rng.shuffle(ops)
        for f in ops[:rng.randint(3, len(ops))]:
            try:
                f()
            except Exception:
                pass


def sc_items_and_python_names(rng):
    """`<name>_items` pseudo-attributes, Python / private / disallowed names, raw slot wrappers"""
    from traits.api import HasStrictTraits, HasPrivateTraits, Python
    from traits.ctraits import CHasTraits

    class A(HasStrictTraits):
        xs = List(Int)
        dd = Dict(Str, Int)
        py = Python
        _priv = Any

    class P(HasPrivateTraits):
        v = Int

    a, p = A(), P()
    ev = a.trait("xs").handler.items_event()
    names = ["xs_items", "dd_items", "nope_items", "py", "_priv", "_p2", "__dunder__", "nope", "xs", "", "v",
             "_", "__", "py_items"]
    vals = [1, None, "s", [1], {"a": 1}, ev, a, Undefined]
    for k in range(120):
        o = rng.choice([a, p])
        nm = rng.choice(names)
        v = rng.choice(vals)
        f = rng.choice([
            lambda: setattr(o, nm, v), lambda: getattr(o, nm), lambda: delattr(o, nm),
            lambda: o.trait_items_event(nm, v, rng.choice([ev, Disallow.as_ctrait() if hasattr(Disallow, "as_ctrait") else ev,
                                                           Int().as_ctrait(), Event().as_ctrait()])),
            lambda: CHasTraits.__setattr__(o, rng.choice([nm, 5, None, b"x"]), v),
            lambda: CHasTraits.__delattr__(o, rng.choice([nm, 5, None, b"x"])),
            lambda: CHasTraits.__getattribute__(o, rng.choice([nm, 5, None, b"x"])),
            lambda: o.trait(nm), lambda: o._trait(nm, rng.choice([-2, -1, 0, 1, 2, 3])),
            lambda: o.on_trait_change(lambda: None, nm), lambda: o.add_trait(nm, Int()), lambda: o.remove_trait(nm),
        ])
        try:
            f()
        except Exception:
            pass


def sc_ctrait_public_setters(rng):
    """documented CTrait attributes and methods with valid and invalid arguments"""
    class A(HasTraits):
        x = Int
        m = Map({"a": 1})
        d = DelegatesTo("o")
        o = Instance(HasTraits)
        p = Property(Int)
        e = Event

        def _get_p(self):
            return 1

        def _set_p(self, v):
            pass

    a = A()
    a.o = A()
    bag = [1, None, "s", True, -1, 99, 2 ** 70, (1,), [], {}, lambda *k: None, len, A, a, 1.5, Undefined]
    for k in range(150):
        t = rng.choice([a.trait(n) for n in ("x", "m", "d", "o", "p", "e")] + [Int().as_ctrait(), CTrait(0)])
        v = rng.choice(bag)
        f = rng.choice([
            lambda: setattr(t, "modify_delegate", v), lambda: setattr(t, "post_setattr", v),
            lambda: setattr(t, "comparison_mode", v), lambda: setattr(t, "setattr_original_value", v),
            lambda: setattr(t, "post_setattr_original_value", v), lambda: setattr(t, "is_mapped", v),
            lambda: setattr(t, "handler", v), lambda: setattr(t, "some_metadata", v),
            lambda: t.set_default_value(v, rng.choice(bag)), lambda: t.default_value(),
            lambda: t.default_value_for(rng.choice([a, v]), rng.choice(["x", v])),
            lambda: t.validate(rng.choice([a, v]), rng.choice(["x", 5]), rng.choice(bag)),
            lambda: t.delegate(rng.choice(["o", v]), rng.choice(["x", v]), rng.choice([0, 1, 2, 3, v]), rng.choice([True, v])),
            lambda: t.clone(rng.choice([t, v])), lambda: t.property_fields, lambda: t.get_validate(),
            lambda: t._notifiers(rng.choice([True, False, v])), lambda: t.items_event(),
            lambda: CTrait(v), lambda: t.is_trait_type(v), lambda: t.get_default_value(),
            lambda: t.full_info(a, "x", v), lambda: t.__getstate__(), lambda: copy.deepcopy(t),
            lambda: setattr(a, rng.choice(["x", "m", "d", "p", "e"]), rng.choice(bag)),
            lambda: getattr(a, rng.choice(["x", "m", "m_", "d", "p"])),
        ])
        try:
            f()
        except Exception:
            pass



def sc_finalizers_collect(rng):
    """objects with finalizers (``__del__``, weakref callbacks) that run a collection or re-enter
    the API, owned ONLY by something the extension is tearing down by reference count: a CTrait
    (default value in its handler, closure handlers in its notifier list), an object's instance
    trait dictionary, its ``__dict__`` values, container items"""
    import weakref as _wr
    keep = []

    class Fin:
        def __init__(self, act):
            self.act = act

        def __del__(self):
            try:
                self.act()
            except Exception:
                pass

    def acts(h=None):
        a = [gc.collect, lambda: gc.collect(0), lambda: [[] for _ in range(2000)]]
        if h is not None:
            r = _wr.ref(h)
            a += [lambda: r() is not None and r().trait_names(),
                  lambda: r() is not None and r().add_trait("late", Int()),
                  lambda: r() is not None and setattr(r(), "value", 3)]
        return a

    def closure_handler(fin):
        def cb(new):
            return fin
        return cb

    class Holder(HasTraits):
        value = Any
        items = List(Any)

    thr = gc.get_threshold()
    try:
        for k in range(25):
            if rng.random() < 0.3:
                gc.set_threshold(1, 1, 1)
            else:
                gc.set_threshold(*thr)
            h = Holder()
            fin = Fin(rng.choice(acts(h)))
            kind = rng.randrange(9)
            try:
                if kind == 0:            # instance trait whose handler owns the default value
                    h.add_trait("res", Any(fin)); del fin
                    gc.collect(); del h
                elif kind == 1:          # notifier list of an instance trait owns a closure handler
                    h.add_trait("v2", Any(0)); h.on_trait_change(closure_handler(fin), "v2"); del fin
                    h.v2 = 1; gc.collect(); h.remove_trait("v2")
                elif kind == 2:          # class-trait clone created by a listener dies with the object
                    h.on_trait_change(closure_handler(fin), "value"); del fin
                    h.value = 1; del h
                elif kind == 3:          # observe handler closure
                    cb = closure_handler(fin); del fin
                    h.observe(lambda e, cb=cb: None, "value"); del cb
                    h.value = 2; h = None
                elif kind == 4:          # the stored value itself, replaced / deleted / object dies
                    h.value = fin; del fin
                    rng.choice([lambda: setattr(h, "value", 1), lambda: delattr(h, "value"),
                                lambda: h.__dict__.clear(), lambda: None])()
                    del h
                elif kind == 5:          # container items
                    h.items = [fin, 1]; del fin
                    rng.choice([lambda: h.items.pop(0), lambda: h.items.clear(), lambda: setattr(h, "items", []),
                                lambda: h.items.__setitem__(slice(None), [2])])()
                elif kind == 6:          # re-definition: add_trait over a trait whose default owns the finalizer
                    h.add_trait("res", Any(fin)); del fin
                    h.add_trait("res", Int(2)); h.remove_trait("res")
                elif kind == 7:          # a trait definition object on its own
                    t = Any(fin).as_ctrait(); del fin
                    t2 = t.clone(t) if hasattr(t, "clone") and False else copy.copy(t)
                    del t; del t2
                else:                    # weakref callback instead of __del__
                    class V:
                        pass
                    v = V()
                    keep.append(_wr.ref(v, lambda r, a=fin.act: a()))
                    fin.act = lambda: None
                    h.add_trait("res", Any(v)); del v
                    del h
            except Exception:
                pass
            gc.collect()
    finally:
        gc.set_threshold(*thr)



SCENARIOS = [
    sc_handlers_mutate, sc_default_removes_trait, sc_default_method_removes_trait,
    sc_handler_removes_trait, sc_post_setattr_removes, sc_validator_removes_trait,
    sc_default_dict_replaced, sc_validator_replaces_dict, sc_delegate_chain, sc_delegate_cycle,
    sc_delegate_value_dies, sc_nonstr_prefix, sc_nonstr_names, sc_property_pickle,
    sc_gc_threshold, sc_trait_defs_roundtrip, sc_items_event, sc_huge, sc_getattr_hooks,
    sc_observe_mutating_handlers, sc_default_attribute_error_warning, sc_anytrait_handlers_mutate,
    sc_delegate_dropped_during_access, sc_plain_property, sc_no_dict_instance,
    sc_items_and_python_names, sc_ctrait_public_setters, sc_finalizers_collect,
    sc_delegate_name_cycle, sc_original_value_defaults,
]


# =============================================================================
class StopSub(BaseException):
    """raised out of another monitor's run() once its share of the budget is used"""


class SubCtx:
    """Context handed to another property's monitor when it is replayed here:
    same write-ahead protocol (so crashes are attributed), reduced budget, the
    behavioural oracle's complaints are only counted (they are judged by that
    property's own check, on the P build)."""

    def __init__(self, ctx, name, factor, case_cap):
        self._c, self._n = ctx, name
        self.factor = factor
        self._cap = case_cap
        self._begun = 0
        # attributes some monitors read on the real Ctx
        self.samples, self.viol_per_key, self.counters, self.sigs, self.notes = [], {}, {}, set(), {}
        self.nviol = 0
        self.only = None
        self.tier, self.seed, self.shard, self.nshards = ctx.tier, ctx.seed, ctx.shard, ctx.nshards
        self.phase = "main"
        self.replay_mode = False

    quick = property(lambda s: s.tier == "quick")

    def scale(self, quick, thorough):
        v = quick if self.tier == "quick" else thorough
        # only budgets are scaled; small integers are structural parameters (lengths, depths)
        if isinstance(v, (int, float)) and not isinstance(v, bool) and v >= 100:
            return type(v)(max(1, v * self.factor))
        return v

    def mine(self, i):
        return self._c.mine(i)

    def rng(self, *k):
        return self._c.rng(self._n, *k)

    def begin(self, case_id, desc=None):
        if self._begun >= self._cap:
            raise StopSub()
        ok = self._c.begin("others:%s:%s" % (self._n, case_id), None)
        if ok:
            self._begun += 1
            self._c.count("others_cases")
            self._c.ev()
            self._c.sig("others", self._n, str(case_id).split(":")[0])
        return ok

    def end(self):
        self._c.end()

    def timed_out(self, desc=None):
        self._c.timed_out(desc)

    def ev(self, n=1):
        self._c.count("others_oracle_evaluations", n)

    def count(self, name, n=1):
        pass

    def sig(self, *p):
        pass

    def sample(self, *a, **k):
        pass

    def note(self, *a):
        pass

    def violation(self, key, message, witness=None):
        self._c.count("others_oracle_complaints")


# =============================================================================
def phase_san(ctx):
    push_exception_handler(handler=lambda *a: None, reraise_exceptions=False, main=True)
    obsapi.push_exception_handler(handler=lambda e: None, reraise_exceptions=False)
    sys.setrecursionlimit(400)
    # ---- 1. hostile scenarios -------------------------------------------------
    reps = ctx.scale(3, 30)
    idx = 0
    for r in range(reps):
        for sc in SCENARIOS:
            idx += 1
            if not ctx.mine(idx):
                continue
            if not ctx.begin("scenario:%s:%d" % (sc.__name__, r)):
                continue
            try:
                try:
                    sc(ctx.rng("sc", sc.__name__, r))
                except RecursionError:
                    pass
                except Exception as e:
                    ctx.count("scenario_py_exceptions")
                ctx.count("scenario_runs")
                ctx.ev()
                ctx.sig("scenario", sc.__name__)
            finally:
                ctx.end()
    # ---- 2. random API programs with chaos callbacks ---------------------------
    nprog = ctx.scale(4000, 60000)
    stats = {}

    def st(k):
        stats[k] = stats.get(k, 0) + 1
    for p in range(nprog):
        if not ctx.mine(p):
            continue
        if not ctx.begin("prog:%d" % p):
            continue
        try:
            rng = ctx.rng("prog", p)
            chaos_p = rng.choice([0.0, 0.05, 0.15, 0.3, 0.5])
            a0, t0 = fz.CH.actions, sum(v for k, v in fz.CH.counts.items() if k.startswith("cb:"))
            before = dict(fz.CH.counts)
            fz.run_program(rng, "p%d" % p, rng.randint(10, 60), chaos_p, stats=st)
            fired = sorted(k for k, v in fz.CH.counts.items() if v != before.get(k, 0))
            ctx.count("chaos_actions", fz.CH.actions - a0)
            ctx.count("callbacks_fired",
                      sum(v for k, v in fz.CH.counts.items() if k.startswith("cb:")) - t0)
            ctx.ev()
            ctx.sig("prog", tuple(fired)[:12])
            if p < 2 * ctx.nshards:
                ctx.sample({"program": p, "chaos_p": chaos_p, "callbacks_and_actions": fired[:10]})
        finally:
            ctx.end()
        if p % 50 == 0:
            gc.collect()
    # ---- 3. fault injection: k-th callback raises ---------------------------------
    nfi = ctx.scale(96, 1600)
    for p in range(nfi):
        if not ctx.mine(p):
            continue
        if not ctx.begin("fault:%d" % p):
            continue
        try:
            # fault-free twin to learn the number of ticks
            rng = ctx.rng("fault", p)
            nops = rng.randint(8, 25)
            fz.run_program(ctx.rng("faultprog", p), "f%d" % p, nops, 0.0)
            ticks = fz.CH.ticks
            ks = list(range(1, min(ticks, 40) + 1))
            for k in ks:
                exc = rng.choice([TraitError, ValueError, AttributeError, RuntimeError,
                                  KeyError, MemoryError, fz.ChaosError])
                fz.run_program(ctx.rng("faultprog", p), "f%d" % p, nops, 0.0, fail_at=k, fail_exc=exc)
                ctx.count("faults_injected")
                ctx.ev()
            ctx.sig("fault", min(ticks, 40))
        finally:
            ctx.end()
    for k, v in stats.items():
        if k.startswith("op:"):
            ctx.count("prog_ops", v)
    ctx.note("chaos_counts", dict(sorted(fz.CH.counts.items())))
    # ---- 4. the other properties' workloads under the sanitizer -----------------
    factor = ctx.scale(0.02, 0.05)
    for name in OTHERS:
        try:
            mod = importlib.import_module("vf.monitors." + name)
        except ImportError:
            ctx.count("others_missing")
            continue
        if not hasattr(mod, "run"):
            continue
        # c09 / c20 start with their gcpoints stratum (a collection before every statement of an
        # operation): give those scenarios their own share so the histories keep theirs
        sub = SubCtx(ctx, name, factor,
                     ctx.scale(12, 250) + (ctx.scale(6, 24) if name in ("c09", "c20") else 0))
        import time as _t
        _t0 = _t.time()
        try:
            mod.run(sub)
        except StopSub:
            ctx.count("others_stopped_at_case_cap")
        except BaseException as e:
            if isinstance(e, (KeyboardInterrupt, SystemExit)):
                raise
            ctx.count("others_aborted")
            ctx.note("others_aborted_" + name, "%s: %s" % (type(e).__name__, str(e)[:300]))
        finally:
            ctx.end()
            ctx.count("others_seconds_" + name, int((_t.time() - _t0) * 1000))
            gc.set_threshold(700, 10, 10)
            sys.setrecursionlimit(400)


# =============================================================================
# reference neutrality (P build)
# =============================================================================
class RefObj:
    """mortal sentinel"""
    def __init__(self, k=0):
        self.k = k


class RefP(HasTraits):
    px = Any
    pi = Int

class RefH(HasTraits):
    a = Any
    i = Int
    f = Float
    s = Str
    r = Range(0.0, 1e30)
    e = Enum(1, 2, 3)
    t = Tuple(Int, Str)
    ei = Either(None, Int, Str)
    ci = CInt
    m = Map({"a": 1})
    li = List(Int)
    la = List(Any)
    d = Dict(Any, Any)
    se = Set(Any)
    inst = Instance(RefObj)
    ev = Event
    ro = ReadOnly
    call = Callable
    p = Instance(RefP, ())
    dx = DelegatesTo('p', prefix='px')
    di = DelegatesTo('p', prefix='pi')
    pr = PrototypedFrom('p', prefix='px')
    prop = Property()
    vprop = Property(Int)
    cprop = Property(observe='a')
    tv = Trait(0, lambda o, n, v: v)
    bad_v = Trait(0, lambda o, n, v: (_ for _ in ()).throw(ValueError("no")))
    any_none = Any(comparison_mode=0)
    # one compound per case of the switch in validate_trait_complex
    er = Either(Range(0.0, 1.0), Str)
    et = Either(Tuple(Int, Int), None)
    ee = Either(Enum('a', 'b'), Float)
    eic = Either(Instance(RefObj), Callable)
    ec = Either(CInt, Str)
    em = Either(None, Map({'a': 1}))
    tr = Trait(0.5, Range(0.0, 1.0), None)
    eint = Either(Int, None)
    efl = Either(Float, None)
    et2 = Tuple(Either(Range(0.0, 1.0), Str), Int)
    ety = Either(Type(RefObj), Str)
    eth = Either(This, Str)
    ecx = Either(Complex, Str)
    esl = Either(List(Int), Range(0.0, 1.0))

    def _get_prop(self):
        return self.__dict__.get('_prop')

    def _set_prop(self, v):
        self.__dict__['_prop'] = v

    def _get_vprop(self):
        return self.__dict__.get('_vprop', 0)

    def _set_vprop(self, v):
        self.__dict__['_vprop'] = v

    @cached_property
    def _get_cprop(self):
        return self.a

    def _a_changed(self, old, new):
        pass

    def _i_changed(self, name, old, new):
        pass



class RefPick(HasTraits):
    a = Any
    la = List(Any)
    t = Tuple(Int, Str)
    ei = Either(None, Int, Str)
    d = Dict(Str, Any)


def _mk_ref_experiments():
    H = RefH

    """(label, setup() -> state, op(state, sentinel), sentinel factory)"""
    ex = []

    def bigint(k):
        return 10 ** 20 + k

    def fl(k):
        return 1000.5 + k

    def st(k):
        return "sentinel-%d-%s" % (k, "x" * 30)

    def ob(k):
        return RefObj(k)

    def tup(k):
        return (10 ** 20 + k, "t%d%s" % (k, "y" * 30))

    def lst(k):
        return [10 ** 20 + k, 10 ** 21 + k]

    def new():
        h = H()
        h.on_trait_change(lambda o, n, old, new: None, 'a')
        h.on_trait_change(lambda: None, 'i')
        h.observe(lambda e: None, 'a')
        h.observe(lambda e: None, 'la.items')
        h.on_trait_change(lambda e: None, 'la_items')
        h.on_trait_change(lambda: (_ for _ in ()).throw(RuntimeError("handler")), 'f')
        return h

    def setop(name):
        def op(h, s):
            try:
                setattr(h, name, s)
            except (TraitError, ValueError):
                pass
        return op
    # successful and failing assignments, per trait kind x sentinel type
    def smallfl(k):
        return 0.25 + k * 1e-7

    def tupf(k):
        return (0.25 + k * 1e-7, 10 ** 20 + k)

    def tupi(k):
        return (10 ** 20 + k, 10 ** 21 + k)
    for name in ("a", "i", "f", "s", "r", "e", "t", "ei", "ci", "m", "li", "la", "d", "se", "inst",
                 "ev", "call", "dx", "di", "pr", "prop", "vprop", "tv", "bad_v", "any_none", "undeclared",
                 "er", "et", "ee", "eic", "ec", "em", "tr", "eint", "efl", "et2", "ety", "eth", "ecx",
                 "esl"):
        for sname, sf in (("bigint", bigint), ("float", fl), ("str", st), ("obj", ob), ("tuple", tup),
                          ("list", lst), ("smallfloat", smallfl), ("tuple-float-int", tupf),
                          ("tuple-int-int", tupi)):
            ex.append(("set:%s<-%s" % (name, sname), new, setop(name), sf))

    def getop(name):
        def op(h, s):
            try:
                getattr(h, name)
            except (AttributeError, TraitError):
                pass
        return op
    for name in ("a", "i", "li", "d", "inst", "ev", "dx", "pr", "prop", "cprop", "p", "nope", "ro"):
        ex.append(("get:" + name, new, getop(name), ob))

    def set_del(name):
        def op(h, s):
            try:
                setattr(h, name, s)
                delattr(h, name)
            except (TraitError, AttributeError):
                pass
        return op
    for name in ("a", "pr", "la", "dx", "undeclared", "ro", "ev"):
        ex.append(("setdel:" + name, new, set_del(name), ob))
        ex.append(("setdel:" + name + "<-list", new, set_del(name), lst))

    def listops(h, s):
        h.la.append(s)
        h.la[0:1] = [s, s]
        h.la.insert(0, s)
        h.la.remove(s)
        del h.la[:]
    ex.append(("list-ops", new, listops, ob))

    def listbad(h, s):
        try:
            h.li.append(s)
        except TraitError:
            pass
        try:
            h.li[0:0] = [1, s]
        except TraitError:
            pass
    ex.append(("list-bad-item", new, listbad, ob))

    def dictops(h, s):
        h.d[s] = s
        h.d.update({s: 1})
        h.d.pop(s)
        h.se.add(s)
        h.se.discard(s)
    ex.append(("dict-set-ops", new, dictops, ob))

    def validate_op(name):
        def op(h, s):
            try:
                h.trait(name).validate(h, name, s)
            except TraitError:
                pass
            try:
                h.validate_trait(name, s)
            except TraitError:
                pass
        return op
    for name in ("i", "f", "t", "ei", "r", "inst", "e", "m", "li", "call", "er", "et", "ee", "eic", "ec",
                 "tr", "et2", "esl"):
        ex.append(("validate:" + name, new, validate_op(name), ob))
        ex.append(("validate:%s<-bigint" % name, new, validate_op(name), bigint))
        ex.append(("validate:%s<-float" % name, new, validate_op(name), fl))
        ex.append(("validate:%s<-smallfloat" % name, new, validate_op(name), smallfl))

    def ctor(h, s):
        try:
            H(a=s, i=s)
        except TraitError:
            pass
        H(a=s, la=[s])
    ex.append(("ctor-kwargs", new, ctor, ob))
    ex.append(("ctor-kwargs<-bigint", new, ctor, bigint))

    def tpc(h, s):
        h.trait_property_changed('prop', s, s)
        h.trait_property_changed('a', None, s)
    ex.append(("trait_property_changed", new, tpc, ob))

    def tset(h, s):
        try:
            h.trait_set(a=s, i=s)
        except TraitError:
            pass
        h.trait_setq(a=s)
        h.trait_get('a', 'i')
    ex.append(("trait_set/get", new, tset, ob))

    def addrem(h, s):
        h.add_trait('dyn', Any(s))
        h.dyn
        h.dyn = s
        h.remove_trait('dyn')
    ex.append(("add/remove_trait", new, addrem, ob))

    def handlers(h, s):
        f = lambda o, n, old, new: None
        h.on_trait_change(f, 'a')
        h.a = s
        h.on_trait_change(f, 'a', remove=True)
        g = lambda e: None
        h.observe(g, 'a')
        h.a = None
        h.observe(g, 'a', remove=True)
    ex.append(("handler add/fire/remove", new, handlers, ob))

    def pick(h, s):
        h.a = s
        h.la = [s]
        pickle.loads(pickle.dumps(h))
        copy.deepcopy(h)
        h.clone_traits()
        pickle.loads(pickle.dumps(h.trait('t')))
        copy.deepcopy(h.trait('ei'))
        h.a = None
        h.la = []
    ex.append(("pickle/copy/clone", RefPick, pick, st))
    ex.append(("pickle/copy/clone<-bigint", RefPick, pick, bigint))

    def default_for(h, s):
        for n in ('li', 'd', 'p', 'i', 't'):
            h.trait(n).default_value_for(h, n)
            h.trait(n).default_value()
    ex.append(("default_value_for", new, default_for, ob))

    def sync(h, s):
        o = H()
        h.sync_trait('a', o)
        h.a = s
        h.sync_trait('a', o, remove=True)
        h.a = None
    ex.append(("sync_trait", new, sync, ob))

    class WarnH(HasTraits):
        d = Int

        def _d_default(self):
            raise self.__dict__["exc"]

    def warn_default(mode):
        def op(h, s):
            import warnings
            h.__dict__["exc"] = s
            h.__dict__.pop("d", None)
            with warnings.catch_warnings():
                warnings.simplefilter(mode)
                try:
                    h.d
                except (AttributeError, UserWarning) as caught:
                    # break the reference cycles Python itself builds when one exception
                    # object is raised repeatedly (traceback -> frame -> locals -> s)
                    caught.__traceback__ = None
                    caught.__cause__ = None
                    caught.__context__ = None
                    del caught
            s.__traceback__ = None
            s.__cause__ = None
            s.__context__ = None
            h.__dict__.pop("exc", None)
        return op

    def exc_sentinel(k):
        return AttributeError("sentinel %d" % k)
    for mode in ("error", "ignore", "always"):
        ex.append(("default-raises-AttributeError/warnings=" + mode, WarnH, warn_default(mode), exc_sentinel))

    def cmp_modes(h, s):
        h.any_none = s
        h.any_none = s
        h.a = s
        h.a = s
    ex.append(("comparison-modes", new, cmp_modes, ob))
    return ex


def phase_ref(ctx):
    push_exception_handler(handler=lambda *a: None, reraise_exceptions=False, main=True)
    obsapi.push_exception_handler(handler=lambda e: None, reraise_exceptions=False)
    N = 200
    exps = _mk_ref_experiments()
    # second table (written from the coverage report of the first one)
    from vf.monitors import _c18_ref_more as more
    more.install_adaptation()
    exps += more.make((RefObj, lambda k: 10 ** 20 + k, lambda k: 1000.5 + k,
                       lambda k: "sentinel-%d-%s" % (k, "x" * 30),
                       lambda k: (10 ** 20 + k, "t%d%s" % (k, "y" * 30)),
                       lambda k: [10 ** 20 + k, 10 ** 21 + k]))
    for idx, (label, setup, op, sf) in enumerate(exps):
        if not ctx.mine(idx):
            continue
        if not ctx.begin("ref:" + label):
            continue
        try:
            state = setup()
            s = sf(idx)
            counts = []
            for it in range(N):
                op(state, s)
                if it >= 10:
                    counts.append(sys.getrefcount(s))
            if len(set(counts)) != 1:
                # objects created by the operation may sit in reference cycles that only the
                # cyclic collector frees: repeat, collecting before every reading
                state = setup()
                s = sf(idx)
                counts = []
                for it in range(N):
                    op(state, s)
                    if it >= 10:
                        gc.collect()
                        counts.append(sys.getrefcount(s))
                ctx.count("ref_experiments_needing_gc")
            ctx.ev()
            ctx.count("ref_experiments")
            ctx.sig("ref", label)
            if len(set(counts)) != 1:
                kind = "grows" if counts[-1] > counts[0] else "shrinks" if counts[-1] < counts[0] else "unstable"
                ctx.violation("refcount/%s/%s" % (kind, label.split("<-")[0]),
                              "refcount of the sentinel passed to %r is not steady over 190 repetitions: "
                              "first %d last %d (min %d max %d)" % (label, counts[0], counts[-1],
                                                                    min(counts), max(counts)),
                              {"label": label, "counts_head": counts[:5], "counts_tail": counts[-5:]})
                continue
            # allocated-block drift, second pass with fresh sentinels each iteration
            M = 1000

            def measure():
                state = setup()
                for it in range(30):
                    op(state, sf(10 ** 6 + it))
                gc.collect()
                b0 = sys.getallocatedblocks()
                for it in range(M):
                    op(state, sf(it % 7))
                gc.collect()
                return sys.getallocatedblocks() - b0

            drift = measure()
            ctx.count("drift_experiments")
            if drift >= 0.25 * M:
                # a leak per call reproduces on every repetition; a one-off growth of an
                # interpreter-level cache or free list (seen once as +321 blocks on the healthy
                # tree) does not: the verdict is the smallest of four measurements
                ctx.count("drift_experiments_repeated")
                drift = min([drift] + [measure() for _ in range(3)])
            if drift >= 0.25 * M:
                ctx.violation("blocks/leak/%s" % label.split("<-")[0],
                              "allocated blocks grew by %d over %d repetitions of %r (>= 0.25/iteration)"
                              % (drift, M, label), {"label": label, "drift": drift, "reps": M})
            if idx % 40 == 0:
                ctx.sample({"ref_experiment": label, "steady_refcount": counts[0], "block_drift_per_1000": drift})
        finally:
            ctx.end()


# =============================================================================
def phase_suite(ctx):
    """Run the repository's own test modules under the S build (thorough tier)."""
    snap = os.environ["VF_SNAPSHOT"]
    mods = []
    for root, dirs, files in os.walk(os.path.join(snap, "traits")):
        if os.path.basename(root) != "tests":
            continue
        for f in sorted(files):
            if f.startswith("test_") and f.endswith(".py"):
                mods.append(os.path.join(root, f))
    mods.sort()
    from vf.run import crash_key
    for i, m in enumerate(mods):
        if not ctx.mine(i):
            continue
        rel = os.path.relpath(m, snap)
        if not ctx.begin("suite:" + rel):
            continue
        try:
            r = subprocess.run([sys.executable, "-m", "pytest", "-q", "-x", "-p", "no:cacheprovider",
                                "--timeout=900", m], cwd=snap, capture_output=True, text=True,
                               timeout=3000)
            ctx.count("suite_modules")
            ctx.ev()
            ctx.sig("suite", rel)
            out = r.stdout + "\n" + r.stderr
            if r.returncode < 0 or "Sanitizer" in out or "runtime error:" in out or r.returncode in (134, 139):
                ctx.violation(crash_key(out[-20000:], r.returncode).replace("crash/", "suite-crash/"),
                              "test module %s under the sanitized build: rc=%d\n%s"
                              % (rel, r.returncode, out[-3000:]), {"module": rel})
            elif r.returncode not in (0, 5):
                ctx.count("suite_modules_with_failures")   # behavioural failures are not C18's business
        except subprocess.TimeoutExpired:
            ctx.timed_out("suite module " + rel)
            continue
        finally:
            ctx.end()


def phase_covwork(ctx):
    """Worker of phase cov (run in a grandchild so that the clang profile runtime writes
    its .profraw at process exit)."""
    push_exception_handler(handler=lambda *a: None, reraise_exceptions=False, main=True)
    obsapi.push_exception_handler(handler=lambda e: None, reraise_exceptions=False)
    sys.setrecursionlimit(400)
    if not ctx.begin("covwork"):
        return
    try:
        for r in range(2):
            for sc in SCENARIOS:
                try:
                    sc(ctx.rng("covsc", sc.__name__, r))
                except BaseException as e:
                    if isinstance(e, (KeyboardInterrupt, SystemExit)):
                        raise
        for p in range(600):
            rng = ctx.rng("covprog", p)
            fz.run_program(rng, "c%d" % p, rng.randint(10, 60), rng.choice([0.0, 0.1, 0.3]))
        for name in OTHERS:
            try:
                mod = importlib.import_module("vf.monitors." + name)
                mod.run(SubCtx(ctx, name, 0.01, 6))
            except BaseException as e:
                if isinstance(e, (KeyboardInterrupt, SystemExit)):
                    raise
            finally:
                gc.set_threshold(700, 10, 10)
                sys.setrecursionlimit(400)
    finally:
        ctx.end()


def phase_cov(ctx):
    """Evidence only: which functions / lines / branches of ctraits.c a slice of the san
    workload reaches (clang source-based coverage build)."""
    import glob
    import json as _json
    if not ctx.begin("cov:driver"):
        return
    try:
        import traits.ctraits as ct
        snap = os.environ["VF_SNAPSHOT"]
        out = os.path.join(snap, "covwork.jsonl")
        subprocess.run([sys.executable, "-m", "vf.child", "C18", "--tier", ctx.tier, "--seed", str(ctx.seed),
                        "--phase", "covwork", "--shard", "0", "--nshards", "1", "--out", out],
                       capture_output=True, timeout=3000)
        raws = [f for f in glob.glob(os.path.join(snap, "cov-*.profraw")) if os.path.getsize(f) > 0]
        prof = os.path.join(snap, "cov.profdata")
        subprocess.run(["llvm-profdata-14", "merge", "-sparse"] + raws + ["-o", prof], check=True,
                       capture_output=True)
        r = subprocess.run(["llvm-cov-14", "export", "-summary-only", "-instr-profile", prof, ct.__file__],
                           capture_output=True, text=True, check=True)
        tot = _json.loads(r.stdout)["data"][0]["totals"]
        ctx.note("ctraits_coverage_of_cov_phase", {
            k: {"covered": tot[k]["covered"], "count": tot[k]["count"]}
            for k in ("functions", "lines", "branches") if k in tot})
        r2 = subprocess.run(["llvm-cov-14", "report", "-show-functions", "-instr-profile", prof,
                             ct.__file__, os.path.join(snap, "traits", "ctraits.c")],
                            capture_output=True, text=True)
        unreached = []
        for line in r2.stdout.splitlines():
            parts = line.split()
            if len(parts) >= 4 and parts[3] == "0.00%":
                nm = parts[0].split(":")[-1]
                if nm.replace("_", "").isalnum():
                    unreached.append(nm)
        ctx.note("ctraits_functions_not_reached_by_cov_phase", unreached[:150])
        ctx.count("coverage_reports")
        ctx.ev()
        ctx.sig("cov")
    except Exception as e:
        ctx.note("ctraits_coverage_of_cov_phase", "unavailable: %s: %s" % (type(e).__name__, str(e)[:200]))
    finally:
        ctx.end()


def run(ctx):
    if ctx.phase == "cov":
        return phase_cov(ctx)
    if ctx.phase == "covwork":
        return phase_covwork(ctx)
    if ctx.phase == "san":
        phase_san(ctx)
    elif ctx.phase == "ref":
        phase_ref(ctx)
    elif ctx.phase == "suite":
        phase_suite(ctx)
