"""C02 strata over *how the trait governing a name came to be*.

The main stratum of c02.py works on one explicitly declared attribute of one object.  The
strata here keep its oracle (reference change criterion, exactly-once, truthful old/new,
exception channels) and vary the provenance of the trait instead:

``wild``   classes with one to three wildcard ("prefix") traits (``_ = T``, ``pre_ = T``, ``__ = T``,
           the ``__`` rule of HasPrivateTraits), several names coming into being through the same
           prefix -- by assignment, by a read, or by registering a listener -- on several
           instances of a class and a subclass, next to explicitly declared names.
``redef``  the definition of a name is replaced at run time on one instance (``add_trait`` over a
           class trait, over a wildcard-made trait, over an earlier instance trait: other kind
           and/or other comparison mode), and brand-new names are added with ``add_trait``, while
           handlers of every mechanism are already attached.

``private`` declared names with a leading underscore; their magic-named handlers are put into the
           class dictionary under the name the compiler would give them (``_Base__p_changed``), over
           subclass layouts (handlers of the base / the subclass / a subclass created mid-history).
           Strata wild and redef give such names no magic-named handler.

Every handler records (mechanism, object, name it was registered for, old, new, name it was
told).  For one assignment ``obj.name = v`` the handlers owed a call are exactly those registered
for (obj, name); anything else in the log is a call "for another name" or "on another object".
"""
from traits.api import (
    HasTraits, HasPrivateTraits, MetaHasTraits, TraitError, Instance, ComparisonMode, Undefined,
    observe,
)

from vf.util import short
from vf.monitors import c02 as B

MODES = [ComparisonMode.none, ComparisonMode.identity, ComparisonMode.equality]
EVENTS = ("Event", "EventInt", "Button")
# kinds that need no class-level helper method (_x_default) to be what they are
KINDS = [k for k in B.KINDS if not k.startswith("Dyn")]
KNOWN_DEFAULT = {k: v for k, v in B.KNOWN_DEFAULT.items() if not k.startswith("Dyn")}

PREFIX_NAMES = {"": ["alpha", "beta", "gamma"], "pre": ["pre_a", "pre_b", "pre_c"],
                "_": ["_p", "_q", "_r"]}
DECLARED = {"wild": ["d1", "d2"], "redef": ["d1", "d2"], "private": ["_p", "_q", "c1"]}
NEW_NAMES = ["n1", "n2"]
DYN_MECHS = ["otc", "otcm", "obs", "nested"]
ALL_MECHS = ["static", "any", "deco", "otcall"] + DYN_MECHS


class Owner(HasTraits):
    child = Instance(HasTraits)


class Holder:
    """owner of a bound-method listener"""
    def __init__(self, fn):
        self.fn = fn

    def handle(self, obj, name, old, new):
        self.fn(obj, name, old, new)


def _bucket(n):
    return str(n) if n < 2 else "many"


def run_world(ctx, stratum, h, legacy_errs, obs_errs):
    rng = ctx.rng(stratum, h)
    M = object()
    LOG = []
    raiser = rng.choice([None, None, None] + ALL_MECHS)
    exc = rng.choice(B.EXCS)

    def rec(mech, obj, name, old=M, new=M, told=M):
        LOG.append((mech, obj, name, old, new, told))
        if mech == raiser:
            ctx.count("world_raising_handler_calls")
            raise exc("boom")

    def newdef(kinds=KINDS):
        kind = rng.choice(kinds)
        return {"kind": kind, "mode": rng.choice(MODES), "event": kind in EVENTS}

    def make(d):
        return B.KINDS[d["kind"]](d["mode"])

    def spell(cls_name, n, sfx):
        """the attribute name under which ``def _<n>_<sfx>`` written in the body of class
        ``cls_name`` ends up in the class dictionary (two leading underscores are mangled)"""
        m = "_%s_%s" % (n, sfx)
        return "_%s%s" % (cls_name, m) if m.startswith("__") else m

    # ---- the class family ---------------------------------------------------------------
    DECL = DECLARED[stratum]
    ns = {}
    prefixes = {}
    base_cls = HasTraits
    if stratum == "wild":
        chosen = rng.sample(["", "pre", "_"], rng.choice([1, 1, 2, 3]))
    elif stratum == "private":
        chosen = []
        if rng.random() < 0.3:
            base_cls = HasPrivateTraits
    else:
        chosen = rng.sample(["", "pre", "_"], 1) if rng.random() < 0.3 else []
    for p in chosen:
        if p == "_" and rng.random() < 0.4:
            # the library's own rule for names with a leading underscore
            base_cls = HasPrivateTraits
            prefixes[p] = {"kind": "Any", "mode": ComparisonMode.equality, "event": False}
            continue
        prefixes[p] = newdef()
        ns[p + "_"] = make(prefixes[p])
    declared = {}
    for n in DECL:
        declared[n] = newdef()
        ns[n] = make(declared[n])

    def governing(name):
        if name in declared:
            return declared[name], "declared"
        best = None
        for p in prefixes:
            if name.startswith(p) and (best is None or len(p) > len(best)):
                best = p
        if best is None:
            return None, None
        return prefixes[best], "wild"

    def prefix_of(name):
        best = None
        for p in prefixes:
            if name.startswith(p) and (best is None or len(p) > len(best)):
                best = p
        return best

    universe = list(DECL)
    for p in ("", "pre", "_"):
        universe += [n for n in PREFIX_NAMES[p] if governing(n)[1] == "wild"]
    addable = []
    if stratum == "redef":
        addable = [n for n in NEW_NAMES if governing(n)[0] is None]
    # magic-named handlers, spread over the base class and a subclass
    have_sub = rng.random() < (0.85 if stratum == "private" else 0.5)
    sub_ns = {}
    statics = {"base": set(), "sub": set()}
    cfg_static = {}

    def mk_static(name, ar):
        return [lambda self: rec("static", self, name),
                lambda self, new: rec("static", self, name, M, new),
                lambda self, old, new: rec("static", self, name, old, new),
                lambda self, told, old, new: rec("static", self, name, old, new, told)][ar]
    for n in universe + addable:
        if rng.random() < 0.5:
            continue
        if n.startswith("_") and stratum != "private":
            # how a magic-named method for a name with a leading underscore is spelled depends
            # on name mangling; that is the business of stratum 'private' (declared names only)
            continue
        level = "sub" if have_sub and rng.random() < 0.4 else "base"
        ar = rng.randrange(0, 4)
        d = governing(n)[0]
        sfx = "fired" if d is not None and d["event"] and rng.random() < 0.5 else "changed"
        (sub_ns if level == "sub" else ns)[spell(level.capitalize(), n, sfx)] = mk_static(n, ar)
        statics[level].add(n)
        cfg_static[n] = (level, ar, sfx)
    any_level = None
    if rng.random() < 0.7:
        any_level = "sub" if have_sub and rng.random() < 0.3 else "base"

        def anyc(self, told, old, new):
            if told != "trait_added":
                rec("any", self, told, old, new, told)
        (sub_ns if any_level == "sub" else ns)["_anytrait_changed"] = anyc
    deco = set()
    for n in DECL:
        if rng.random() < 0.4:
            deco.add(n)
            ns["_observed_" + n] = observe(n)(
                lambda self, e, _n=n: rec("deco", e.object, _n, e.old, e.new, e.name))
    Base = MetaHasTraits("Base", (base_cls,), ns)
    Sub = MetaHasTraits("Sub", (Base,), sub_ns) if have_sub else None
    nobj = rng.choice([1, 2, 2, 3])
    objs, levels, owners = [], [], []
    for i in range(nobj):
        use_sub = have_sub and rng.random() < 0.6
        objs.append((Sub if use_sub else Base)())
        levels.append(("base", "sub") if use_sub else ("base",))
        owners.append(Owner(child=objs[-1]))
    keep = []                                   # holders of bound-method listeners stay alive
    state = {}                                  # (i, name) -> dict
    for i in range(nobj):
        for n in universe:
            d, origin = governing(n)
            state[(i, n)] = {"def": d, "origin": origin, "touched": False, "regs": set(),
                             "must_read": False, "key": (i, n)}
    otcall = set()
    born_in_prefix = {}                          # prefix -> names that came into being (class wide)
    pools = {}
    trace = []
    cfg = {"stratum": stratum, "base": base_cls.__name__,
           "prefixes": {p + "_": (d["kind"], d["mode"].name) for p, d in prefixes.items()},
           "declared": {n: (d["kind"], d["mode"].name) for n, d in declared.items()},
           "static": cfg_static, "anytrait": any_level, "decorated": sorted(deco),
           "objects": ["Sub" if "sub" in lv else "Base" for lv in levels],
           "raiser": raiser, "exc": exc.__name__}

    def static_place(i_, n_):
        """where the magic-named handler of a name lives relative to the object's class"""
        lv = cfg_static.get(n_, (None,))[0]
        where = "no-static" if lv is None or lv not in levels[i_] else (
            "static-of-own-class" if lv == levels[i_][-1] else "static-inherited")
        return "%s-name/%s" % ("private" if n_.startswith("_") else "public", where)

    def viol(complaint, st, msg):
        d = st["def"] if st else None
        mode = "-" if d is None else ("event" if d["event"] else d["mode"].name)
        origin = st["origin"] if st else "-"
        if stratum == "private" and st is not None:
            origin = static_place(*st["key"])
        ctx.violation("%s:%s/%s/%s" % (stratum, complaint, origin, mode),
                      "%s: %s | config %r | history %r" % (complaint, msg, cfg, trace),
                      {"config": cfg, "history": list(trace)})
        return True

    def note_birth(i, n, how):
        st = state[(i, n)]
        if st["origin"] == "wild":
            p = prefix_of(n)
            seen = born_in_prefix.setdefault(p, set())
            if n not in seen:
                seen.add(n)
                ctx.count("wildcard_names_born")
                ctx.count("wildcard_names_born_by_" + how)
                if len(seen) > 1:
                    ctx.count("wildcard_names_born_after_a_sibling")

    def owed(i, n):
        s = set(state[(i, n)]["regs"])
        if any(n in statics[lv] for lv in levels[i]):
            s.add("static")
        if any_levels & set(levels[i]):
            s.add("any")
        if n in deco:
            s.add("deco")
        if i in otcall:
            s.add("otcall")
        return s

    def register(i, n, mech):
        """attach one more listener for (object i, name n); False when the library refused"""
        o = objs[i]
        st = state[(i, n)]
        try:
            if mech == "otc":
                ar = rng.randrange(0, 5)
                f = [lambda: rec("otc", o, n), lambda new: rec("otc", o, n, M, new),
                     lambda told, new: rec("otc", o, n, M, new, told),
                     lambda obj, told, new: rec("otc", obj, n, M, new, told),
                     lambda obj, told, old, new: rec("otc", obj, n, old, new, told)][ar]
                o.on_trait_change(f, n)
            elif mech == "otcm":
                hd = Holder(lambda obj, told, old, new: rec("otcm", obj, n, old, new, told))
                keep.append(hd)
                o.on_trait_change(hd.handle, n)
            elif mech == "obs":
                o.observe(lambda e: rec("obs", e.object, n, e.old, e.new, e.name), n)
            elif mech == "nested":
                owners[i].observe(lambda e: rec("nested", e.object, n, e.old, e.new, e.name), "child." + n)
            else:
                raise AssertionError(mech)
        except (ValueError, TraitError) as e:
            # observe refuses a name that no trait defines yet; nothing is owed then
            ctx.count("registrations_refused")
            trace.append("reg %s o%d.%s refused (%s)" % (mech, i, n, type(e).__name__))
            return False
        trace.append("reg %s o%d.%s" % (mech, i, n))
        st["regs"].add(mech)
        ctx.count("registrations")
        if not st["touched"] and st["origin"] == "wild":
            ctx.count("registrations_before_first_use")
        if mech in ("otc", "otcm"):
            note_birth(i, n, "registration")
        if st["origin"] == "redefined":
            ctx.count("registrations_after_redefinition")
        return True

    def pool(kind):
        if not pools:
            pools.update(B.pools())
        return pools[kind]

    # listeners attached before anything happened
    for i in range(nobj):
        for n in universe:
            for mech in DYN_MECHS:
                if rng.random() < (0.25 if n in declared else 0.1):
                    del LOG[:]
                    register(i, n, mech)
                    if LOG:
                        return viol("registration-notified", state[(i, n)], "registering %s called %r"
                                    % (mech, [e[0] for e in LOG]))
        if rng.random() < 0.3:
            otcall.add(i)
            objs[i].on_trait_change(
                lambda obj, told, old, new: (told != "trait_added" and not told.endswith("_items"))
                and rec("otcall", obj, told, old, new, told))
    ctx.count(stratum + "_histories")

    ops = ["set"] * 9 + ["read"] * 2 + ["reg"] * 2
    if stratum == "redef":
        ops += ["redefine"] * 3 + ["addnew"] * 2
    # a subclass that is created (with magic-named handlers of its own) only after names have
    # come into being on its parents, and an instance of it joining the history
    late_at = rng.randrange(3, 11) if rng.random() < 0.3 else None
    any_levels = {any_level} if any_level else set()
    for step in range(16):
        del LOG[:], legacy_errs[:], obs_errs[:]
        if step == late_at:
            late_ns = {}
            statics["late"] = set()
            parent_levels = ("base", "sub") if have_sub and rng.random() < 0.5 else ("base",)
            for n in universe:
                if n in cfg_static or rng.random() < 0.6 or (n.startswith("_") and stratum != "private"):
                    continue
                ar = rng.randrange(0, 4)
                late_ns[spell("Late", n, "changed")] = mk_static(n, ar)
                statics["late"].add(n)
                cfg_static[n] = ("late", ar, "changed")
            if not any_levels and rng.random() < 0.5:
                def anyc_late(self, told, old, new):
                    if told != "trait_added":
                        rec("any", self, told, old, new, told)
                late_ns["_anytrait_changed"] = anyc_late
                any_levels.add("late")
                cfg["anytrait"] = "late"
            Late = MetaHasTraits("Late", (Sub if "sub" in parent_levels else Base,), late_ns)
            objs.append(Late())
            levels.append(parent_levels + ("late",))
            owners.append(Owner(child=objs[-1]))
            cfg["objects"].append("Late(%s)" % ("Sub" if "sub" in parent_levels else "Base"))
            trace.append("new subclass Late with instance o%d" % nobj)
            for n in universe:
                d, origin = governing(n)
                state[(nobj, n)] = {"def": d, "origin": origin, "touched": False, "regs": set(),
                                    "must_read": False, "key": (nobj, n)}
            nobj += 1
            ctx.count("late_subclasses")
            if LOG:
                return viol("class-creation-notified", None, "creating a subclass called %r" % [e[:3] for e in LOG])
        opk = rng.choice(ops)
        i = rng.randrange(nobj)
        o = objs[i]
        if opk == "addnew":
            cand = [n for n in addable if (i, n) not in state]
            if not cand:
                opk = "redefine"
            else:
                n = rng.choice(cand)
                d = newdef()
                trace.append("add_trait o%d.%s %s/%s" % (i, n, d["kind"], d["mode"].name))
                try:
                    o.add_trait(n, make(d))
                except Exception as e:
                    return viol("add-trait-raised:" + type(e).__name__, None, "add_trait let %r escape" % (e,))
                state[(i, n)] = st = {"def": d, "origin": "added", "touched": False, "regs": set(),
                                      "must_read": True, "key": (i, n)}
                ctx.ev()
                ctx.count("new_names_added")
                if LOG:
                    return viol("add-trait-notified", st, "adding a new name called %r" % [e[:3] for e in LOG])
                continue
        names_i = [n for (j, n) in state if j == i]
        n = rng.choice(names_i)
        st = state[(i, n)]
        if opk == "redefine":
            # same kind with another comparison mode, or another kind altogether
            if rng.random() < 0.4:
                d = {"kind": st["def"]["kind"], "event": st["def"]["event"], "mode": rng.choice(MODES)}
            else:
                d = newdef()
            trace.append("add_trait(existing) o%d.%s %s/%s" % (i, n, d["kind"], d["mode"].name))
            owed_before = owed(i, n)
            try:
                o.add_trait(n, make(d))
            except Exception as e:
                return viol("add-trait-raised:" + type(e).__name__, st, "add_trait let %r escape" % (e,))
            ctx.ev()
            ctx.count("redefinitions")
            ctx.count("redefinitions_of_%s_names" % st["origin"])
            if not st["touched"] and not st["regs"]:
                note_birth(i, n, "redefinition")
            st["def"], st["origin"], st["must_read"] = d, "redefined", True
            if owed_before & {"obs", "nested", "deco"}:
                ctx.count("redefinitions_with_observers_attached")
            if owed_before & {"otc", "otcm", "static", "any"}:
                ctx.count("redefinitions_with_legacy_handlers_attached")
            if LOG:
                return viol("add-trait-notified", st, "replacing the definition called %r" % [e[:3] for e in LOG])
            continue
        if opk == "reg":
            free = [m for m in DYN_MECHS if m not in st["regs"]]
            if i not in otcall:
                free.append("otcall")
            if not free:
                continue
            mech = rng.choice(free)
            if mech == "otcall":
                otcall.add(i)
                trace.append("reg otcall o%d" % i)
                o.on_trait_change(
                    lambda obj, told, old, new: (told != "trait_added" and not told.endswith("_items"))
                    and rec("otcall", obj, told, old, new, told))
            else:
                register(i, n, mech)
            if LOG:
                return viol("registration-notified", st, "registering %s called %r" % (mech, [e[0] for e in LOG]))
            continue
        d = st["def"]
        is_event = d["event"]
        if opk == "read":
            if is_event:
                continue
            trace.append("read o%d.%s" % (i, n))
            try:
                v0 = getattr(o, n)
            except Exception as e:
                return viol("read-raised:" + type(e).__name__, st, "a read let %r escape" % (e,))
            if not st["touched"]:
                note_birth(i, n, "read")
            st["touched"], st["must_read"] = True, False
            ctx.ev()
            ctx.count("world_reads")
            if LOG:
                return viol("read-notified", st, "a read called %r" % [e[:3] for e in LOG])
            if getattr(o, n) is not v0:
                return viol("read-not-stable", st, "two consecutive reads returned different objects")
            continue
        # ---- assignment --------------------------------------------------------------------
        v = rng.choice(pool(d["kind"]))
        unread = (not st["touched"] and not st["must_read"] and d["kind"] in KNOWN_DEFAULT
                  and rng.random() < 0.6)
        trace.append("set%s o%d.%s = %s" % ("-unread" if unread else "", i, n, short(v, 30)))
        if is_event:
            before = Undefined
        elif unread:
            before = KNOWN_DEFAULT[d["kind"]]
        else:
            try:
                before = getattr(o, n)
            except Exception as e:
                return viol("read-raised:" + type(e).__name__, st, "a read let %r escape" % (e,))
            if not st["touched"]:
                note_birth(i, n, "read")
        if LOG:
            return viol("read-notified", st, "reading the value before an assignment called handlers")
        if not st["touched"]:
            note_birth(i, n, "assignment")
        p = prefix_of(n) if st["origin"] == "wild" else None
        later_sibling = p is not None and len(born_in_prefix.get(p, ())) > 1
        st["touched"], st["must_read"] = True, False
        try:
            setattr(o, n, v)
            ok = True
        except TraitError:
            ok = False
        except Exception as e:
            return viol("assignment-raised:" + type(e).__name__, st, "assignment let %r escape" % (e,))
        ctx.ev()
        snap = list(LOG)
        after = v if is_event else getattr(o, n)
        if len(LOG) != len(snap):
            return viol("read-notified", st, "reading the value after an assignment called handlers")
        if not ok:
            ctx.count("world_rejected_assignments")
            if snap:
                return viol("rejected-notified", st, "a rejected assignment called %r" % [e[:3] for e in snap])
            if not is_event and after is not before:
                return viol("rejected-changed-value", st, "value changed by a rejected assignment")
            if legacy_errs or obs_errs:
                return viol("rejected-exception-channel", st, "rejected assignment put something on an exception channel")
            continue
        exp = B.expected_change(is_event, d["mode"], before, after)
        want = owed(i, n)
        ctx.count("%s_assignments_%s" % (stratum, "notifying" if exp else "silent"))
        ctx.count("assignments_to_%s_names" % st["origin"])
        if "late" in levels[i]:
            ctx.count("assignments_on_late_subclass_instances")
        if stratum == "private" and exp:
            ctx.count("changes_of_" + static_place(i, n))
        if later_sibling:
            ctx.count("assignments_while_several_names_share_a_wildcard")
            if want & {"static", "any"}:
                ctx.count("assignments_while_several_names_share_a_wildcard_with_static_handlers")
        if st["origin"] == "redefined" and exp:
            ctx.count("changes_after_redefinition")
            if want & {"obs", "nested", "deco"}:
                ctx.count("changes_after_redefinition_owed_to_observers")
            if want & {"otc", "otcm", "static", "any", "otcall"}:
                ctx.count("changes_after_redefinition_owed_to_legacy_handlers")
        ctx.sig(stratum, d["kind"], d["mode"].name, st["origin"],
                B.relation(before, after) if not is_event else "event", exp, raiser)
        counts = {}
        for (m, eobj, en, eo, enew, told) in snap:
            if eobj is not o:
                return viol("%s-called-on-other-object" % m, st,
                            "assignment to o%d.%s called a %s handler of another object" % (i, n, m))
            if en != n:
                return viol("%s-called-for-other-name" % m, st,
                            "assignment to o%d.%s called the %s handler registered for %r" % (i, n, m, en))
            if told is not M and told != n:
                return viol("%s-told-other-name" % m, st,
                            "assignment to o%d.%s: %s handler was told name %r" % (i, n, m, told))
            counts[m] = counts.get(m, 0) + 1
        for m in sorted(set(counts) | want):
            c = counts.get(m, 0)
            if m not in want:
                return viol("%s-called-but-not-registered" % m, st, "o%d.%s" % (i, n))
            ctx.count("handler_obligations_checked")
            if c != int(exp):
                return viol("%s-called-%s-expected-%d" % (m, _bucket(c), int(exp)), st,
                            "o%d.%s called %d times; before=%s after=%s relation=%s"
                            % (i, n, c, short(before, 40), short(after, 40), B.relation(before, after)))
        for (m, eobj, en, eo, enew, told) in snap:
            if enew is not M:
                ctx.count("world_oldnew_checked")
                if enew is not after:
                    return viol("%s-new-not-readable-value" % m, st, "new=%s readable=%s" % (short(enew), short(after)))
            if eo is not M:
                if is_event:
                    if eo is not Undefined:
                        return viol("%s-event-old-not-Undefined" % m, st, "old=%s" % short(eo))
                elif eo is not before:
                    return viol("%s-old-not-previous-value" % m, st,
                                "old=%s previous=%s" % (short(eo), short(before)))
        if raiser in counts:
            chan = obs_errs if raiser in ("obs", "nested", "deco") else legacy_errs
            if not chan:
                return viol("handler-exception-vanished", st,
                            "raising %s handler left nothing on its exception channel" % raiser)
        elif legacy_errs or obs_errs:
            return viol("unexpected-exception-on-channel", st, short((legacy_errs or obs_errs)[0], 200))
        if not is_event and getattr(o, n) is not after:
            return viol("value-unstable-after-assignment", st, "")
    return False


# ======================================================================================
# stratum 'churn': the POPULATION of handlers changes during the history
# ======================================================================================
#
# The strata above only ever add listeners.  Here registrations and removals of every dynamic
# mechanism are interleaved with the assignments: on_trait_change for one name / several names
# in one call / an extended name through an owner (function of arity 0-4, bound method,
# priority=True), on_trait_change with NO name (object-level "anytrait" form, spelled with the
# name omitted / None / 'anytrait'; function or bound method), observe for one name / several
# names / through an owner -- each taken away again with remove=True (one name at a time or
# several in one call) or, for bound methods, by dropping the last reference to the owner, and
# possibly put back later.  Names with and without magic-named static handlers take part, so a
# name may pass through every state: never had a trait-level listener, has some, has lost the
# LAST one while object-level listeners remain, and the reverse.
#
# The oracle is the statement's: after each assignment that counts as a change every CURRENTLY
# registered handler applying to (object, name) was called exactly once, every handler that was
# removed (or registered for another name / object) not at all; old/new truthful; exception
# channels.  Registering and removing must not call anything.

CHURN_NAMES = ["a", "b", "c", "d"]
CHURN_TRAIT_LEVEL = ["otc", "otcm", "obs", "nested", "otcnested"]
CHURN_OBJECT_LEVEL = ["otcall", "otcallm"]
CHURN_NEW = ["otc"] * 3 + ["otcm"] + ["otcall"] * 3 + ["otcallm"] + ["obs"] * 3 + ["nested", "otcnested"]
ANY_SPELLINGS = {"omitted": (), "None": (None,), "anytrait": ("anytrait",)}


class ChurnHolder:
    """owner of a bound-method listener; dropping the last reference to it is a removal"""
    def __init__(self, fn):
        self.fn = fn

    def handle(self, obj, name, old, new):
        self.fn(obj, name, old, new)


def run_churn(ctx, h, legacy_errs, obs_errs):
    rng = ctx.rng("churn", h)
    M = object()
    LOG = []                                     # (reg, obj|M, old|M, new|M, told|M)

    def rec(reg, obj=M, old=M, new=M, told=M):
        if told is not M and (told == "trait_added" or str(told).endswith("_items")):
            return
        LOG.append((reg, obj, old, new, told))
        if reg["raises"]:
            ctx.count("churn_raising_handler_calls")
            raise reg["exc"]("boom")

    def mk_static(r, ar):
        return [lambda self: rec(r, self), lambda self, new: rec(r, self, M, new),
                lambda self, old, new: rec(r, self, old, new),
                lambda self, told, old, new: rec(r, self, old, new, told)][ar]

    # ---- the class ----------------------------------------------------------------------
    names = CHURN_NAMES[:rng.choice([2, 3, 3, 4])]
    defs, ns, static_regs = {}, {}, {}
    for n in names:
        kind = rng.choice(KINDS if rng.random() < 0.8 else list(EVENTS))
        defs[n] = {"kind": kind, "mode": rng.choice(MODES), "event": kind in EVENTS}
        ns[n] = B.KINDS[kind](defs[n]["mode"])
    cfg_static = {}
    for n in names:
        if rng.random() < 0.25:
            ar = rng.randrange(0, 4)
            sfx = "fired" if defs[n]["event"] and rng.random() < 0.5 else "changed"
            sreg = {"id": "static:" + n, "mech": "static", "raises": False, "names": {n}, "i": None}
            static_regs[n] = sreg
            ns["_%s_%s" % (n, sfx)] = mk_static(sreg, ar)
            cfg_static[n] = (ar, sfx)
    any_reg = None
    if rng.random() < 0.2:
        any_reg = {"id": "static:anytrait", "mech": "any", "raises": False, "names": set(names), "i": None}
        ns["_anytrait_changed"] = lambda self, told, old, new: rec(any_reg, self, old, new, told)
    K = MetaHasTraits("Churn", (HasTraits,), ns)
    nobj = rng.choice([1, 1, 2])
    objs = [K() for _ in range(nobj)]
    owners = [Owner(child=o) for o in objs]
    regs = []                                    # dynamic registrations, live or not
    ever_tl = set()                              # (i, n) that ever had a dynamic trait-level listener
    ever_ol = set()                              # i that ever had an object-level listener
    was_live = set()                             # (reg id, i, n): that handler was once registered there
    touched = set()
    pools = {}
    trace = []
    one_raises = rng.random() < 0.35
    cfg = {"stratum": "churn", "traits": {n: (d["kind"], d["mode"].name) for n, d in defs.items()},
           "static": cfg_static, "anytrait": any_reg is not None, "objects": nobj}

    def live_for(i, n):
        out = []
        for r in regs:
            if r["i"] == i and (n in r["names"] or (r["all"] and r["names"])):
                out.append(r)
        return out

    def pop_class(i, n):
        """structural description of who listens to (object i, name n) and who used to"""
        lv = live_for(i, n)
        if n in static_regs or any_reg is not None:
            tl = "static"
        elif any(not r["all"] for r in lv):
            tl = "live"
        else:
            tl = "left" if (i, n) in ever_tl else "never"
        ol = "live" if any(r["all"] for r in lv) else ("left" if i in ever_ol else "never")
        return tl, ol

    def viol(complaint, i, n, msg):
        d = defs.get(n)
        mode = "-" if d is None else ("event" if d["event"] else d["mode"].name)
        pc = "-" if n is None else "trait-level=%s,object-level=%s" % pop_class(i, n)
        ctx.violation("churn:%s/%s/%s" % (complaint, pc, mode),
                      "%s: %s | config %r | history %r" % (complaint, msg, cfg, trace),
                      {"config": cfg, "history": list(trace)})
        return True

    def new_reg(mech, i):
        reg = {"id": "%s#%d" % (mech, len(regs)), "mech": mech, "i": i, "names": set(),
               "all": mech in CHURN_OBJECT_LEVEL, "raises": False, "exc": rng.choice(B.EXCS),
               "priority": rng.random() < 0.2, "holder": None, "units": [], "spelling": rng.choice(sorted(ANY_SPELLINGS))}
        if one_raises and not any(r["raises"] for r in regs) and rng.random() < 0.5:
            reg["raises"] = True
        if mech in ("otcm", "otcallm"):
            reg["holder"] = ChurnHolder(lambda obj, told, old, new: rec(reg, obj, old, new, told))
        elif mech in ("obs", "nested"):
            reg["fn"] = lambda e: rec(reg, e.object, e.old, e.new, e.name)
        else:
            reg["arity"] = ar = rng.randrange(0, 5)
            reg["fn"] = [lambda: rec(reg), lambda new: rec(reg, M, M, new),
                         lambda told, new: rec(reg, M, M, new, told),
                         lambda obj, told, new: rec(reg, obj, M, new, told),
                         lambda obj, told, old, new: rec(reg, obj, old, new, told)][ar]
        regs.append(reg)
        return reg

    def call(reg, spec, remove):
        """one registration / removal call of the library for handler `reg`; `spec` is the name
        argument: a name, a 'n1, n2' string, a list of names, or None for the object-level form"""
        o, mech = objs[reg["i"]], reg["mech"]
        f = reg["holder"].handle if reg["holder"] is not None else reg["fn"]
        kw = {"remove": True} if remove else {}
        if reg["priority"] and not remove and mech != "obs" and mech != "nested":
            kw["priority"] = True
        if mech in CHURN_OBJECT_LEVEL:
            o.on_trait_change(f, *ANY_SPELLINGS[reg["spelling"]], **kw)
        elif mech in ("otc", "otcm"):
            o.on_trait_change(f, spec, **kw)
        elif mech == "obs":
            o.observe(f, spec, **kw)
        elif mech in ("nested", "otcnested"):
            if isinstance(spec, list):
                pre = ["child." + x for x in spec]
            else:
                pre = "child." + spec
            if mech == "nested":
                owners[reg["i"]].observe(f, pre, **kw)
            else:
                owners[reg["i"]].on_trait_change(f, pre, **kw)
        else:
            raise AssertionError(mech)

    def do_register():
        # put a removed handler back / extend a live one to further names / a brand-new handler
        dead = [r for r in regs if not r["names"] and (r["holder"] is not None or "fn" in r)]
        ext = [r for r in regs if r["names"] and not r["all"] and len(r["names"]) < len(names)]
        x = rng.random()
        if dead and x < 0.25:
            reg, how = rng.choice(dead), "again"
        elif ext and x < 0.45:
            reg, how = rng.choice(ext), "extend"
        else:
            reg, how = new_reg(rng.choice(CHURN_NEW), rng.randrange(nobj)), "new"
        if reg["all"]:
            ns_, spec, form = ["*"], None, "any:" + reg["spelling"]
        else:
            free = [n for n in names if n not in reg["names"]]
            ns_ = rng.sample(free, 2 if len(free) > 1 and rng.random() < 0.25 else 1)
            if len(ns_) == 1:
                spec, form = ns_[0], "one"
            elif reg["mech"] in ("otc", "otcm", "obs") and rng.random() < 0.5:
                spec, form = ", ".join(ns_), "comma"
            else:
                spec, form = list(ns_), "list"
        try:
            call(reg, spec, False)
        except Exception as e:
            trace.append("reg %s o%d %r raised %s" % (reg["id"], reg["i"], ns_, type(e).__name__))
            return viol("registration-raised:" + type(e).__name__, reg["i"], None, "registering let %r escape" % (e,))
        trace.append("reg(%s,%s) %s o%d %s%s" % (how, form, reg["id"], reg["i"], ",".join(ns_),
                                                 " raises" if reg["raises"] else ""))
        reg["names"].update(ns_)
        if form == "list":
            # a list registers each of its names separately
            reg["units"].extend({"names": [n], "spec": n, "form": "one"} for n in ns_)
        else:
            reg["units"].append({"names": list(ns_), "spec": spec, "form": form})
        for n in ns_:
            was_live.add((reg["id"], reg["i"], n))
            if reg["all"]:
                ever_ol.add(reg["i"])
            else:
                ever_tl.add((reg["i"], n))
        ctx.count("churn_registrations")
        ctx.count("churn_registrations_" + ("object_level" if reg["all"] else "trait_level"))
        if how == "again":
            ctx.count("churn_handlers_registered_again_after_removal")
        if len(ns_) > 1:
            ctx.count("churn_registrations_of_several_names_in_one_call")
        return False

    def do_remove():
        # a removal repeats the name argument of a registration call (what a removal spelled
        # differently from the registration takes away is not the statement's business); names
        # registered one by one or through a list may also leave several at a time through a list
        livers = [r for r in regs if r["names"]]
        if not livers:
            return False
        reg = rng.choice(livers)
        i = reg["i"]
        before_tl = {n: pop_class(i, n) for n in names}
        if reg["holder"] is not None and rng.random() < 0.3:
            reg["holder"] = None                 # the owner dies: the listener leaves by itself
            gone = sorted(reg["names"])
            del reg["units"][:]
            trace.append("drop owner of %s o%d" % (reg["id"], i))
            ctx.count("churn_removals_by_dropping_the_owner")
        else:
            singles = [u for u in reg["units"] if u["form"] == "one"]
            if len(singles) > 1 and rng.random() < 0.3:
                us = rng.sample(singles, 2)
                spec, form = [u["spec"] for u in us], "list"
            else:
                us = [rng.choice(reg["units"])]
                spec, form = us[0]["spec"], us[0]["form"]
            gone = [n for u in us for n in u["names"]]
            try:
                call(reg, spec, True)
            except Exception as e:
                trace.append("unreg %s o%d %r raised %s" % (reg["id"], i, gone, type(e).__name__))
                return viol("removal-raised:" + type(e).__name__, i, None, "removing let %r escape" % (e,))
            for u in us:
                reg["units"].remove(u)
            trace.append("unreg(%s) %s o%d %s" % (form, reg["id"], i, ",".join(gone)))
            if len(gone) > 1:
                ctx.count("churn_removals_of_several_names_in_one_call")
        reg["names"].difference_update(gone)
        ctx.count("churn_removals")
        ctx.count("churn_removals_" + ("object_level" if reg["all"] else "trait_level"))
        for n in names:
            a, b = before_tl[n], pop_class(i, n)
            if a[0] == "live" and b[0] == "left":
                ctx.count("churn_last_trait_level_listener_removed")
                if b[1] == "live":
                    ctx.count("churn_last_trait_level_listener_removed_while_object_level_listeners_remain")
            if a[1] == "live" and b[1] == "left" and n == names[0]:
                ctx.count("churn_last_object_level_listener_removed")
                if any(pop_class(i, m)[0] == "live" for m in names):
                    ctx.count("churn_last_object_level_listener_removed_while_trait_level_listeners_remain")
        return False

    ctx.count("churn_histories")
    nsteps = 22
    for step in range(nsteps):
        del LOG[:], legacy_errs[:], obs_errs[:]
        x = rng.random()
        if step < 3:
            opk = "reg" if x < 0.7 else "set"
        else:
            opk = "set" if x < 0.55 else "read" if x < 0.60 else "reg" if x < 0.78 else "unreg"
        if opk in ("reg", "unreg"):
            if (do_register if opk == "reg" else do_remove)():
                return True
            # (an object-level handler whose signature has no name cannot tell a 'trait_added'
            # event, which creating an instance trait may legitimately fire, from a change)
            heard = [e for e in LOG if not (e[0].get("all") and e[4] is M)]
            if heard:
                return viol("%s-notified" % ("registration" if opk == "reg" else "removal"), 0, None,
                            "%s called %r" % (opk, [e[0]["id"] for e in heard]))
            if legacy_errs or obs_errs:
                return viol("%s-exception-channel" % ("registration" if opk == "reg" else "removal"), 0, None,
                            short((legacy_errs or obs_errs)[0], 200))
            continue
        # where: prefer (object, name) pairs whose population has changed
        hot = sorted(ever_tl | {(i, n) for i in ever_ol for n in names})
        if hot and rng.random() < 0.6:
            i, n = rng.choice(hot)
        else:
            i, n = rng.randrange(nobj), rng.choice(names)
        o, d = objs[i], defs[n]
        is_event = d["event"]
        if opk == "read":
            if is_event:
                continue
            trace.append("read o%d.%s" % (i, n))
            v0 = getattr(o, n)
            touched.add((i, n))
            ctx.ev()
            ctx.count("churn_reads")
            if LOG:
                return viol("read-notified", i, n, "a read called %r" % [e[0]["id"] for e in LOG])
            if getattr(o, n) is not v0:
                return viol("read-not-stable", i, n, "two consecutive reads returned different objects")
            continue
        if not pools:
            pools.update(B.pools())
        v = rng.choice(pools[d["kind"]])
        unread = (i, n) not in touched and d["kind"] in KNOWN_DEFAULT and rng.random() < 0.5
        trace.append("set%s o%d.%s = %s" % ("-unread" if unread else "", i, n, short(v, 30)))
        if is_event:
            before = Undefined
        elif unread:
            before = KNOWN_DEFAULT[d["kind"]]
        else:
            before = getattr(o, n)
        if LOG:
            return viol("read-notified", i, n, "reading the value before an assignment called handlers")
        touched.add((i, n))
        try:
            setattr(o, n, v)
            ok = True
        except TraitError:
            ok = False
        except Exception as e:
            return viol("assignment-raised:" + type(e).__name__, i, n, "assignment let %r escape" % (e,))
        ctx.ev()
        snap = list(LOG)
        after = v if is_event else getattr(o, n)
        if len(LOG) != len(snap):
            return viol("read-notified", i, n, "reading the value after an assignment called handlers")
        if not ok:
            ctx.count("churn_assignments_rejected")
            if snap:
                return viol("rejected-notified", i, n, "a rejected assignment called %r" % [e[0]["id"] for e in snap])
            if not is_event and after is not before:
                return viol("rejected-changed-value", i, n, "value changed by a rejected assignment")
            if legacy_errs or obs_errs:
                return viol("rejected-exception-channel", i, n, "rejected assignment put something on an exception channel")
            continue
        exp = B.expected_change(is_event, d["mode"], before, after)
        want = {r["id"]: r for r in live_for(i, n)}
        if n in static_regs:
            want[static_regs[n]["id"]] = static_regs[n]
        if any_reg is not None:
            want[any_reg["id"]] = any_reg
        tl, ol = pop_class(i, n)
        ctx.count("churn_assignments_" + ("notifying" if exp else "silent"))
        if exp:
            ctx.count("churn_changes_with_trait-level=%s,object-level=%s" % (tl, ol))
            if is_event and tl == "left" and ol == "live":
                ctx.count("churn_event_firings_with_trait-level=left,object-level=live")
        ctx.sig("churn", d["kind"], d["mode"].name, tl, ol,
                B.relation(before, after) if not is_event else "event", exp)
        counts, by_id = {}, {}
        for (r, eobj, eo, enew, told) in snap:
            if eobj is not M and eobj is not o:
                return viol("%s-called-on-other-object" % r["mech"], i, n,
                            "assignment to o%d.%s called %s with another object" % (i, n, r["id"]))
            if told is not M and told != n:
                return viol("%s-told-other-name" % r["mech"], i, n,
                            "assignment to o%d.%s: %s was told name %r" % (i, n, r["id"], told))
            counts[r["id"]] = counts.get(r["id"], 0) + 1
            by_id[r["id"]] = r
        for rid in sorted(set(counts) - set(want)):
            r = by_id[rid]
            if r["i"] == i and ((rid, i, n) in was_live or (rid, i, "*") in was_live):
                return viol("%s-called-after-removal" % r["mech"], i, n,
                            "assignment to o%d.%s called %s, which had been removed" % (i, n, rid))
            return viol("%s-called-but-not-registered" % r["mech"], i, n,
                        "assignment to o%d.%s called %s (object o%s, names %r)"
                        % (i, n, rid, r["i"], sorted(r["names"])))
        for r in regs:
            if r["id"] not in want and r["i"] == i and ((r["id"], i, n) in was_live or (r["id"], i, "*") in was_live):
                ctx.count("churn_removed_handlers_seen_silent")
        for rid in sorted(want):
            c = counts.get(rid, 0)
            ctx.count("churn_handler_obligations_checked")
            if c != int(exp):
                return viol("%s-called-%s-expected-%d" % (want[rid]["mech"], _bucket(c), int(exp)), i, n,
                            "o%d.%s: %s called %d times; before=%s after=%s relation=%s"
                            % (i, n, rid, c, short(before, 40), short(after, 40), B.relation(before, after)))
        for (r, eobj, eo, enew, told) in snap:
            if enew is not M:
                ctx.count("churn_oldnew_checked")
                if enew is not after:
                    return viol("%s-new-not-readable-value" % r["mech"], i, n,
                                "new=%s readable=%s" % (short(enew), short(after)))
            if eo is not M:
                if is_event:
                    if eo is not Undefined:
                        return viol("%s-event-old-not-Undefined" % r["mech"], i, n, "old=%s" % short(eo))
                elif eo is not before:
                    return viol("%s-old-not-previous-value" % r["mech"], i, n,
                                "old=%s previous=%s" % (short(eo), short(before)))
        raised = [r for (r, _o, _a, _b, _c) in snap if r["raises"]]
        if raised:
            chan = obs_errs if raised[0]["mech"] in ("obs", "nested") else legacy_errs
            if not chan:
                return viol("handler-exception-vanished", i, n,
                            "raising handler %s left nothing on its exception channel" % raised[0]["id"])
        elif legacy_errs or obs_errs:
            return viol("unexpected-exception-on-channel", i, n, short((legacy_errs or obs_errs)[0], 200))
        if not is_event and getattr(o, n) is not after:
            return viol("value-unstable-after-assignment", i, n, "")
    return False
