"""C10 stratum "wildcard": instance isolation where names are governed by WILDCARD declarations.

The statement quantifies over all histories of operations on one instance (registering handlers,
adding instance traits, mutating default containers) and forbids any effect on "the values, defaults,
handler calls or trait definitions observable on another instance of the same class or on the class
itself".  The main histories of c10.py only ever touch declared names; here the class family is
built around prefix declarations (`field_ = Int(0)`, `items_ = List(Int, [1, 2])`, `bag_ = Dict(..)`,
`obj_ = Instance(Foo, ())`, `made_ = Any(factory=..)`, a subclass that overrides a prefix and adds a
longer one, a class with the universal wildcard `_ = Int(7)`, a class without any declaration) and
every step works on names that are resolved through them: brand-new names (first resolution for the
class), names a sibling resolved before, names with a static `_name_changed` handler.

What is NOT judged (DESIGN 5.2 / C10-N): that the resolved trait is cached in the class dictionary
(`trait(name)` of a sibling may turn from None into a trait object; whether `trait_added` fires).

What is judged after every step on instance A:
  * every recorder entry logged during the step belongs to A (handlers of any kind registered on
    another instance stay silent; `observe("*")`, `match(..)`, `metadata(..)`/"+tag", nested
    `match(..).trait("z")` / `.list_items()`, named traits, legacy anytrait / named / "+tag" /
    "obj_x.z" registrations);
  * every other pool instance: stored values identical (and equal to its model), trait_names()
    unchanged, every trait object it already saw for a name unchanged with an unchanged number of
    notifiers, object-level notifier count unchanged;
  * the classes: the trait a PRISTINE instance (one that never registered or assigned anything)
    sees for every resolved name carries exactly as many notifiers as the same name of a CONTROL
    family (identical class bodies, same names resolved, no handler ever registered on any instance)
    -- "the notifier population of class-level traits does not grow";
  * a fresh instance of every class assigns new values to names resolved so far (and reads them):
    no recorder of any pool instance may fire, the defaults are the declared ones;
  * first reads of wildcard names obey the default laws of the statement: declared default of the
    governing prefix (the instance's own added trait wins), silent apart from `trait_added`, second
    read identical, factory / Instance(X, ()) ran at most once, a mutable default is neither the
    object stored in the class-level trait nor shared with any other (instance, name).

Mechanism keys: wild/<what>/<op>[/<mechanism>] -- structural only.
"""
import copy
import warnings

from traits.api import HasTraits, Any, Int, Str, List, Dict, Instance
from traits.observation.api import match as obs_match, trait as obs_trait, metadata as obs_metadata
from traits.observation.api import anytrait as obs_anytrait

from vf.util import short

ABSENT = ("<absent>",)
FOO_COUNT = [0]
MADE_COUNT = [0]


class WFoo(HasTraits):
    z = Int(4)

    def __init__(self, **kw):
        FOO_COUNT[0] += 1
        super().__init__(**kw)


def made_factory():
    MADE_COUNT[0] += 1
    return {"made": 1}


def norm(v):
    t = type(v)
    if t is int or t is str:
        return v
    if isinstance(v, WFoo):
        return ("Foo", v.__dict__.get("z", 4))
    if isinstance(v, list):
        return [norm(x) for x in v]
    if isinstance(v, dict):
        return {k: norm(x) for k, x in v.items()}
    return v


def brief(x):
    try:
        return short(norm(x), 60)
    except Exception:
        return short(x, 60)


def ncount(ct):
    if ct is None:
        return None
    try:
        return len(ct._notifiers(False) or ())
    except Exception:
        return None


def mutable_parts(v):
    if v is None or isinstance(v, (int, str)):
        return []
    out = [v]
    if isinstance(v, list):
        for x in v:
            out.extend(mutable_parts(x))
    elif isinstance(v, dict):
        for x in v.values():
            out.extend(mutable_parts(x))
    return out


class Hub:
    def reset(self):
        self.live = {}
        self.next_serial = 0
        self.log = []

    def new_serial(self):
        s = self.next_serial
        self.next_serial += 1
        return s

    def serial_of(self, obj):
        return self.live.get(id(obj), -1)

    def static(self, mech, obj, name, new):
        s = self.serial_of(obj)
        self.log.append((mech, s, s, name, brief(new)))

    def otc_handler(self, owner):
        def handler(obj, name, old, new):
            self.log.append(("otc", owner, self.serial_of(obj), name, brief(new)))
        return handler

    def obs_handler(self, owner):
        def handler(event):
            self.log.append(("observe", owner, self.serial_of(getattr(event, "object", None)),
                             getattr(event, "name", type(event).__name__),
                             brief(getattr(event, "new", getattr(event, "added", None)))))
        return handler


HUB = Hub()
HUB.reset()

# prefix -> (kind, type name of the default, plain default, counter, value type)
REC_SPEC = {
    "field_": ("constant-int", "int", 0, None, "int"),
    "items_": ("trait-list", "TraitListObject", [1, 2], None, "list"),
    "bag_":   ("trait-dict", "TraitDictObject", {"a": 1}, None, "dict"),
    "obj_":   ("instance-args", "WFoo", ("Foo", 4), "foo", "foo"),
    "made_":  ("factory", "dict", {"made": 1}, "made", "dict"),
}
SUB_SPEC = dict(REC_SPEC)
SUB_SPEC.update({
    "field_":   ("sub-body-int", "int", 5, None, "int"),
    "field_a_": ("sub-longer-prefix-str", "str", "q", None, "str"),
})
UNI_SPEC = {"": ("universal-int", "int", 7, None, "int")}
IMP_SPEC = {"": ("implicit-python", None, None, None, "int")}     # no default: reading raises
SPECS = {"Rec": REC_SPEC, "Sub": SUB_SPEC, "Uni": UNI_SPEC, "Imp": IMP_SPEC}
DECLARED = {"name": ("constant-int", "int", 0, None, "int"),
            "tags": ("trait-list-implicit", "TraitListObject", [], None, "list")}
STATIC_NAMES = ("field_s", "items_s")
FAMILIES = (("Rec",), ("Rec", "Sub"), ("Sub",), ("Rec", "Sub"), ("Uni",), ("Imp",), ("Rec", "Uni"))


def family(kind):
    if kind.endswith(("-int", "-str")):
        return "constant"
    if kind.startswith(("instance", "factory")):
        return "callable-and-args"
    if kind.startswith("implicit"):
        return "implicit"
    if kind.startswith("own"):
        return "instance-trait"
    return "container-object"


def build(static):
    hub = HUB
    with warnings.catch_warnings():
        warnings.simplefilter("ignore")

        class Rec(HasTraits):
            field_ = Int(0, tag=True)
            items_ = List(Int, [1, 2], tag=True)
            bag_ = Dict(Str, Int, {"a": 1})
            obj_ = Instance(WFoo, ())
            made_ = Any(factory=made_factory)
            name = Int(0, tag=True)
            tags = List(Int)

            if static:
                def _field_s_changed(self, new):
                    hub.static("static", self, "field_s", new)

                def _items_s_changed(self, new):
                    hub.static("static", self, "items_s", new)

                def _anytrait_changed(self, name, old, new):
                    hub.static("static-any", self, name, new)

        class Sub(Rec):
            field_ = Int(5, tag=True)
            field_a_ = Str("q")

        class Uni(HasTraits):
            _ = Int(7, tag=True)
            name = Int(0, tag=True)
            tags = List(Int)

            if static:
                def _field_s_changed(self, new):
                    hub.static("static", self, "field_s", new)

        class Imp(HasTraits):
            name = Int(0, tag=True)
            tags = List(Int)

    return {"Rec": Rec, "Sub": Sub, "Uni": Uni, "Imp": Imp}


def gen_value(rng, vtype):
    if vtype == "int":
        return rng.randrange(100, 1000)
    if vtype == "str":
        return rng.choice(["a", "abc", "xyz", "sub"]) + str(rng.randrange(50))
    if vtype == "list":
        return [rng.randrange(10) for _ in range(rng.randrange(1, 4))]
    if vtype == "dict":
        return {"k%d" % rng.randrange(4): rng.randrange(10) for _ in range(rng.randrange(1, 3))}
    if vtype == "foo":
        return WFoo(z=rng.randrange(100, 200))
    raise AssertionError(vtype)


def _starts(prefix):
    def pred(name, ctrait):
        return name.startswith(prefix) and not name.endswith("_items")
    return pred


class Violation(Exception):
    pass


class Rec_:
    __slots__ = ("serial", "obj", "cname", "model", "extras", "regs", "snap")


class WildHistory:
    def __init__(self, ctx, hid, rng, excs):
        self.ctx = ctx
        self.hid = hid
        self.rng = rng
        self.excs = excs          # callable: the list the installed exception handlers append to
        self.trace = []
        self.pool = []
        self.op = "setup"
        self.used = []            # wildcard names resolved by somebody of the family, in order
        self.nsuffix = 0

    def fail(self, key, msg, **extra):
        w = {"history": self.hid, "static": self.static, "classes": list(self.use),
             "trace": self.trace[-40:], "log": HUB.log[:8],
             "pool": [(r.serial, r.cname, sorted(r.extras), [x[1] for x in r.regs]) for r in self.pool]}
        w.update(extra)
        self.ctx.violation(key, "%s | after %s | trace tail %r" % (msg, self.op, self.trace[-4:]), w)
        raise Violation(key)

    # -- names ---------------------------------------------------------------------------
    def prefixes(self, cname):
        return [p for p in SPECS[cname] if p]

    def spec_for(self, r, n):
        """The specification governing name n on record r (own instance trait, declared name,
        longest matching prefix)."""
        if n in r.extras:
            return r.extras[n]
        if n in DECLARED:
            return DECLARED[n]
        spec = SPECS[r.cname]
        best = None
        for p in spec:
            if n.startswith(p) and (best is None or len(p) > len(best)):
                best = p
        if best is None:            # no declaration governs the name: a plain Python attribute
            return IMP_SPEC[""]
        return spec[best]

    def new_name(self, cname):
        rng = self.rng
        if self.static and rng.random() < 0.15:
            cands = [n for n in STATIC_NAMES if n not in self.used]
            if cands:
                return rng.choice(cands)
        self.nsuffix += 1
        pre = rng.choice(self.prefixes(cname) or ["loose_"])
        if cname in ("Uni", "Imp"):
            pre = rng.choice(["loose_", "field_", "items_"])
        return "%sn%d" % (pre, self.nsuffix)

    def note_used(self, n):
        if n not in self.used and n not in DECLARED:
            self.used.append(n)

    # -- instances -------------------------------------------------------------------------
    def new_rec(self, cname, attach):
        r = Rec_()
        r.serial = HUB.new_serial()
        r.obj = self.classes[cname]()
        HUB.live[id(r.obj)] = r.serial
        r.cname = cname
        r.model = {}
        r.extras = {}
        r.regs = []
        r.snap = None
        if attach:
            for _ in range(self.rng.randint(1, 3)):
                self.register(r)
        return r

    def reg_choices(self, r):
        """(mechanism, label, spelling) of every registration form; the spelling is built on demand."""
        rng = self.rng
        known = [n for n in self.used if n in r.obj.__dict__ or r.obj.trait(n) is not None]
        anyname = rng.choice(known) if known and rng.random() < 0.8 else self.new_name(r.cname)
        pre = rng.choice(self.prefixes(r.cname) or [""])
        out = [
            ("observe", "star", lambda: "*"),
            ("observe", "star", lambda: "*"),
            ("observe", "anytrait", lambda: obs_anytrait()),
            ("observe", "match-prefix", lambda: obs_match(_starts(pre))),
            ("observe", "match-prefix", lambda: obs_match(_starts(pre))),
            ("observe", "metadata-text", lambda: "+tag"),
            ("observe", "metadata", lambda: obs_metadata("tag")),
            ("observe", "named-wildcard", lambda: obs_trait(anyname)),
            ("observe", "named-declared", lambda: "name"),
            ("observe", "declared-items", lambda: "tags.items"),
            ("otc", "anytrait", lambda: None),
            ("otc", "anytrait", lambda: None),
            ("otc", "named-wildcard", lambda: anyname),
            ("otc", "metadata", lambda: "+tag"),
            ("otc", "named-declared", lambda: "name"),
        ]
        if "obj_" in SPECS[r.cname]:
            out.append(("observe", "match-then-trait", lambda: obs_match(_starts("obj_")).trait("z")))
            out.append(("observe", "match-then-list-items",
                        lambda: obs_match(_starts("items_")).list_items()))
        objs = [n for n in known if n.startswith("obj_") and "obj_" in SPECS[r.cname]
                and n not in r.extras]
        if objs:
            o1 = rng.choice(objs)
            out.append(("otc", "wildcard-then-trait", lambda: o1 + ".z"))
            out.append(("observe", "wildcard-then-trait", lambda: obs_trait(o1).trait("z")))
        return out

    def register(self, r):
        mech, label, spell = self.rng.choice(self.reg_choices(r))
        what = spell()
        try:
            if mech == "observe":
                h = HUB.obs_handler(r.serial)
                r.obj.observe(h, what)
            else:
                h = HUB.otc_handler(r.serial)
                if what is None:
                    r.obj.on_trait_change(h)
                else:
                    r.obj.on_trait_change(h, what)
        except Exception as e:
            self.ctx.count("wild_registration_exceptions")
            self.ctx.count("wild_registration_exceptions/%s/%s/%s" % (mech, label, type(e).__name__))
            return mech, label, type(e).__name__
        r.regs.append((mech, label, what, h))
        self.ctx.count("wild_registrations")
        self.ctx.count("wild_registrations/%s/%s" % (mech, label))
        if mech == "observe" and label in ("star", "anytrait", "match-prefix", "metadata", "metadata-text",
                                            "match-then-trait", "match-then-list-items"):
            self.ctx.count("wild_registrations_following_trait_added")
        return mech, label, None

    # -- snapshots ----------------------------------------------------------------------------
    def census_names(self, r=None):
        names = list(DECLARED) + self.used + ["trait_added", "trait_modified"]
        if r is not None:
            names += [n for n in r.extras if n not in names]
        return names

    def take_snap(self, r):
        o = r.obj
        d = o.__dict__
        vals = {n: v for n, v in d.items() if not n.startswith("_")}
        tr = {}
        for n in self.census_names(r):
            t = o.trait(n)
            tr[n] = (t, ncount(t))
        try:
            onot = len(o._notifiers(False) or ())
        except Exception:
            onot = None
        return (vals, sorted(o.trait_names()), tr, onot, (FOO_COUNT[0], MADE_COUNT[0]))

    def inspect_other(self, r):
        op = self.op
        o = r.obj
        vals, tn, tr, onot, _ = r.snap
        cur = {n: v for n, v in o.__dict__.items() if not n.startswith("_")}
        if set(cur) != set(vals):
            self.fail("wild/isolation/stored-names-changed/%s" % op,
                      "instance #%d: stored names changed by %r" % (r.serial, sorted(set(cur) ^ set(vals))),
                      sibling=r.serial)
        for n, v in cur.items():
            if v is not vals[n]:
                self.fail("wild/isolation/value-replaced/%s/%s" % (op, family(self.spec_for(r, n)[0])),
                          "instance #%d.%s: stored object replaced (%s -> %s)"
                          % (r.serial, n, brief(vals[n]), brief(v)), sibling=r.serial, name=n)
            if n in r.model and norm(v) != r.model[n]:
                self.fail("wild/isolation/value-changed/%s/%s" % (op, family(self.spec_for(r, n)[0])),
                          "instance #%d.%s is %s, expected %s" % (r.serial, n, brief(v), short(r.model[n], 60)),
                          sibling=r.serial, name=n)
        tn1 = sorted(o.trait_names())
        if tn1 != tn:
            self.fail("wild/isolation/trait-names-changed/%s" % op,
                      "instance #%d: trait_names() changed by %r" % (r.serial, sorted(set(tn1) ^ set(tn))),
                      sibling=r.serial)
        for n in self.census_names(r):
            t = o.trait(n)
            c = ncount(t)
            if n not in tr or tr[n][0] is None:
                tr[n] = (t, c)          # first sight (the class may have cached the resolved name: not judged)
                continue
            if t is not tr[n][0]:
                self.fail("wild/isolation/trait-object-changed/%s" % op,
                          "instance #%d: trait(%r) is another object" % (r.serial, n), sibling=r.serial, name=n)
            if c != tr[n][1]:
                self.fail("wild/isolation/notifier-count-changed/%s" % op,
                          "instance #%d: trait(%r) has %r notifiers, had %r" % (r.serial, n, c, tr[n][1]),
                          sibling=r.serial, name=n)
        try:
            onot1 = len(o._notifiers(False) or ())
        except Exception:
            onot1 = None
        if onot1 != onot:
            self.fail("wild/isolation/notifier-count-changed/%s" % op,
                      "instance #%d: object notifiers %r, had %r" % (r.serial, onot1, onot), sibling=r.serial)
        self.ctx.ev()
        self.ctx.count("wild_sibling_inspections")

    # -- reads -----------------------------------------------------------------------------------
    def checked_read(self, r, n, fresh=False):
        ctx = self.ctx
        o = r.obj
        kind, tname, plain, counter, _vt = self.spec_for(r, n)
        stored = o.__dict__.get(n, ABSENT)
        if tname is None and stored is ABSENT:
            # no declaration governs the name: reading is an AttributeError, nothing may be logged
            nlog = len(HUB.log)
            try:
                getattr(o, n)
            except AttributeError:
                ctx.count("wild_reads_without_default")
            except Exception as e:
                self.fail("wild/default-read/raised/%s/%s" % (kind, type(e).__name__),
                          "reading #%d.%s raised %r" % (r.serial, n, e), name=n)
            self.note_used(n)
            if [e for e in HUB.log[nlog:] if e[3] != "trait_added"]:
                self.fail("wild/default-read/not-silent/%s" % HUB.log[nlog][0],
                          "reading #%d.%s reached a handler: %r" % (r.serial, n, HUB.log[nlog:][:3]), name=n)
            return ABSENT
        f0, g0 = FOO_COUNT[0], MADE_COUNT[0]
        nlog = len(HUB.log)
        try:
            v = getattr(o, n)
        except Exception as e:
            self.fail("wild/default-read/raised/%s/%s" % (kind, type(e).__name__),
                      "reading #%d.%s raised %r" % (r.serial, n, e), name=n)
        self.note_used(n)
        noisy = [e for e in HUB.log[nlog:] if e[3] != "trait_added"]
        if noisy:
            self.fail("wild/default-read/not-silent/%s" % noisy[0][0],
                      "reading #%d.%s (%s) reached a handler: %r"
                      % (r.serial, n, "stored" if stored is not ABSENT else "default", noisy[0]), name=n)
        for e in HUB.log[nlog:]:
            if e[1] != r.serial:
                self.fail("wild/isolation/foreign-handler-fired/read/%s" % e[0],
                          "reading #%d.%s reached a recorder of #%d: %r" % (r.serial, n, e[1], e), name=n)
        if stored is not ABSENT:
            if v is not stored:
                self.fail("wild/later-read/not-identical/%s" % family(kind),
                          "#%d.%s: read returned %s, stored object is %s" % (r.serial, n, brief(v), brief(stored)),
                          name=n)
            if (FOO_COUNT[0], MADE_COUNT[0]) != (f0, g0):
                self.fail("wild/later-read/default-recomputed/%s" % family(kind),
                          "#%d.%s: factory ran on a later read" % (r.serial, n), name=n)
            if n not in r.model:
                # materialised by a bulk read of this instance (trait_get, copies): must be the default
                if type(v).__name__ != tname or norm(v) != plain:
                    self.fail("wild/default-read/wrong-default/%s" % kind,
                              "#%d.%s (%s): the materialised default is %s %s, declared default is %s %s"
                              % (r.serial, n, r.cname, type(v).__name__, brief(v), tname, short(plain, 60)),
                              name=n)
                r.model[n] = copy.deepcopy(plain)
            ctx.count("wild_later_reads")
            return v
        want = r.model.get(n, plain)
        if type(v).__name__ != tname or norm(v) != want:
            self.fail("wild/default-read/wrong-default/%s" % kind,
                      "#%d.%s (%s): first read returned %s %s, declared default is %s %s"
                      % (r.serial, n, r.cname, type(v).__name__, brief(v), tname, short(want, 60)), name=n)
        df, dg = FOO_COUNT[0] - f0, MADE_COUNT[0] - g0
        if df > (1 if counter == "foo" else 0) or dg > (1 if counter == "made" else 0):
            self.fail("wild/default-factory/ran-more-than-once/%s" % family(kind),
                      "#%d.%s: Foo() created %d times, factory ran %d times for one first read"
                      % (r.serial, n, df, dg), name=n)
        v2 = getattr(o, n)
        if v2 is not v or (FOO_COUNT[0] - f0, MADE_COUNT[0] - g0) != (df, dg):
            self.fail("wild/later-read/not-identical/%s" % family(kind),
                      "#%d.%s: second read returned another object / recomputed the default (%s then %s)"
                      % (r.serial, n, brief(v), brief(v2)), name=n)
        r.model[n] = copy.deepcopy(want)
        # sharing: the class-level trait's stored default, every other (instance, name)
        parts = mutable_parts(v)
        if parts:
            mine = set(map(id, parts))
            ct = self.classes[r.cname]().trait(n)
            if ct is not None and n not in r.extras:
                sd = ct.default_value()[1]
                sp = [sd]
                if not (isinstance(sd, tuple) and sd and callable(sd[0])):
                    sp += mutable_parts(sd)
                if any(id(q) in mine for q in sp):
                    self.fail("wild/shared-default/with-class-trait/%s" % family(kind),
                              "#%d.%s IS the object stored in the class-level trait" % (r.serial, n), name=n)
            for other in self.pool + ([r] if fresh else []):
                for m, ov in other.obj.__dict__.items():
                    if m.startswith("_") or (other is r and m == n):
                        continue
                    theirs = mutable_parts(ov)
                    ctx.count("wild_sharing_comparisons", len(theirs) * len(parts))
                    if any(id(q) in mine for q in theirs):
                        self.fail("wild/shared-default/between-names-or-instances/%s" % family(kind),
                                  "#%d.%s shares a mutable object with #%d.%s" % (r.serial, n, other.serial, m),
                                  name=n, sibling=other.serial)
        ctx.count("wild_first_reads")
        ctx.count("wild_first_reads/" + family(kind))
        if r.regs:
            ctx.count("wild_first_reads_with_handlers")
        return v

    # -- classes / fresh instances ------------------------------------------------------------------
    def class_census(self):
        """Pristine instance of each class against the control family."""
        ctx = self.ctx
        for cname in self.fam:
            p = self.classes[cname]()
            c = self.control[cname]()
            for n in self.census_names():
                t = p.trait(n)
                if t is None:
                    continue
                if c.trait(n) is None:
                    # resolve the same name in the control class (a read; dunder-free names resolve alike)
                    try:
                        getattr(c, n)
                    except AttributeError:
                        try:
                            setattr(c, n, 1)
                        except Exception:
                            pass
                    c = self.control[cname]()
                tc = c.trait(n)
                if tc is None:
                    continue
                if ncount(t) != ncount(tc):
                    self.fail("wild/class/notifier-census-changed/%s" % self.op,
                              "%s: the class-level trait of %r has %r notifiers; the same name of a class "
                              "on whose instances nobody ever registered a handler has %r"
                              % (cname, n, ncount(t), ncount(tc)), name=n)
                ctx.count("wild_census_comparisons")
            ctx.ev()
            ctx.count("wild_class_inspections")

    def fresh_probe(self):
        ctx = self.ctx
        rng = self.rng
        step_op = self.op
        for cname in self.fam:
            del HUB.log[:]
            r = Rec_()
            r.serial = HUB.new_serial()
            r.obj = self.classes[cname]()
            r.cname, r.model, r.extras, r.regs, r.snap = cname, {}, {}, [], None
            HUB.live[id(r.obj)] = r.serial
            try:
                self.op = "fresh-instance"
                names = list(self.used)
                rng.shuffle(names)
                names = names[:6] + ["name"]
                for n in names:
                    spec = self.spec_for(r, n)
                    if rng.random() < 0.5 and spec[1] is not None:
                        self.checked_read(r, n, fresh=True)
                    val = gen_value(rng, spec[4])
                    try:
                        setattr(r.obj, n, val)
                    except Exception as e:
                        self.fail("wild/op-raised/fresh-assign/%s/%s" % (family(spec[0]), type(e).__name__),
                                  "fresh %s().%s = %s raised %r" % (cname, n, brief(val), e), name=n)
                    for e in HUB.log:
                        if e[1] != r.serial:
                            self.fail("wild/isolation/foreign-handler-fired/fresh-assign/%s" % e[0],
                                      "assigning %s on a fresh %s() reached a recorder of #%d: %r"
                                      % (n, cname, e[1], e), name=n)
                    ctx.count("wild_fresh_assignments")
                ctx.ev()
                ctx.count("wild_fresh_instances")
            finally:
                HUB.live.pop(id(r.obj), None)
                self.op = step_op
        del HUB.log[:]

    def after_step(self, A):
        for e in HUB.log:
            if A is None or e[1] != A.serial:
                self.fail("wild/isolation/foreign-handler-fired/%s/%s" % (self.op, e[0]),
                          "a step on #%s reached a recorder of #%d: %r" % (A.serial if A else None, e[1], e))
            if e[0] != "observe" and e[2] not in (A.serial, -1):
                self.fail("wild/isolation/foreign-object-notified/%s/%s" % (self.op, e[0]),
                          "a step on #%d produced a notification about #%d: %r" % (A.serial, e[2], e))
        self.ctx.count("wild_handler_events_on_target", len(HUB.log))
        if self.excs():
            self.fail("wild/notification-exception/%s" % self.op,
                      "an exception was raised inside a notification: %r" % (self.excs()[0],))
        for r in self.pool:
            if r is not A:
                self.inspect_other(r)
        self.fresh_probe()
        self.class_census()
        step_op = self.op
        self.op = "fresh-instance"
        for r in self.pool:
            if r is not A:
                self.inspect_other(r)
        self.op = step_op
        for r in self.pool:
            r.snap = self.take_snap(r)

    # -- one step -------------------------------------------------------------------------------------
    OPS = (("use-new", 3.0), ("use-old", 4.0), ("mutate", 2.0), ("register", 3.0), ("unregister", 0.7),
           ("del", 1.0), ("add_trait", 0.8), ("new", 1.2), ("drop", 0.3), ("query", 1.0))

    def choose_op(self):
        tot = sum(w for _, w in self.OPS)
        x = self.rng.random() * tot
        for name, w in self.OPS:
            x -= w
            if x <= 0:
                return name
        return "use-old"

    def assign(self, A, n):
        spec = self.spec_for(A, n)
        val = gen_value(self.rng, spec[4])
        self.trace.append((self.op, A.serial, "set", n, norm(val)))
        try:
            setattr(A.obj, n, val)
        except Exception as e:
            self.fail("wild/op-raised/assign/%s/%s" % (family(spec[0]), type(e).__name__),
                      "#%d.%s = %s raised %r" % (A.serial, n, brief(val), e), name=n)
        self.note_used(n)
        A.model[n] = norm(val)
        self.ctx.count("wild_assignments")

    def step(self):
        ctx = self.ctx
        rng = self.rng
        op = self.choose_op()
        if op == "new" and len(self.pool) >= 5:
            op = "use-new"
        if op == "drop" and len(self.pool) <= 2:
            op = "use-old"
        if op == "use-old" and not self.used:
            op = "use-new"
        del HUB.log[:]
        del self.excs()[:]
        self.op = op
        detail = None
        if op == "new":
            r = self.new_rec(rng.choice(self.use), attach=rng.random() < 0.6)
            self.trace.append((op, r.serial, r.cname, [(x[0], x[1]) for x in r.regs]))
            self.pool.append(r)
            A = r
            sig = (op, r.cname, tuple(sorted(set((x[0], x[1]) for x in r.regs))))
        elif op == "drop":
            victim = rng.choice(self.pool)
            self.pool.remove(victim)
            HUB.live.pop(id(victim.obj), None)
            self.trace.append((op, victim.serial))
            victim.obj = None
            victim.snap = None
            A = None
            if HUB.log:
                self.fail("wild/isolation/foreign-handler-fired/drop/%s" % HUB.log[0][0],
                          "dropping an instance reached %r" % (HUB.log[0],))
            for r in self.pool:
                self.inspect_other(r)
            self.class_census()
            for r in self.pool:
                r.snap = self.take_snap(r)
            ctx.count("wild_steps")
            ctx.sig("wild", self.static, op)
            return
        else:
            A = rng.choice(self.pool)
            o = A.obj
            if op in ("use-new", "use-old"):
                if op == "use-new":
                    n = self.new_name(A.cname)
                    ctx.count("wild_first_resolutions")
                    if any(x[0] == "observe" for x in A.regs):
                        ctx.count("wild_first_resolutions_on_observed_instance")
                else:
                    n = rng.choice(self.used + ["name"])
                spec = self.spec_for(A, n)
                present = n in o.__dict__
                if rng.random() < 0.45 and not (spec[1] is None and not present):
                    self.trace.append((op, A.serial, "read", n))
                    self.checked_read(A, n)
                    detail = "read"
                    if rng.random() < 0.4:
                        self.assign(A, n)
                        detail = "read+set"
                else:
                    self.assign(A, n)
                    detail = "set"
                    if any(r is not A and r.regs for r in self.pool):
                        ctx.count("wild_assignments_beside_listening_sibling")
                sig = (op, spec[0], present, detail)
            elif op == "mutate":
                cands = [n for n in self.used + ["tags"] if self.spec_for(A, n)[4] in ("list", "dict", "foo")
                         and (n in o.__dict__ or self.spec_for(A, n)[1] is not None)]
                if not cands:
                    n = self.new_name(A.cname)
                    self.assign(A, n)
                    sig = (op, None)
                else:
                    n = rng.choice(cands)
                    spec = self.spec_for(A, n)
                    present = n in o.__dict__
                    v = self.checked_read(A, n)
                    k = rng.randrange(100, 200)
                    self.trace.append((op, A.serial, n, k))
                    try:
                        if isinstance(v, list):
                            v.append(k)
                            A.model[n] = A.model[n] + [k]
                        elif isinstance(v, dict):
                            v["m"] = k
                            A.model[n] = dict(A.model[n], m=k)
                        else:
                            v.z = k
                            A.model[n] = ("Foo", k)
                    except Exception as e:
                        self.fail("wild/op-raised/mutate/%s/%s" % (family(spec[0]), type(e).__name__),
                                  "mutating #%d.%s raised %r" % (A.serial, n, e), name=n)
                    ctx.count("wild_own_mutations")
                    sig = (op, spec[0], present)
            elif op == "register":
                res = self.register(A)
                self.trace.append((op, A.serial) + res)
                sig = (op,) + res
            elif op == "unregister":
                if not A.regs:
                    self.trace.append((op, A.serial, None))
                    sig = (op, None)
                else:
                    reg = rng.choice(A.regs)
                    A.regs.remove(reg)
                    self.trace.append((op, A.serial, reg[0], reg[1]))
                    try:
                        if reg[0] == "observe":
                            o.observe(reg[3], reg[2], remove=True)
                        elif reg[2] is None:
                            o.on_trait_change(reg[3], remove=True)
                        else:
                            o.on_trait_change(reg[3], reg[2], remove=True)
                    except Exception as e:
                        detail = type(e).__name__
                        ctx.count("wild_registration_exceptions")
                    sig = (op, reg[0], reg[1], detail)
            elif op == "del":
                cands = [n for n in o.__dict__ if not n.startswith("_") and n in self.used
                         and self.spec_for(A, n)[1] is not None]
                if not cands:
                    self.trace.append((op, A.serial, None))
                    sig = (op, None)
                else:
                    n = rng.choice(sorted(cands))
                    spec = self.spec_for(A, n)
                    self.trace.append((op, A.serial, n))
                    try:
                        delattr(o, n)
                    except Exception as e:
                        self.fail("wild/op-raised/del/%s/%s" % (family(spec[0]), type(e).__name__),
                                  "del #%d.%s raised %r" % (A.serial, n, e), name=n)
                    A.model.pop(n, None)
                    if rng.random() < 0.7:
                        self.checked_read(A, n)
                    ctx.count("wild_del_ops")
                    sig = (op, spec[0])
            elif op == "add_trait":
                # an instance trait under a name the class would resolve through a prefix
                self.nsuffix += 1
                # (not under the prefixes whose values the nested observers descend into)
                pre = rng.choice([p for p in self.prefixes(A.cname) if p not in ("obj_", "items_")]
                                 or ["loose_"])
                n = "%sq%d" % (pre, self.nsuffix)
                k = rng.randrange(5)
                self.trace.append((op, A.serial, n, k))
                try:
                    o.add_trait(n, Str("own%d" % k))
                except Exception as e:
                    self.fail("wild/op-raised/add_trait/%s" % type(e).__name__,
                              "#%d.add_trait(%r) raised %r" % (A.serial, n, e), name=n)
                A.extras[n] = ("own-str", "str", "own%d" % k, None, "str")
                self.note_used(n)
                ctx.count("wild_add_trait_ops")
                sig = (op, pre)
            elif op == "query":
                q = rng.choice(("trait_names", "traits", "trait_get", "trait", "clone_traits", "deepcopy",
                                "getstate"))
                self.trace.append((op, A.serial, q))
                try:
                    if q == "trait_names":
                        o.trait_names()
                    elif q == "traits":
                        o.traits()
                    elif q == "trait_get":
                        o.trait_get()
                    elif q == "trait":
                        for n in self.used[:8]:
                            o.trait(n)
                    elif q == "clone_traits":
                        o.clone_traits()
                    elif q == "deepcopy":
                        copy.deepcopy(o)
                    else:
                        o.__getstate__()
                except Exception as e:
                    self.fail("wild/op-raised/query/%s/%s" % (q, type(e).__name__),
                              "%s on #%d raised %r" % (q, A.serial, e))
                # a copy notifies about itself (an unbound object): only recorders of A may see it
                HUB.log[:] = [e for e in HUB.log if not (e[0].startswith("static") and e[1] == -1)]
                ctx.count("wild_query_ops")
                sig = (op, q)
            else:
                raise AssertionError(op)
        regm = tuple(sorted(set((x[0], x[1]) for x in A.regs)))
        mechs = tuple(sorted(set(e[0] for e in HUB.log)))
        ctx.count("wild_steps")
        ctx.sig("wild", self.static, A.cname, regm, mechs, *sig)
        self.after_step(A)

    def run(self, nsteps):
        rng = self.rng
        HUB.reset()
        self.static = rng.random() < 0.5
        self.classes = build(self.static)
        self.control = build(self.static)
        self.use = rng.choice(FAMILIES)
        self.fam = self.use
        for _ in range(2):
            self.pool.append(self.new_rec(rng.choice(self.use), attach=rng.random() < 0.5))
        self.trace.append(("setup", [(r.serial, r.cname, [(x[0], x[1]) for x in r.regs]) for r in self.pool]))
        for r in self.pool:
            r.snap = self.take_snap(r)
        for _ in range(nsteps):
            self.step()
        # final sweep: every instance reads and re-assigns every resolved name
        for A in list(self.pool):
            self.op = "final-sweep"
            del HUB.log[:]
            self.trace.append(("final-sweep", A.serial))
            for n in list(self.used):
                spec = self.spec_for(A, n)
                if spec[1] is not None or n in A.obj.__dict__:
                    self.checked_read(A, n)
                self.assign(A, n)
            self.after_step(A)


def run(ctx, excs):
    """excs: callable returning the list the exception handlers installed by c10.run append to."""
    nh = ctx.scale(3200, 48000)
    for h in range(nh):
        if not ctx.mine(h):
            continue
        if not ctx.begin("wild:%d" % h):
            continue
        try:
            rng = ctx.rng("wild", h)
            nsteps = 12 if ctx.quick else rng.choice((12, 16, 20))
            H = WildHistory(ctx, h, rng, excs)
            del excs()[:]
            try:
                H.run(nsteps)
            except Violation:
                pass
            except Exception as e:
                import traceback
                tb = traceback.extract_tb(e.__traceback__)
                inner = tb[-1]
                try:
                    H.fail("wild/unexpected-exception/%s/%s" % (H.op, type(e).__name__),
                           "%r escaped at %s:%s" % (e, inner.filename.split("/")[-1], inner.name),
                           traceback=traceback.format_exc()[-1500:])
                except Violation:
                    pass
            if h // ctx.nshards < 1:
                ctx.sample({"stratum": "wildcard", "classes": list(H.use), "history": H.trace[:8]})
            for r in H.pool:
                r.obj = None
            H.pool = []
        finally:
            ctx.end()
