"""C14 sub-check A, family `modes`: the COPY-MODE MATRIX judged by object identity.

Which kind of copy clone_traits / copy_traits make of one trait value is decided by two
inputs: the `copy` metadata of the trait ('ref', 'shallow', 'deep' or none) and the mode
requested by the caller (None, 'shallow', 'deep').  The documented precedence: the
per-trait metadata wins; only a trait without metadata follows the requested mode (None
meaning 'copy reference').  What the three kinds mean is visible in object identities
only, and only when one looks TWO levels down:

    ref      the value of the copy IS the value of the original;
    shallow  the value is a new object, everything directly below it is shared;
    deep     the value is a new object and so is everything below it.

A shallow and a deep copy both give a new, equal value: every `==` comparison and every
"shares no container at the top" check is blind to a copy made with the wrong kind.  This
family therefore walks original and copy in parallel and compares identities level by level:

* the full matrix per-trait metadata (default / ref / shallow / deep) x requested mode (None /
  shallow / deep) x trait kind (Any, Instance, List(Any), List(Instance), Dict(Str, Any),
  Dict(Str, Instance), Set(Instance), and the traits copy_traits defers to a second pass:
  Property with a setter, PrototypedFrom) x value class (plain list / dict / set, plain object
  graph, HasTraits graph, trait-owned containers of lists / objects);
* the APIs clone_traits(copy=m) (also traits='all', a subset of names, a caller's memo) and
  target.copy_traits(other, copy=m) (fresh and already populated target, subset, memo);
* directly (the traits of the cloned object) and NESTED: the same matrix on objects that hang
  below a clone (an Instance, List(Instance), Dict value, Any(copy='deep') container, plain
  object, another matrix) -- a nested object's traits WITH metadata are judged by their
  metadata at every depth, those without are demanded deep where the requested mode is
  'deep' (the statement: nothing shared) and left unjudged otherwise;
* states after random histories (reassignment, container mutators, graph edits, one object
  reachable from several traits, back references to the root) and second-generation copies.

Trait-owned containers (the TraitList / TraitDict / TraitSet of a List / Dict / Set trait) are
re-created for their new owner at assignment whatever the policy: under 'ref' their own
identity is not judged, their items' is.

Mechanism key: modes/<api>/<direct|nested>/<trait kind>[:<value class>]/meta=<metadata>/req=<mode>/
L<level>-<observed>-expected-<expected>.
"""
import copy as copy_mod

from traits.api import (
    HasTraits, TraitError, Any, Int, Str, List, Dict, Set, Instance, Property, PrototypedFrom,
)

from vf.util import short

METAS = (("n", None), ("r", "ref"), ("s", "shallow"), ("d", "deep"))
REQS = (None, "shallow", "deep")
POLICIES = ("ref", "shallow", "deep")
SLOT_KINDS = ("any", "inst", "list", "listi", "dict", "dicti", "set", "prop", "proto")
OWNED_KINDS = ("list", "listi", "dict", "dicti", "set")      # value re-created for the owner at assignment


class QTok:
    """A plain object: copy.copy gives a new QTok sharing trail / kid, deepcopy copies them."""

    def __init__(self, name, kid=None):
        self.name = name
        self.trail = [name]
        self.kid = kid

    def __repr__(self):
        return "QTok(%s)" % self.name


class QLeaf(HasTraits):
    tag = Str
    xs = Any
    n = Int


class QBranch(HasTraits):
    tag = Str
    leaf = Instance(QLeaf)
    bag = Any
    weight = Int
    keep = Any(copy="shallow")
    link = Any(copy="ref")
    own = Any(copy="deep")


class QProto(HasTraits):
    tag = Str
    pay_n = Any
    pay_r = Any(copy="ref")
    pay_s = Any(copy="shallow")
    pay_d = Any(copy="deep")


def _prop_pair(name):
    def getter(self):
        return vars(self).get("_pstore_" + name)

    def setter(self, value):
        vars(self)["_pstore_" + name] = value
    return getter, setter


def _matrix_namespace():
    ns = {"__module__": __name__, "tag": Str(), "proto": Instance(QProto),
          "sub": Instance(HasTraits), "subs": List(Instance(HasTraits)),
          "reg": Dict(Str, Any, copy="deep")}
    kinds = {("QMatrix", "proto"): "inst", ("QMatrix", "sub"): "inst", ("QMatrix", "subs"): "listi",
             ("QMatrix", "reg"): "dict"}
    for kind in SLOT_KINDS:
        for suffix, meta in METAS:
            md = {} if meta is None else {"copy": meta}
            nm = "%s_%s" % (kind, suffix)
            if kind == "any":
                t = Any(**md)
            elif kind == "inst":
                t = Instance(QBranch, **md)
            elif kind == "list":
                t = List(Any, **md)
            elif kind == "listi":
                t = List(Instance(QLeaf), **md)
            elif kind == "dict":
                t = Dict(Str, Any, **md)
            elif kind == "dicti":
                t = Dict(Str, Instance(QLeaf), **md)
            elif kind == "set":
                t = Set(Instance(QLeaf), **md)
            elif kind == "prop":
                t = Property(**md)
                g, s = _prop_pair(nm)
                ns["_get_" + nm], ns["_set_" + nm] = g, s
            else:
                t = PrototypedFrom("proto", "pay_" + suffix)
            ns[nm] = t
            kinds[("QMatrix", nm)] = kind
    return ns, kinds


_NS, KIND = _matrix_namespace()
QMatrix = type(HasTraits)("QMatrix", (HasTraits,), _NS)
MATRIX_SLOTS = tuple("%s_%s" % (k, s) for k in SLOT_KINDS for s, _m in METAS)
MATRIX_NAMES = ("tag", "proto", "sub", "subs", "reg") + MATRIX_SLOTS


class QHolder(HasTraits):
    """Nothing but placements below which a matrix object can hang."""
    tag = Str
    child = Instance(QMatrix)
    kids = List(Instance(QMatrix))
    reg = Dict(Str, Instance(QMatrix), copy="deep")
    bag = Any(copy="deep")
    tok = Any(copy="deep")
    peer = Instance(QMatrix, copy="ref")


NAMES = {
    QLeaf: ("tag", "xs", "n"),
    QBranch: ("tag", "leaf", "bag", "weight", "keep", "link", "own"),
    QProto: ("tag", "pay_n", "pay_r", "pay_s", "pay_d"),
    QMatrix: MATRIX_NAMES,
    QHolder: ("tag", "child", "kids", "reg", "bag", "tok", "peer"),
}
KIND.update({
    ("QLeaf", "xs"): "any", ("QBranch", "leaf"): "inst", ("QBranch", "bag"): "any", ("QBranch", "keep"): "any",
    ("QBranch", "link"): "any", ("QBranch", "own"): "any",
    ("QProto", "pay_n"): "any", ("QProto", "pay_r"): "any", ("QProto", "pay_s"): "any", ("QProto", "pay_d"): "any",
    ("QHolder", "child"): "inst", ("QHolder", "kids"): "listi", ("QHolder", "reg"): "dicti",
    ("QHolder", "bag"): "any", ("QHolder", "tok"): "any", ("QHolder", "peer"): "inst",
})


def is_mut(x):
    return isinstance(x, (list, dict, set, QTok, HasTraits))


def _label(x):
    if isinstance(x, HasTraits):
        return ("node", type(x).__name__, x.tag)
    if isinstance(x, QTok):
        return ("tok", x.name)
    return ("v", repr(x))


def children(x):
    """[(key, child)] of a mutable object, keys pairing original and copy."""
    if isinstance(x, HasTraits):
        return [(nm, getattr(x, nm)) for nm in NAMES.get(type(x), ())]
    if isinstance(x, QTok):
        return sorted(vars(x).items())
    if isinstance(x, dict):
        return sorted(x.items(), key=lambda kv: repr(kv[0]))
    if isinstance(x, list):
        return list(enumerate(x))
    if isinstance(x, set):
        return sorted(((_label(e), e) for e in x), key=lambda kv: repr(kv[0]))
    return []


def discriminating(x):
    """Can one tell a shallow from a deep copy of x by identities?"""
    return is_mut(x) and any(is_mut(ch) for _k, ch in children(x))


def vclass(x):
    """Structural value class: trait-owned and standalone containers by their builtin base."""
    for base in (list, dict, set):
        if isinstance(x, base):
            return base.__name__
    return type(x).__name__


# --------------------------------------------------------------------------- the judge
class Judge:
    """Parallel walk of an original and its copy."""

    def __init__(self, api, req, travels, count=None):
        self.api, self.req, self.travels = api, req, travels
        self.bad = []            # (key tail, message)
        self.seen = set()
        self.count = count or (lambda *a: None)
        self.evals = 0

    def rep(self, sc, level, what, o, c):
        placement, kind, vcl, meta = sc
        tail = "%s/%s/meta=%s/req=%s/L%s-%s" % (placement, kind if vcl == "-" else "%s:%s" % (kind, vcl), meta,
                                                 self.req, level if level < 3 else "3+", what)
        self.bad.append((tail, "%s trait (value class %s, copy metadata %r) under requested mode %r, %s: level %d: "
                               "%s (original %s, copy %s)" % (kind, vcl, meta, self.req, placement, level, what,
                                                              short(o, 60), short(c, 60))))

    def pairs(self, o, c, sc, level):
        oc, cc = children(o), children(c)
        if [k for k, _v in oc] != [k for k, _v in cc]:
            self.rep(sc, level, "value-differs", o, c)
            return []
        return [(k, a, b) for (k, a), (_k, b) in zip(oc, cc)]

    def relate(self, o, c, policy, sc, level, owned=False):
        self.evals += 1
        if not is_mut(o):
            if is_mut(c) or type(c) is not type(o) or c != o:
                self.rep(sc, level, "value-differs", o, c)
            return
        if not is_mut(c) or not isinstance(c, type(o)) and not isinstance(o, type(c)):
            self.rep(sc, level, "value-differs", o, c)
            return
        if policy == "ref":
            if c is o:
                self.count("modes_shared_confirmed")
                return
            if owned:
                for _k, a, b in self.pairs(o, c, sc, level):
                    if is_mut(a):
                        if b is a:
                            self.count("modes_shared_confirmed")
                        else:
                            self.rep(sc, level + 1, "copied-expected-shared", a, b)
                    elif b != a:
                        self.rep(sc, level + 1, "value-differs", a, b)
                return
            self.rep(sc, level, "copied-expected-shared", o, c)
            return
        if c is o:
            self.rep(sc, level, "shared-expected-copied", o, c)
            return
        self.count("modes_copied_confirmed")
        if policy == "shallow":
            for k, a, b in self.pairs(o, c, sc, level):
                if not is_mut(a):
                    if is_mut(b) or b != a:
                        self.rep(sc, level + 1, "value-differs", a, b)
                elif b is a:
                    self.count("modes_l2_shared_confirmed")
                elif isinstance(o, HasTraits) and KIND.get((type(o).__name__, k)) in OWNED_KINDS:
                    # a trait-owned container of the shallow-copied object: re-created, items shared
                    self.relate(a, b, "ref", sc, level + 1, owned=True)
                else:
                    self.rep(sc, level + 1, "copied-expected-shared", a, b)
            return
        # deep
        if (id(o), id(c)) in self.seen:
            return
        self.seen.add((id(o), id(c)))
        if isinstance(o, HasTraits):
            self.node(o, c, "nested")
            return
        for _k, a, b in self.pairs(o, c, sc, level):
            if is_mut(a) and b is not a:
                self.count("modes_l2_copied_confirmed")
            self.relate(a, b, "deep", sc, level + 1)

    def node(self, o, c, placement, names=None):
        """The traits of one HasTraits object against its copy."""
        self.seen.add((id(o), id(c)))
        cname = type(o).__name__
        for nm in (names if names is not None else NAMES.get(type(o), ())):
            a, b = getattr(o, nm), getattr(c, nm)
            kind = KIND.get((cname, nm))
            if kind is None:                      # scalars
                self.evals += 1
                if b != a:
                    self.bad.append(("%s/scalar/value-differs" % placement,
                                     "%s.%s: %r in the original, %r in the copy" % (cname, nm, a, b)))
                continue
            meta = o.base_trait(nm).copy
            if meta in POLICIES:
                policy = meta
            elif placement == "direct":
                policy = self.req or "ref"
            elif self.req == "deep" and self.travels:
                policy = "deep"
            else:
                self.count("modes_nested_slots_unjudged")
                continue
            sc = (placement, kind, vclass(a) if kind in ("any", "prop", "proto") else "-", meta)
            if discriminating(a):
                self.count("modes_cell_%s_%s" % (meta, self.req))
                self.count("modes_slots_judged_%s" % placement)
                if kind in ("prop", "proto"):
                    self.count("modes_deferred_slots_judged")
                if policy == "shallow" and self.req == "deep":
                    self.count("modes_shallow_under_deep_judged")
            self.count("modes_slots_judged")
            self.relate(a, b, policy, sc, 1, owned=kind in OWNED_KINDS)


# --------------------------------------------------------------------------- states
class Builder:
    def __init__(self, rng):
        self.rng = rng
        self.k = 0
        self.pool = []          # leaves that may be reachable from several traits

    def tag(self, p):
        self.k += 1
        return "%s%d" % (p, self.k)

    def inner(self):
        return [self.rng.randint(0, 9) for _ in range(self.rng.randint(0, 3))]

    def leaf(self, alias=True):
        rng = self.rng
        if alias and self.pool and rng.random() < 0.15:
            return rng.choice(self.pool)
        lf = QLeaf(tag=self.tag("lf"), xs=self.inner() if rng.random() < 0.7 else None, n=rng.randint(0, 9))
        self.pool.append(lf)
        return lf

    def tok(self):
        return QTok(self.tag("tk"), kid=self.leaf() if self.rng.random() < 0.6 else None)

    def item(self):
        c = self.rng.randrange(7)
        if c < 2:
            return self.inner()
        if c < 4:
            return self.leaf()
        if c == 4:
            return self.tok()
        if c == 5:
            return {"k": self.inner()}
        return self.rng.choice([5, "s", None, 2.5, (1, 2)])

    def branch(self):
        rng = self.rng
        b = QBranch(tag=self.tag("br"), leaf=self.leaf(), weight=rng.randint(0, 9))
        if rng.random() < 0.8:
            b.bag = [self.inner(), self.leaf()] if rng.random() < 0.5 else self.inner()
        if rng.random() < 0.6:
            b.keep = [self.inner(), self.leaf()]
        if rng.random() < 0.4:
            b.link = self.leaf()
        if rng.random() < 0.4:
            b.own = {"a": self.inner(), "b": self.tok()}
        return b

    def any_value(self):
        c = self.rng.randrange(10)
        if c < 2:
            return [self.item() for _ in range(self.rng.randint(1, 3))] + [self.inner()]
        if c < 4:
            d = {"k%d" % i: self.item() for i in range(self.rng.randint(1, 3))}
            d["z"] = self.leaf()
            return d
        if c < 6:
            return self.branch()
        if c == 6:
            t = self.tok()
            t.trail.append(self.inner())
            return t
        if c == 7:
            return {self.leaf(alias=False) for _ in range(self.rng.randint(1, 3))}
        if c == 8:
            return [self.branch(), {"t": self.tok()}]
        return self.rng.choice([None, 7, "str", (1, 2), [], {}])

    def slot_value(self, kind):
        rng = self.rng
        if kind in ("any", "prop", "proto"):
            return self.any_value()
        if kind == "inst":
            return self.branch() if rng.random() < 0.9 else None
        if kind == "list":
            return [self.item() for _ in range(rng.randint(0, 4))]
        if kind == "listi":
            return [self.leaf() for _ in range(rng.randint(0, 3))]
        if kind == "dict":
            return {"k%d" % i: self.item() for i in range(rng.randint(0, 3))}
        if kind == "dicti":
            return {"k%d" % i: self.leaf() for i in range(rng.randint(0, 3))}
        return {self.leaf(alias=False) for _ in range(rng.randint(0, 3))}

    def matrix(self, depth=0):
        rng = self.rng
        m = QMatrix(tag=self.tag("mx"))
        m.proto = QProto(tag=self.tag("pr"))
        for nm in MATRIX_SLOTS:
            kind = KIND[("QMatrix", nm)]
            if kind == "proto" and rng.random() < 0.5:
                # the value lives on the prototype, no local override
                setattr(m.proto, "pay_" + nm[-1], self.any_value())
                continue
            setattr(m, nm, self.slot_value(kind))
        if depth == 0:
            if rng.random() < 0.5:
                m.sub = self.matrix(1) if rng.random() < 0.6 else self.branch()
            for _ in range(rng.randint(0, 2)):
                m.subs.append(self.matrix(1) if rng.random() < 0.5 else self.branch())
            if rng.random() < 0.4:
                m.reg["m"] = self.matrix(1)
            if rng.random() < 0.3:
                m.any_d = [self.matrix(1), self.inner()]
            if rng.random() < 0.3:
                m.dict_d["m"] = self.matrix(1)
        if rng.random() < 0.25:
            # back references to the object being cloned, below deep- and shallow-policy values
            m.reg["back"] = QTok(self.tag("tk"), kid=m)
            if isinstance(m.any_s, list):
                m.any_s.append(m)
        self.history(m)
        return m

    def history(self, m):
        """A few more steps on the populated object: mutators, reassignment, graph edits."""
        rng = self.rng
        for _ in range(rng.randint(0, 8)):
            nm = rng.choice(MATRIX_SLOTS)
            kind = KIND[("QMatrix", nm)]
            v = getattr(m, nm)
            c = rng.randrange(6)
            try:
                if c == 0:
                    setattr(m, nm, self.slot_value(kind))
                elif isinstance(v, list) and kind != "listi":
                    if c == 1:
                        v.append(self.item())
                    elif c == 2 and v:
                        v[rng.randrange(len(v))] = self.inner()
                    elif c == 3 and v:
                        del v[rng.randrange(len(v))]
                    else:
                        v.extend([self.leaf(), self.inner()])
                elif isinstance(v, list):
                    if c < 4:
                        v.append(self.leaf())
                    elif v:
                        v.pop()
                elif isinstance(v, dict):
                    if kind == "dicti":
                        v["h%d" % c] = self.leaf()
                    elif c < 4:
                        v["h%d" % c] = self.item()
                    else:
                        v.pop(next(iter(v)), None) if v else None
                elif isinstance(v, set):
                    v.add(self.leaf(alias=False))
                elif isinstance(v, QBranch):
                    if c < 3:
                        v.leaf = self.leaf()
                    elif c == 3:
                        v.keep = [self.inner(), self.tok()]
                    else:
                        v.bag = {"b": self.inner()}
                elif isinstance(v, QTok):
                    v.trail.append(self.inner())
            except TraitError:
                pass

    def holder(self):
        rng = self.rng
        h = QHolder(tag=self.tag("hd"))
        h.child = self.matrix(1)
        for _ in range(rng.randint(0, 2)):
            h.kids.append(self.matrix(1))
        if rng.random() < 0.5:
            h.reg["a"] = self.matrix(1)
        c = rng.randrange(4)
        if c == 0:
            h.bag = [self.matrix(1), self.inner()]
        elif c == 1:
            h.bag = {"m": self.matrix(1)}
        elif c == 2:
            h.bag = [[self.matrix(1)]]
        if rng.random() < 0.5:
            h.tok = QTok(self.tag("tk"), kid=self.matrix(1))
        if rng.random() < 0.5:
            h.peer = self.matrix(1)
        if rng.random() < 0.3:
            h.kids.append(h.child)              # one object along two deep paths
        return h


# --------------------------------------------------------------------------- the copies
def _subset(rng, names):
    return [nm for nm in names if rng.random() < 0.5] or list(names[:3])


def api_variants(rng, cls):
    """[(variant, api class, mode travels to nested objects, fn(O, req) -> (copy, judged names or None))]"""
    def clone(o, req):
        return o.clone_traits(copy=req), None

    def clone_memo(o, req):
        return o.clone_traits(memo={}, copy=req), None

    def clone_all(o, req):
        return o.clone_traits(traits="all", copy=req), None

    def clone_subset(o, req):
        names = _subset(rng, NAMES[cls])
        if "proto" in NAMES[cls] and "proto" not in names:
            names.append("proto")
        return o.clone_traits(traits=names, copy=req), names

    def copy_fresh(o, req):
        t = cls()
        t.copy_traits(o, copy=req)
        return t, None

    def copy_memo(o, req):
        t = cls()
        t.copy_traits(o, memo={}, copy=req)
        return t, None

    def copy_over(o, req):
        t = Builder(rng).matrix(1) if cls is QMatrix else Builder(rng).holder()
        t.copy_traits(o, copy=req)
        return t, None

    def copy_subset(o, req):
        names = _subset(rng, NAMES[cls])
        if "proto" in NAMES[cls] and "proto" not in names:
            names.append("proto")
        t = cls()
        t.copy_traits(o, traits=names, copy=req)
        return t, names
    return [("clone", "clone", True, clone), ("clone-memo", "clone", True, clone_memo),
            ("clone-all", "clone", True, clone_all), ("clone-subset", "clone", True, clone_subset),
            ("copy_traits", "copy_traits", False, copy_fresh), ("copy_traits-memo", "copy_traits", False, copy_memo),
            ("copy_traits-over", "copy_traits", False, copy_over),
            ("copy_traits-subset", "copy_traits", False, copy_subset)]


def check_modes_copy(ctx, variant, api, travels, fn, O, req, generation=1):
    """One copy of O judged against the matrix.  Returns the copy when it held."""
    ctx.count("modes_copies")
    try:
        C, names = fn(O, req)
    except Exception as e:  # noqa: BLE001
        ctx.violation("modes/%s/copy-raised/%s/req=%s" % (api, type(e).__name__, req),
                      "%s(copy=%r) of a %s raised %s: %s" % (variant, req, type(O).__name__, type(e).__name__,
                                                             short(e, 200)), {"variant": variant, "req": req})
        return None
    ctx.ev()
    if type(C) is not type(O) or C is O:
        ctx.violation("modes/%s/class-differs" % api, "%s(copy=%r) of a %s gave %s"
                      % (variant, req, type(O).__name__, "the object itself" if C is O else type(C).__name__),
                      {"variant": variant, "req": req})
        return None
    J = Judge(api, req, travels, ctx.count)
    J.node(O, C, "direct", names)
    ctx.ev(J.evals)
    ctx.sig("modes", api, variant, req, type(O).__name__, generation, bool(J.bad))
    if J.bad:
        seen = set()
        for tail, msg in J.bad:
            if tail in seen:
                continue
            seen.add(tail)
            ctx.violation("modes/%s/%s" % (api, tail),
                          "%s(copy=%r) of a %s: %s - the per-trait copy metadata wins over the requested mode; 'ref' "
                          "shares, 'shallow' copies one level and shares below, 'deep' copies all (%d discrepancies "
                          "in this copy)" % (variant, req, type(O).__name__, msg, len(J.bad)),
                          {"variant": variant, "req": req, "generation": generation,
                           "discrepancies": sorted(set(t for t, _m in J.bad))[:12]})
        return None
    ctx.count("modes_copies_ok")
    return C


# --------------------------------------------------------------------------- self-test of the judge
def calibrate():
    """The judge must accept a Python-level ref / shallow / deep copy of plain values under the
    matching policy and name the level under every other one (no library code involved)."""
    import random
    b = Builder(random.Random(7))
    values = [[b.inner(), QTok("t"), 5], {"a": b.inner(), "b": QTok("u", kid=QTok("v"))}, QTok("w", kid=QTok("x"))]
    made = {"ref": lambda v: v, "shallow": copy_mod.copy, "deep": copy_mod.deepcopy}
    expect = {("ref", "ref"): None, ("shallow", "shallow"): None, ("deep", "deep"): None,
              ("ref", "shallow"): "L1-shared-expected-copied", ("ref", "deep"): "L1-shared-expected-copied",
              ("shallow", "ref"): "L1-copied-expected-shared", ("deep", "ref"): "L1-copied-expected-shared",
              ("shallow", "deep"): "L2-shared-expected-copied", ("deep", "shallow"): "L2-copied-expected-shared"}
    for v in values:
        for (how, policy), want in expect.items():
            J = Judge("self", None, True)
            J.relate(v, made[how](v), policy, ("direct", "any", vclass(v), policy), 1)
            got = sorted(set(t.rsplit("/", 1)[1] for t, _m in J.bad))
            if got != ([want] if want else []):
                raise RuntimeError("C14 modes judge: a %s copy of %s under policy %s gave %r, expected %r"
                                   % (how, short(v, 60), policy, got, want))


def run_modes(ctx):
    calibrate()
    n = ctx.scale(64, 2400)
    per = 8
    for b in range(0, n, per):
        if not ctx.mine(b // per + 5):
            continue
        if not ctx.begin("modes:%d" % b):
            continue
        try:
            for i in range(b, min(n, b + per)):
                rng = ctx.rng("modes", i)
                nested = (i % 4 == 3)
                B = Builder(rng)
                O = B.holder() if nested else B.matrix()
                cls = type(O)
                ctx.count("modes_states")
                if nested:
                    ctx.count("modes_states_nested")
                variants = api_variants(ctx.rng("modes-api", i), cls)
                good = []
                for req in REQS:
                    # clone_traits and copy_traits always, two more option combinations drawn per mode
                    chosen = [variants[0], variants[4]] + rng.sample(variants[1:4] + variants[5:], 2)
                    for variant, api, travels, fn in chosen:
                        C = check_modes_copy(ctx, variant, api, travels, fn, O, req)
                        if C is not None and variant in ("clone", "clone-memo", "copy_traits"):
                            good.append(C)
                if good:
                    # second generation: a copy is itself a reachable state
                    O2 = rng.choice(good)
                    if isinstance(O2, QMatrix):
                        B.history(O2)
                    ctx.count("modes_second_generation_states")
                    for req in REQS:
                        variant, api, travels, fn = variants[0] if rng.random() < 0.5 else variants[4]
                        check_modes_copy(ctx, variant, api, travels, fn, O2, req, generation=2)
            if b == 0:
                ctx.sample({"sub": "modes", "slots": list(MATRIX_SLOTS), "requested": [str(r) for r in REQS],
                            "apis": [v[0] for v in api_variants(ctx.rng("x"), QMatrix)]})
        finally:
            ctx.end()
