"""C03 -- compiled fast validators decide exactly like the Python validators.

Differential oracle over (trait configuration) x (value lattice):

* diff      C path `ctrait.validate(obj,'x',v)` vs the handler's own Python
            method `handler.validate(obj,'x',v)`: same accept/reject decision,
            Python TraitError => C TraitError;
* result    both accept => results of the same exact type and `same` value;
* compound  Either / Trait(...) : the compound accepts iff some alternative of
            the built `TraitCompound.handlers` accepts when validated *alone*
            through a fresh CTrait carrying only that alternative's descriptor,
            and returns the result of the first accepting alternative in the
            documented evaluation order (fast members in declared order, then
            slow members).  This pits the stand-alone `validate_trait_*`
            functions against the second copy inside `validate_trait_complex`;
* tuple     Tuple accepts iff the value is a tuple of the declared length whose
            items are accepted by the member traits alone; items are the member
            results.

* value-held  (history) the same differential with the trait installed as an
            attribute that already holds a valid value, plus assignments judged
            against the compiled validator asked directly on the same state;
* enum-foreign-equal  enumerations whose items equal values of other types;
* forward-ref (history) members that name their class by a string: the first
            resolution of the name is made along a chosen route, then the same
            differential on every user of the definition (the resolving object,
            objects made before / after, instance-level clones, subclasses,
            pickled copies) -- see `_c03_forwardref.py`.

See DESIGN.md section 4 / C03.  The value lattice lives in `_c03_lattice.py`.
"""
import collections.abc
import copy
import decimal
import fractions
import numbers
import operator
import pickle
import types

from traits.api import (
    Any, Array, Bool, Bytes, Callable, CBool, CBytes, CComplex, CFloat, CInt, Complex, CStr, CTrait,
    AdaptsTo, Dict, Either, Enum, Float, Instance, Int, List, Map, Module, Range, Set, Str, Supports,
    This, Trait, TraitError, TraitInstance, Tuple, Type, Undefined, Union,
)
from traits.trait_handlers import TraitMap
from traits.adaptation.api import (
    AdaptationManager, get_global_adaptation_manager, reset_global_adaptation_manager,
    set_global_adaptation_manager,
)

from vf.util import same as _same, short
from vf.monitors import _c03_lattice as LAT
from vf.monitors import _c03_forwardref as FWD
from vf.monitors._c03_lattice import lattice, BOUNDS

def same(a, b):
    """vf.util.same, plus object-dtype arrays compared item by item (array_equal
    cannot treat NaNs inside an object array as equal)."""
    if type(a).__module__ == "numpy" and type(a) is type(b) and getattr(a, "dtype", None) == object \
            and hasattr(a, "flat") and getattr(b, "dtype", None) == object:
        try:
            if a.shape != b.shape:
                return False
            return all(x is y or (type(x) is type(y) and same(x, y)) for x, y in zip(a.flat, b.flat))
        except Exception:
            return False
    return _same(a, b)


META = {
    "level": "exploration",
    "rule": ("cases = (trait configuration, value): every configuration of a fixed catalogue of "
             "fast-validated trait types (scalar types, C* casts, float Range over a bound x "
             "exclusion grid, Enum, Map, Tuple, Instance in instance/type/adapt modes, This, "
             "Callable, Module, the legacy Trait() handlers), a fixed list of compounds and seeded "
             "random compounds (Either / Trait(...) of 2-4 members, Tuple-in-Either, Either-in-Tuple, "
             "nested Either, mixed fast/slow, and a stratum of nested compounds whose inner compound "
             "has List/Dict/Set/Array/int-Range/Union members without a C validator followed by outer "
             "fast members accepting the same values differently) x the whole value lattice (~370 values: ints, floats incl. "
             "NaNs/bounds, strings, subclasses, numpy scalars/arrays, hostile protocol objects, "
             "containers, classes, callables, str-mixin enum / StrEnum members, objects with their own "
             "__eq__, objects whose isinstance() verdict is individual: instances with / without the data "
             "member of a runtime-checkable Protocol, with / without the flag a metaclass __instancecheck__ "
             "reads, objects reporting another __class__) plus per-configuration derived tuples for Tuple "
             "shapes. Stratum enum-foreign-equal: enumerations whose items are equal to values of another "
             "exact type (str-subclass / numpy.str_ / str-mixin enum.Enum / StrEnum / IntEnum members, "
             "equality proxies, case-folding __eq__, numeric twins 1.0|Decimal|Fraction|complex|bool, "
             "tuple / bytes subclasses), stand-alone, in compounds, in Tuples and copied; the pairs where a "
             "value is accepted through an item that is neither it nor of its exact type are counted "
             "(enum_foreign-equal_*). Stratum value-held (history): every fast catalogue configuration and "
             "the fixed compounds installed as attribute 'x' of an object (class trait / add_trait), a valid "
             "value assigned (exact types that also have refused values first), then the sweep through "
             "CTrait.validate(obj, 'x', v) vs the Python method on that state, and a random walk of "
             "assignments obj.x = v judged against CTrait.validate on the same state (same decision, "
             "stored value of the same exact type and equal); value-held_same-type_* count the candidates "
             "that have exactly the type of the value held. Stratum forward-ref (history): specs whose "
             "Instance / Supports / Type / legacy TraitInstance members name their class by a string (bare, "
             "with module=, dotted, builtins, unresolvable; stand-alone, first / last / beside slow members "
             "in Either and Trait(...), two by-name members, nested Either, Union, Tuple member, Tuple in "
             "Either, List / Dict item) installed as class trait 'x'; the FIRST resolution of the name is "
             "made along one of 9 routes (assignment on a pristine object; on an object carrying an "
             "instance-level trait object made by on_trait_change / observe / add_trait of the same name / "
             "_trait(name, 2); CTrait.validate; a subclass instance; a subclass that redefines the default; "
             "an unpickled copy of the class trait) with a first value the named class accepts or one "
             "nothing accepts; then the C-vs-Python differential, the compound / tuple laws and assignments "
             "on the resolving object and on the other users of the definition: objects made before and "
             "after the resolution, with and without an instance-level trait object, subclass instances, an "
             "object carrying a copy pickled after the resolution (forward-ref_targets/*); "
             "forward-ref_pairs/<relation> splits the pairs by whether the swept trait object is the one the "
             "resolution ran through or a sibling sharing its handler, forward-ref_accepts_through_named_class "
             "counts accepted values of the named class. One oracle evaluation = one (configuration, value) pair judged by the C-vs-"
             "Python differential, or by the compound / tuple law against the alternatives validated "
             "alone. distinct_nontrivial counts distinct (sub-check, trait kind, value class, "
             "C outcome, reference outcome) signatures; a pair is non-trivial when at least one side "
             "accepts or raises something other than TraitError, or the value was rejected by a "
             "configuration that accepts some other value of the same class."),
    "phases": [{"name": "main", "flavour": "P", "shards": 16}],
    "gates": {
        "quick": {"evaluations": 45000, "fast_descriptor_specs": 120, "both_accept": 12000,
                  "both_reject": 30000, "compound_law_evaluations": 30000,
                  "compound_accept_via_nonfirst": 6000, "compound_accept_via_slow": 250,
                  "mixed_compound_specs": 12, "tuple_law_evaluations": 7000,
                  "tuple_law_accepts": 450, "alone_validations": 70000,
                  "py_nonTE_c_TE_allowed": 250, "converted_results": 8000,
                  "nested_slow_before_fast_specs": 14, "nested_slow_wins_over_later_fast": 120,
                  "manager-swapped_discriminating_accepts": 15, "manager-swapped_discriminating_rejects": 12,
                  "map-mutated_discriminating_accepts": 75, "map-mutated_discriminating_rejects": 50,
                  "copied_specs": 200, "copied_pairs": 40000, "copied_specs/pickle": 100,
                  "copied_specs/copy": 20, "copied_specs/deepcopy": 20, "copied_specs/clone": 20,
                  "copied_specs/add_trait": 40,
                  "enum_foreign-equal_pairs": 750, "enum_foreign-equal_accepts": 750,
                  "enum_foreign-equal_accepts/str": 40, "enum_foreign-equal_accepts/int": 14,
                  "enum_foreign-equal_accepts/float": 35,
                  "value-held_specs": 70, "value-held_specs/class": 35, "value-held_specs/instance": 35,
                  "value-held_histories": 130, "value-held_histories_of_split_type": 55,
                  "value-held_pairs": 14000, "value-held_same-type_accepts": 1000,
                  "value-held_same-type_rejects": 550, "value-held_same-type_rejects/Instance": 12,
                  "value-held_assignments": 3000, "value-held_assign_accepts": 1200,
                  "value-held_assign_rejects": 1600,
                  "forward-ref_histories": 45, "forward-ref_resolved-on/class-trait": 15,
                  "forward-ref_resolved-on/instance-clone": 20, "forward-ref_resolved-on/separate-copy": 6,
                  "forward-ref_resolved-on/subclass-clone": 2,
                  "forward-ref_descriptor_replaced_by_resolution": 20,
                  "forward-ref_targets": 350, "forward-ref_targets/same-trait-object": 130,
                  "forward-ref_targets/sibling-trait-object": 180,
                  "forward-ref_targets/pickled-after-resolution": 45,
                  "forward-ref_pairs": 40000, "forward-ref_pairs/sibling-trait-object": 20000,
                  "forward-ref_agree-accept": 4500,
                  "forward-ref_accepts_through_named_class": 750,
                  "forward-ref_accepts_through_named_class/sibling-trait-object": 300,
                  "forward-ref_assignments": 3200, "forward-ref_assign_accepts": 600},
        "thorough": {"evaluations": 1000000, "fast_descriptor_specs": 2500, "both_accept": 350000,
                     "both_reject": 650000, "compound_law_evaluations": 850000,
                     "compound_accept_via_nonfirst": 180000, "compound_accept_via_slow": 8000,
                     "mixed_compound_specs": 400, "tuple_law_evaluations": 180000,
                     "tuple_law_accepts": 33000, "alone_validations": 2200000,
                     "py_nonTE_c_TE_allowed": 6000, "converted_results": 250000,
                     "nested_slow_before_fast_specs": 250, "nested_slow_wins_over_later_fast": 2000,
                     "manager-swapped_discriminating_accepts": 15, "manager-swapped_discriminating_rejects": 12,
                     "map-mutated_discriminating_accepts": 75, "map-mutated_discriminating_rejects": 50,
                     "copied_specs": 600, "copied_pairs": 200000, "copied_specs/pickle": 300,
                     "copied_specs/copy": 50, "copied_specs/deepcopy": 50, "copied_specs/clone": 50,
                     "copied_specs/add_trait": 100,
                     "enum_foreign-equal_pairs": 3600, "enum_foreign-equal_accepts": 3600,
                     "enum_foreign-equal_accepts/str": 250, "enum_foreign-equal_accepts/int": 100,
                     "enum_foreign-equal_accepts/float": 230,
                     "value-held_specs": 100, "value-held_specs/class": 50, "value-held_specs/instance": 50,
                     "value-held_histories": 500, "value-held_histories_of_split_type": 280,
                     "value-held_pairs": 180000, "value-held_same-type_accepts": 5000,
                     "value-held_same-type_rejects": 2000, "value-held_same-type_rejects/Instance": 14,
                     "value-held_assignments": 37000, "value-held_assign_accepts": 12000,
                     "value-held_assign_rejects": 25000,
                     "forward-ref_histories": 400, "forward-ref_resolved-on/class-trait": 130,
                     "forward-ref_resolved-on/instance-clone": 180, "forward-ref_resolved-on/separate-copy": 60,
                     "forward-ref_resolved-on/subclass-clone": 25,
                     "forward-ref_descriptor_replaced_by_resolution": 200,
                     "forward-ref_targets": 3200, "forward-ref_targets/same-trait-object": 1100,
                     "forward-ref_targets/sibling-trait-object": 1600,
                     "forward-ref_targets/pickled-after-resolution": 400,
                     "forward-ref_pairs": 500000, "forward-ref_pairs/sibling-trait-object": 200000,
                     "forward-ref_agree-accept": 60000,
                     "forward-ref_accepts_through_named_class": 6000,
                     "forward-ref_accepts_through_named_class/sibling-trait-object": 2500,
                     "forward-ref_assignments": 120000, "forward-ref_assign_accepts": 15000},
    },
    "assumptions": [
        "the handler's Python `validate` method is the specification of the fast path (the "
        "statement's own oracle); Module has no Python method and is judged against "
        "isinstance(v, ModuleType)",
        "evaluation order of a compound is the documented one: members that carry a fast "
        "descriptor in declared order, then the remaining members",
        "a non-TraitError exception raised by an alternative may either propagate from the "
        "compound or count as a rejection (the statement is silent); both are accepted",
        "validators are pure: lattice values are stateless and are shared by both paths",
    ],
    "history_strata": "adapt-swap:* (adapting traits defined and used once, then the global "
                      "AdaptationManager is replaced via set_/reset_global_adaptation_manager or gets a "
                      "late registration, offers differing between the managers) and map-live:* (Map / "
                      "TraitMap defined over a dict that the harness then mutates: keys added, removed); "
                      "violations there carry the sub-check suffix @manager-swapped / @map-mutated; "
                      "copy:* (every catalogue configuration again on CTraits that went through pickle "
                      "protocols 0-5 / copy.copy / copy.deepcopy / CTrait.clone / add_trait of a pickled or "
                      "deep-copied trait; quick: 4 rotating modes and a class-representative value subset "
                      "per configuration, thorough: all 11 modes x whole lattice), suffix @copied:<how> "
                      "unless the original trait shows the same disagreement; held:* (the configuration is "
                      "an attribute of an object that holds a valid value of a chosen exact type; sweep and "
                      "assignments on that state), suffix @value-held unless the stateless pair shows the "
                      "same disagreement; assignments carry the sub-check assign@value-held; "
                      "fwd:* (class named by a string, first resolution along a route, sweep on every user of "
                      "the definition), keys forward-ref/<skeleton of the spec>/resolved-on-<class-trait|"
                      "instance-clone|subclass-clone|separate-copy>/<same|sibling>-trait-object[.pickled]/"
                      "<outcome> unless the same spec naming the class object shows the same disagreement "
                      "statelessly",
    "exhaustive_parts": "every catalogue configuration and every fixed compound is run against "
                        "every lattice value (no sampling inside a configuration)",
}


# --------------------------------------------------------------------------
# harness objects referred to by the specs
def even_half(object, name, value):
    """Function validator: even ints are accepted and halved."""
    if type(value) is int and value % 2 == 0:
        return value // 2
    raise TraitError("not an even int")


def picky(object, name, value):
    """Function validator raising a non-TraitError for some inputs."""
    if isinstance(value, str):
        return value.upper()
    if value is None:
        raise ValueError("picky")
    raise TraitError("no")


_SINGLETON_X = LAT.X()


def singleton_x():
    return _SINGLETON_X


CLASSES = {
    "X": LAT.X, "Y": LAT.Y, "Src": LAT.Src, "int": int, "float": float, "str": str,
    "tuple": tuple, "list": list, "dict": dict, "bool": bool, "complex": complex,
    "I": LAT.I, "T": LAT.T, "Sized": collections.abc.Sized, "Real": numbers.Real,
    "Holder": LAT.Holder, "object": object, "bytes": bytes,
    # classes whose isinstance() verdict is individual (not a function of type(value))
    "Labelled": LAT.Labelled, "Open": LAT.Open, "Z": LAT.Z,
}
PYTYPES = {"int": int, "float": float, "complex": complex, "str": str, "bool": bool,
           "bytes": bytes, "tuple": tuple, "list": list}
FUNCS = {"even_half": even_half, "picky": picky}
NAN = float("nan")
ENUMS = {
    "mixed": (1, "a", None, 2.0),
    "list": ([1, 2, 3],),
    "tuples": (((1,), (2,), (1, 2)),),
    "yesno": ("yes", "no"),
    "set": ({1, 2},),
    "default+list": (2, [1, 2, 3]),
    "default-outside": (0, [1, 2, 3]),
    "zero-one": (0, 1),
    "floats": ((0.5, NAN, float("inf")),),
    "single": ("a",),
    "bools": (True, False),
    "ab": ("a", "b"),
    # enumerations whose items are equal to values of another exact type
    "items:str-subclass": (LAT.S("yes"), LAT.S("a")),
    "items:np-str": (LAT.np.str_("a"), LAT.np.str_("12")),
    "items:str-mixin-members": (list(LAT.Word),),
    "items:str-mixin-class": (LAT.Word,),
    "items:strenum-default+list": (LAT.Level.NO, [LAT.Level.NO, LAT.Level.TWELVE]),
    "items:int-enum-members": (list(LAT.Num),),
    "items:eq-proxy": (LAT.HashEq("yes"), LAT.HashEq(1)),
    "items:own-eq": (LAT.Token("YES"), LAT.Token("nO"), LAT.Token("AB")),
    "items:numeric-twins": (1.0, complex(2, 0), decimal.Decimal(3), fractions.Fraction(7), LAT.I(10), True),
    "items:container-subclass": (LAT.T((1, 2)), LAT.B(b"a"), LAT.NT(1, "a")),
    "items:mixed-foreign": (1, "one", LAT.Word.YES, None, LAT.S("ab"), LAT.np.float64(0.5)),
}


def enum_items(args):
    """Items of a static enumeration built from these arguments (the documented
    signatures: Enum(collection), Enum(default, collection), Enum(*items))."""
    last = args[-1]
    if len(args) <= 2 and not isinstance(last, (str, bytes, bytearray)) \
            and isinstance(last, collections.abc.Iterable):
        return tuple(last)
    return tuple(args)
MAPS = {
    "yesno": {"yes": 1, "no": 0, 1: 2},
    "keys": {None: 0, (1, 2): 1, 0.5: 2, "a": 3},
    "one": {"a": 1},
}
SIMPLE = {
    "Int": Int, "Float": Float, "Complex": Complex, "Str": Str, "Bytes": Bytes, "Bool": Bool,
    "CInt": CInt, "CFloat": CFloat, "CComplex": CComplex, "CStr": CStr, "CBytes": CBytes,
    "CBool": CBool, "Module": Module, "Any": Any,
}
LIVE_DICTS = []
DEFAULTS = {"none": None, "0": 0, "0.0": 0.0, "''": "", "1": 1, "yes": "yes", "True": True,
            "b''": b"", "0j": 0j, "a": "a"}


def mk(spec):
    """Build the trait object (TraitType instance or CTrait) described by spec."""
    k = spec[0]
    if k in SIMPLE:
        return SIMPLE[k]()
    if k == "Range":
        _, lo, hi, xl, xh = spec
        return Range(low=lo, high=hi, exclude_low=xl, exclude_high=xh)
    if k == "Enum":
        return Enum(*ENUMS[spec[1]])
    if k == "Map":
        return Map(dict(MAPS[spec[1]]))
    if k == "Tuple":
        return Tuple(*[mk(m) for m in spec[1:]])
    if k == "TupleDefault":
        return Tuple(spec[1])
    if k == "Instance":
        _, cname, allow_none, adapt = spec[:4]
        kw = {}
        if len(spec) > 4 and spec[4] == "factory":
            kw = {"factory": singleton_x, "args": ()}
        return Instance(CLASSES[cname], allow_none=allow_none, adapt=adapt, **kw)
    if k == "Supports":
        return Supports(CLASSES[spec[1]], allow_none=spec[2])
    if k == "AdaptsTo":
        return AdaptsTo(CLASSES[spec[1]], allow_none=spec[2])
    if k == "MapLive":
        # the mapping stays reachable by the harness, which mutates it after
        # the trait has been defined (registry pattern)
        d = dict(MAPS[spec[1]])
        LIVE_DICTS.append(d)
        return Map(d)
    if k == "TraitMapLive":
        d = dict(MAPS[spec[1]])
        LIVE_DICTS.append(d)
        return Trait(TraitMap(d))
    if k == "This":
        return This(allow_none=spec[1])
    if k == "Callable":
        return Callable(allow_none=spec[1]) if spec[1] is not None else Callable()
    if k == "Either":
        return Either(*[None if m == ("None",) else mk(m) for m in spec[1:]])
    if k == "Trait":
        args = [DEFAULTS[spec[1]]]
        for it in spec[2:]:
            t = it[0]
            if t == "py":
                args.append(PYTYPES[it[1]])
            elif t == "const":
                args.append(it[1])
            elif t == "map":
                args.append(dict(MAPS[it[1]]))
            elif t == "fn":
                args.append(FUNCS[it[1]])
            elif t == "cls":
                args.append(CLASSES[it[1]])
            else:
                args.append(mk(it))
        return Trait(*args)
    if k == "Trait1":        # single-argument legacy forms
        t = spec[1]
        if t[0] == "py":
            return Trait(PYTYPES[t[1]])
        if t[0] == "val":
            return Trait(DEFAULTS[t[1]])
        if t[0] == "fn":
            return Trait(None, FUNCS[t[1]])
        raise AssertionError(spec)
    if k == "List":
        return List(mk(spec[1]))
    if k == "Dict":
        return Dict(mk(spec[1]), mk(spec[2]))
    if k == "Set":
        return Set(mk(spec[1]))
    if k == "Array":
        return Array()
    if k == "Union":
        return Union(*[None if m == ("None",) else mk(m) for m in spec[1:]])
    if k in FWD.REF_KINDS:     # members naming their class by a string (stratum forward-ref)
        return FWD.mk_ref(spec)
    if k == "Type":
        return Type(None, CLASSES[spec[1]], allow_none=spec[2])
    if k == "TraitInstance":
        return TraitInstance(CLASSES[spec[1]], allow_none=spec[2])
    if k == "TraitOf":         # a bare legacy handler turned into a trait
        return Trait(mk(spec[1]))
    raise AssertionError(spec)


def spec_mentions(spec, names):
    if isinstance(spec, tuple):
        if spec and spec[0] in names:
            return True
        return any(spec_mentions(s, names) for s in spec)
    return False


def spec_has_bytes_cast(spec):
    if isinstance(spec, tuple):
        if spec and spec[0] == "CBytes":
            return True
        if spec == ("val", "b''"):
            return True
        return any(spec_has_bytes_cast(s) for s in spec)
    return False


# --------------------------------------------------------------------------
def descriptor_of(ct):
    try:
        return ct.get_validate()
    except Exception:
        return None


def is_fast(ct):
    return type(descriptor_of(ct)) is tuple


def desc_kind(d):
    """Integer kind of a fast descriptor (public ValidateTrait numbering)."""
    try:
        return int(d[0])
    except Exception:
        return -1


def kind_of(handler, ct=None):
    """Structural label of a handler: its public class name, refined by the
    kind of descriptor it carries where one class has several fast paths."""
    if handler is None:
        return "Any"
    n = type(handler).__name__
    fv = getattr(handler, "fast_validate", None)
    dk = desc_kind(fv) if type(fv) is tuple else None
    if n == "Range":
        return "Range.float" if dk == 4 else "Range.slow"
    if n in ("Instance", "Supports", "AdaptsTo"):
        return n + {1: "", 0: ".type", 19: ".adapt"}.get(dk, ".slow")
    if n == "Tuple":
        return "Tuple" if dk == 9 else "Tuple.any"
    if n == "TraitCompound":
        return "Compound"
    return n


def alone(handler):
    """A fresh CTrait carrying only this handler's descriptor."""
    mkct = getattr(type(handler), "as_ctrait", None)
    if mkct is not None:
        return handler.as_ctrait()
    ct = CTrait(0)
    ct.handler = handler
    fv = getattr(handler, "fast_validate", None)
    ct.set_validate(fv if fv is not None else handler.validate)
    return ct


def outcome(fn, obj, v):
    try:
        return ("ok", fn(obj, "x", v))
    except TraitError:
        return ("TE", None)
    except Exception as e:  # noqa: BLE001 - classification of the outcome
        return ("exc", type(e).__name__)


def oname(o):
    return "accept" if o[0] == "ok" else "TraitError" if o[0] == "TE" else "exc:" + o[1]


def tclass(x):
    """Coarse class of a result's type, for keys."""
    t = type(x)
    if t.__module__ == "builtins":
        return t.__name__
    if t.__module__ == "numpy":
        return "np." + t.__name__
    for base in (bool, int, float, complex, str, bytes, tuple, list, dict):
        if isinstance(x, base):
            return base.__name__ + ".subclass"
    return t.__name__


def fineclass(v):
    t = type(v)
    return (t.__module__ if t.__module__ in ("numpy",) else "") + t.__name__


def module_ref(obj, name, v):
    if isinstance(v, types.ModuleType):
        return v
    raise TraitError("not a module")


class Alt(object):
    """One alternative of a compound / one member of a Tuple, validated alone."""
    __slots__ = ("handler", "ct", "fast", "kind", "pyv")

    def __init__(self, handler, ct=None):
        self.handler = handler
        self.ct = ct if ct is not None else alone(handler)
        self.fast = is_fast(self.ct)
        self.kind = kind_of(handler)
        self.pyv = python_method(handler, self.kind)


def python_method(handler, kind):
    pyv = getattr(handler, "validate", None) if handler is not None else None
    if pyv is None and kind == "Module":
        return module_ref
    return pyv


def ordered_leaves(handler):
    """Alternatives of a (possibly nested) compound as a flat list of leaves in
    the documented evaluation order: at every level the members that carry a
    fast descriptor in declared order, then the remaining members."""
    alts = [Alt(h) for h in handler.handlers]
    out = []
    for a in [x for x in alts if x.fast] + [x for x in alts if not x.fast]:
        if a.kind == "Compound" and getattr(a.handler, "handlers", None) is not None:
            out.extend(ordered_leaves(a.handler))
        else:
            out.append(a)
    return out


def tuple_members(handler):
    """Members of a Tuple, each as a fresh stand-alone CTrait.  A member without
    handler (Any) is used as is; a member whose handler cannot build its own
    CTrait (a compound) gets the member's default value copied, because the
    'default' adaptation mode answers with the trait's default."""
    out = []
    for m in handler.types:
        h = m.handler
        if h is None:
            out.append(Alt(None, m))
            continue
        ct = alone(h)
        if getattr(type(h), "as_ctrait", None) is None:
            try:
                ct.set_default_value(*m.default_value())
            except Exception:
                pass
        out.append(Alt(h, ct))
    return out


class Built(object):
    def __init__(self, spec, expect_fast=True, ct=None):
        self.spec = spec
        if ct is None:
            t = mk(spec)
            ct = t.as_ctrait() if hasattr(type(t), "as_ctrait") else t
        self.ct = ct
        self.handler = self.ct.handler
        self.kind = kind_of(self.handler)
        self.fast = is_fast(self.ct)
        self.skip_bigidx = spec_has_bytes_cast(spec)
        self.pyv = python_method(self.handler, self.kind)
        self.py_ref = self.pyv is module_ref
        self.enum_items = enum_items(ENUMS[spec[1]]) if spec[0] == "Enum" else None
        # a compound with a Module member has no meaningful Python method
        self.has_py = self.pyv is not None and (self.kind == "Module"
                                                or not spec_mentions(spec, ("Module",)))
        self.alts = None
        self.members = None
        if self.kind == "Compound" and getattr(self.handler, "handlers", None) is not None:
            self.alts = ordered_leaves(self.handler)
            self.top_alts = len(self.handler.handlers)
        if self.kind == "Tuple":
            self.members = tuple_members(self.handler)
        if expect_fast is None:
            # a compound is expected to be fast iff one of its alternatives is;
            # a typed Tuple always is
            expect_fast = (any(a.fast for a in self.alts) if self.alts is not None
                           else self.members is not None)
        self.expect_fast = expect_fast


def classify(c, p):
    """Judgement of a (C outcome, reference outcome) pair."""
    ck, pk = c[0], p[0]
    if ck == "ok" and pk == "ok":
        if type(c[1]) is type(p[1]) and same(c[1], p[1]):
            return "agree-accept"
        return "result"
    if ck == "TE" and pk == "TE":
        return "agree-reject"
    if ck == "TE" and pk == "exc":
        return "allowed"          # only a Python TraitError binds the C path
    if ck == "exc" and pk == "exc":
        return "both-exc"
    return "diff"


def make_key(verdict, kind, cls, c, p):
    if verdict == "result":
        key = "result/%s/%s/C=%s,Py=%s" % (kind, cls, tclass(c[1]), tclass(p[1]))
        if type(c[1]) is type(p[1]):
            key += "/value-differs"
        return key
    return "diff/%s/%s/C=%s,Py=%s" % (kind, cls, oname(c), oname(p))


_MISSING = object()


class _NullCtx(object):
    """Swallows observations while a baseline pair is re-evaluated."""
    samples = ()

    def ev(self, n=1):
        pass

    def count(self, name, n=1):
        pass

    def sig(self, *parts):
        pass

    def sample(self, obj, cap=4):
        pass


_NULL = _NullCtx()


# --------------------------------------------------------------------------
class Checker(object):
    def __init__(self, ctx):
        self.ctx = ctx
        self.obj = LAT.Holder()
        self.values = lattice()
        self.bigidx = set()
        for vid, cls, v in self.values:
            try:
                n = operator.index(v)
            except Exception:
                continue
            if type(n) is int and abs(n) >= 2 ** 20:
                self.bigidx.add(vid)
        self.accepting_classes = {}
        self.keytag = ""       # history stratum marker, becomes part of the sub-check
        self.hot = None        # value ids whose status the history changed
        self.twin = None       # copy stratum: the original the copy was made from
        self.twin_cache = {}
        self.dry = None        # set collecting keys while a baseline pair is evaluated
        self.base_obj = self.obj   # the stateless holder (no attribute 'x')
        self.held_type = None  # value-held stratum: exact type of the value the attribute holds
        self.fwd = None        # forward-ref stratum: dict(form, where, relation, ...) of the target swept
        self.assign_prefix = "value-held"

    def baseline_keys(self, vid, cls, v):
        """Keys the same pair yields on the original trait (copy stratum): a
        disagreement the original shows too is not caused by the copy."""
        keys = self.twin_cache.get(vid)
        if keys is None:
            saved = (self.ctx, self.keytag, self.twin, self.hot, self.obj, self.held_type, self.fwd)
            self.ctx, self.keytag, self.twin, self.hot = _NULL, "", None, None
            self.obj, self.held_type, self.fwd = self.base_obj, None, None
            self.dry = set()
            try:
                self.pair(saved[2], vid, cls, v)
            finally:
                keys, self.dry = self.dry, None
                self.ctx, self.keytag, self.twin, self.hot, self.obj, self.held_type, self.fwd = saved
            self.twin_cache[vid] = keys
        return keys

    def viol(self, key, b, vid, cls, v, detail, extra=None):
        if self.dry is not None:
            self.dry.add(key)
            return
        tag = self.keytag
        if tag and self.twin is not None and key in self.baseline_keys(vid, cls, v):
            self.ctx.count("%s_echo_of_stateless_disagreement" % tag.split(":")[0])
            tag = ""
        if tag and self.fwd is not None:
            # forward-ref stratum: the mechanism is named by the skeleton of the spec, where
            # the first resolution ran and how the swept trait object relates to that one;
            # the trait kind / value class of the generic keys play no role in it
            parts = key.split("/")
            tail = "/".join(parts[3:]) or parts[-1]
            if parts[0] != "diff":
                tail = parts[0] + ":" + tail
            f = self.fwd
            key = "forward-ref/%s/resolved-on-%s/%s/%s" % (f["form"], f["where"], f["relation"], tail)
            extra = dict(extra or {}, route=f["route"], first_value=f["trigger"], swept_object=f["target"],
                         resolved_on=f["where"], swept_trait_object=f["relation"])
            self.ctx.count("forward-ref_disagreements")
            self.ctx.count("forward-ref_disagreements/%s/%s" % (f["where"], f["relation"]))
            tag = ""
        if tag:
            sub, rest = key.split("/", 1)
            key = "%s@%s/%s" % (sub, tag, rest)
        w = {"spec": b.spec, "history": self.keytag or None, "value_id": vid, "value_class": cls, "value": short(v, 80),
             "descriptor": short(descriptor_of(b.ct), 200)}
        if self.obj is not self.base_obj:
            w["held_value"] = short(self.obj.__dict__.get("x", "<nothing>"), 80)
        if extra:
            w.update(extra)
        self.ctx.violation(key, "%s: spec=%r value=%s [%s] %s"
                           % (key, b.spec, vid, short(v, 60), detail), w)

    # ---- the differential on one pair --------------------------------------
    def pair(self, b, vid, cls, v):
        ctx, obj = self.ctx, self.obj
        c = outcome(b.ct.validate, obj, v)
        ctx.ev()
        ctx.count("c_validations")
        law_violated = False
        p = None
        laws = True
        if self.fwd is not None and b.has_py:
            # forward-ref stratum: the C-vs-Python verdict comes first; a trait object left
            # behind by the resolution disagrees with everything, which is reported once
            p = outcome(b.pyv, obj, v)
            verdict = classify(c, p)
            ctx.count("forward-ref_pairs")
            ctx.count("forward-ref_pairs/" + self.fwd["relation"])
            ctx.count("forward-ref_" + verdict)
            if verdict == "agree-accept" and self.fwd["reaches"](v):
                ctx.count("forward-ref_accepts_through_named_class")
                ctx.count("forward-ref_accepts_through_named_class/" + self.fwd["relation"])
            laws = verdict not in ("diff", "result")
        if b.alts is not None and laws:
            law_violated = self.compound_law(b, vid, cls, v, c)
        if b.members is not None and laws:
            self.tuple_law(b, vid, cls, v, c)
        nontrivial = c[0] != "TE"
        if b.enum_items is not None:
            self.enum_observe(b, cls, v, c)
        if self.held_type is not None and type(v) is self.held_type:
            # the candidate has exactly the type of the value the attribute holds
            how = "accepts" if c[0] == "ok" else "rejects"
            ctx.count("value-held_same-type_pairs")
            ctx.count("value-held_same-type_" + how)
            ctx.count("value-held_same-type_%s/%s" % (how, b.spec[0]))
            nontrivial = True
        if b.has_py:
            if p is None:
                p = outcome(b.pyv, obj, v)
            ctx.count("ref_comparisons" if b.py_ref else "py_comparisons")
            if p[0] != "TE":
                nontrivial = True
            self.judge_diff(b, vid, cls, v, c, p, law_violated)
            pn = oname(p)
        else:
            ctx.count("py_method_absent")
            pn = "-"
        if c[0] == "ok":
            self.accepting_classes[(b.kind, cls)] = True
        if self.hot is not None and vid in self.hot:
            ctx.count("%s_discriminating_pairs" % self.keytag)
            ctx.count("%s_discriminating_%s" % (self.keytag, "accepts" if c[0] == "ok" else "rejects"))
            nontrivial = True
        if nontrivial or (b.kind, cls) in self.accepting_classes:
            rt = tclass(c[1]) if c[0] == "ok" else ""
            ctx.sig("diff", self.keytag, b.kind, fineclass(v), oname(c), rt, pn)
        return c

    def enum_observe(self, b, cls, v, c):
        """Counts the pairs in which an enumeration is asked about a value that is
        equal to one of its items without being it or having its exact type."""
        twin = None
        for it in b.enum_items:
            if it is v:
                return
            if twin is None and type(it) is not type(v):
                try:
                    if it == v:
                        twin = it
                except Exception:
                    pass
        if twin is None:
            return
        ctx = self.ctx
        how = "accepts" if c[0] == "ok" else "rejects"
        ctx.count("enum_foreign-equal_pairs")
        ctx.count("enum_foreign-equal_" + how)
        ctx.count("enum_foreign-equal_%s/%s" % (how, tclass(v)))
        ctx.sig("enum-foreign-equal", self.keytag, tclass(v), tclass(twin), oname(c))

    # ---- assignment under a history (value-held stratum) ---------------------
    def assign(self, b, vid, cls, v):
        """`obj.x = v` must decide like the compiled validator asked directly
        about the same state, and store what that validator returns."""
        ctx, obj = self.ctx, self.obj
        cv = outcome(b.ct.validate, obj, v)
        try:
            setattr(obj, "x", v)
            cs = ("ok", getattr(obj, "x"))
        except TraitError:
            cs = ("TE", None)
        except Exception as e:  # noqa: BLE001 - classification of the outcome
            cs = ("exc", type(e).__name__)
        ctx.ev()
        ctx.count(self.assign_prefix + "_assignments")
        if cs[0] == "ok":
            self.held_type = type(obj.__dict__.get("x", cs[1]))
        if cv[0] == "ok" and cs[0] == "ok":
            if type(cv[1]) is type(cs[1]) and same(cv[1], cs[1]):
                ctx.count(self.assign_prefix + "_assign_accepts")
                ctx.sig("assign", b.kind, fineclass(v), "accept", tclass(cs[1]))
                return
            key = "assign/%s/%s/stored=%s,validate=%s" % (b.kind, cls, tclass(cs[1]), tclass(cv[1]))
            if type(cv[1]) is type(cs[1]):
                key += "/value-differs"
        elif cv[0] == cs[0] and (cv[0] == "TE" or cv[1] == cs[1]):
            ctx.count(self.assign_prefix + "_assign_rejects")
            ctx.sig("assign", b.kind, fineclass(v), oname(cs))
            return
        else:
            key = "assign/%s/%s/setattr=%s,validate=%s" % (b.kind, cls, oname(cs), oname(cv))
        self.viol(key, b, vid, cls, v,
                  "assignment: %s%s, CTrait.validate on the same state: %s%s"
                  % (oname(cs), " -> " + short(cs[1], 50) if cs[0] == "ok" else "",
                     oname(cv), " -> " + short(cv[1], 50) if cv[0] == "ok" else ""),
                  {"setattr": oname(cs), "validate": oname(cv)})

    def judge_diff(self, b, vid, cls, v, c, p, law_violated):
        ctx = self.ctx
        verdict = classify(c, p)
        if verdict == "agree-accept":
            ctx.count("both_accept")
            if c[1] is not v:
                ctx.count("converted_results")
                if len(ctx.samples) < 4 and b.alts is None and type(c[1]) is not type(v):
                    ctx.sample({"spec": b.spec, "value_id": vid, "C_result": short(c[1], 60),
                                "Python_result": short(p[1], 60), "verdict": "agree"})
            return
        if verdict == "agree-reject":
            ctx.count("both_reject")
            return
        if verdict == "allowed":
            ctx.count("py_nonTE_c_TE_allowed")
            return
        if verdict == "both-exc":
            ctx.count("both_raise_nonTE")
            if c[1] != p[1]:
                ctx.count("both_raise_nonTE_different_class")
            return
        # a disagreement: accept/reject, Python TraitError vs another C
        # exception, or different results
        detail = "C path: %s%s, Python method: %s%s" % (
            oname(c), " -> " + short(c[1], 50) if c[0] == "ok" else "",
            oname(p), " -> " + short(p[1], 50) if p[0] == "ok" else "")
        extra = {"C": oname(c), "Py": oname(p)}
        if b.alts is None:
            self.viol(make_key(verdict, b.kind, cls, c, p), b, vid, cls, v, detail, extra)
            return
        # compound: name the leaf alternative whose own two paths disagree
        ctx.count("compound_level_disagreements")
        if law_violated:
            ctx.count("compound_diff_echo_of_law_violation")
            return
        e = self.explain(b, v)
        if e is None:
            key = make_key(verdict, "compound:unexplained", cls, c, p)
            self.viol(key, b, vid, cls, v, detail + " (every alternative agrees with its own Python "
                      "method when validated alone)", extra)
            return
        lv, leaf, lc, lp = e
        if lv in ("allowed", "both-exc"):
            # e.g. an Enum member whose Python `in` lets a foreign exception
            # escape while the C member rejects and the next member accepts
            ctx.count("compound_diff_explained_by_allowed_exception")
            return
        ctx.count("compound_diff_explained_by_leaf")
        extra.update({"leaf": leaf.kind, "leaf_C": oname(lc), "leaf_Py": oname(lp)})
        self.viol(make_key(lv, leaf.kind, cls, lc, lp), b, vid, cls, v,
                  detail + "; explained by alternative %s alone: C %s%s, Python %s%s"
                  % (leaf.kind, oname(lc), " -> " + short(lc[1], 40) if lc[0] == "ok" else "",
                     oname(lp), " -> " + short(lp[1], 40) if lp[0] == "ok" else ""), extra)

    def explain(self, b, v):
        """First alternative (evaluation order) whose stand-alone C path and own
        Python method do not both reject; None when that alternative agrees
        with itself (the compound-level disagreement is then unexplained)."""
        for a in b.alts:
            if a.pyv is None:
                return None
            lc = outcome(a.ct.validate, self.obj, v)
            lp = outcome(a.pyv, self.obj, v)
            lv = classify(lc, lp)
            if lv == "agree-reject":
                continue
            if lv == "agree-accept":
                return None
            return (lv, a, lc, lp)
        return None

    # ---- compound law -------------------------------------------------------
    def compound_law(self, b, vid, cls, v, c):
        """Returns True when a violation of the law was reported for this pair."""
        ctx, obj = self.ctx, self.obj
        ctx.count("compound_law_evaluations")
        outs = []
        first_ok = None
        first_exc = None
        for i, a in enumerate(b.alts):
            o = outcome(a.ct.validate, obj, v)
            ctx.count("alone_validations")
            outs.append(o)
            if o[0] == "ok":
                first_ok = i
                break
            if o[0] == "exc" and first_exc is None:
                first_exc = i
        if first_exc is not None:
            ctx.count("compound_alt_raises_nonTE")
            if c[0] == "exc":
                # propagation of an alternative's own exception: allowed
                ctx.count("compound_propagates_alt_exception")
                ctx.sig("compound", b.alts[first_exc].kind, cls, "propagate")
                return False
        if first_ok is None:
            if c[0] == "ok":
                summary = [(a.kind, oname(o)) for a, o in zip(b.alts, outs)]
                key = "compound/all-alternatives/%s/alone=reject,compound=accept" % cls
                self.viol(key, b, vid, cls, v,
                          "compound accepts (-> %s) although every alternative alone rejects: %s"
                          % (short(c[1], 50), summary), {"alternatives": summary})
                return True
            ctx.count("compound_all_reject")
            return False
        a = b.alts[first_ok]
        r = outs[first_ok][1]
        if first_ok > 0:
            ctx.count("compound_accept_via_nonfirst")
        if not a.fast:
            ctx.count("compound_accept_via_slow")
            # a slow leaf followed by fast leaves only exists through nesting (the
            # inner compound's slow alternatives stay at the inner compound's
            # position); the order is observable when a later fast leaf would
            # accept the value too, with another result
            for a2 in b.alts[first_ok + 1:]:
                if not a2.fast:
                    continue
                o2 = outcome(a2.ct.validate, obj, v)
                ctx.count("alone_validations")
                if o2[0] == "ok" and not (type(o2[1]) is type(r) and same(o2[1], r)):
                    ctx.count("nested_slow_wins_over_later_fast")
                    ctx.sig("compound-order", a.kind, a2.kind, cls, oname(c))
                    break
        ctx.sig("compound", a.kind, cls, min(first_ok, 4), oname(c), min(len(b.alts), 5))
        if c[0] != "ok":
            key = "compound/%s/%s/alone=accept,compound=%s" % (a.kind, cls, oname(c))
            self.viol(key, b, vid, cls, v,
                      "alternative #%d (%s) alone accepts (-> %s) but the compound gives %s"
                      % (first_ok, a.kind, short(r, 50), oname(c)),
                      {"alternative": first_ok, "alt_kind": a.kind})
            return True
        rc = c[1]
        if type(rc) is type(r) and same(rc, r):
            return False
        # which other alternative does the compound's answer look like?
        other = None
        for j, a2 in enumerate(b.alts):
            if j == first_ok:
                continue
            o2 = outcome(a2.ct.validate, obj, v)
            if o2[0] == "ok" and type(o2[1]) is type(rc) and same(o2[1], rc):
                other = j
                break
        kcls = cls
        if a.kind.endswith(".adapt") and r is not v:
            # the alternative substituted its default for an unadaptable value:
            # the value's own class plays no role in the mechanism
            try:
                d = a.ct.default_value_for(obj, "x")
            except Exception:
                d = _MISSING
            if d is r or (d is not _MISSING and type(d) is type(r) and same(d, r)):
                kcls = "unadaptable(default-substituted)"
        key = None
        if kcls != cls:
            try:
                cd = b.ct.default_value_for(obj, "x")
            except Exception:
                cd = _MISSING
            if cd is rc or (cd is not _MISSING and type(cd) is type(rc) and same(cd, rc)):
                key = "compound/%s/%s/result=compound-default,first-accepting-alone=alternative-default" % (
                    a.kind, kcls)
        if key is None:
            key = "compound/%s/%s/result=%s,first-accepting-alone=%s" % (a.kind, kcls, tclass(rc), tclass(r))
            if type(rc) is type(r):
                key += "/value-differs"
            if other is not None:
                key += "/matches-later-alternative" if other > first_ok else "/matches-earlier-alternative"
        self.viol(key, b, vid, cls, v,
                  "compound returns %s but the first accepting alternative #%d (%s) alone returns %s"
                  % (short(rc, 50), first_ok, a.kind, short(r, 50)),
                  {"alternative": first_ok, "alt_kind": a.kind, "compound_result": short(rc),
                   "alone_result": short(r), "looks_like_alternative": other})
        return True

    # ---- tuple law ------------------------------------------------------------
    def tuple_law(self, b, vid, cls, v, c):
        ctx, obj = self.ctx, self.obj
        ctx.count("tuple_law_evaluations")
        n = len(b.members)
        if not isinstance(v, tuple) or len(v) != n:
            if c[0] == "ok":
                key = "tuple/Tuple/%s/wrong-shape-accepted" % cls
                self.viol(key, b, vid, cls, v, "Tuple of %d members accepts %s" % (n, short(v, 50)))
            else:
                ctx.count("tuple_law_shape_rejects")
            return
        items = []
        failed = None
        for i, a in enumerate(b.members):
            o = outcome(a.ct.validate, obj, v[i])
            ctx.count("alone_validations")
            if o[0] != "ok":
                failed = (i, a, o)
                break
            items.append(o[1])
        if failed is not None:
            i, a, o = failed
            ctx.sig("tuple", a.kind, cls, "member-" + o[0], oname(c))
            if c[0] == "ok":
                key = "tuple/Tuple[%s]/%s/member-alone=%s,tuple=accept" % (a.kind, cls, oname(o))
                self.viol(key, b, vid, cls, v,
                          "member #%d (%s) alone gives %s for %s but the Tuple accepts"
                          % (i, a.kind, oname(o), short(v[i], 40)), {"member": i})
            else:
                ctx.count("tuple_law_member_rejects")
            return
        ctx.count("tuple_law_accepts")
        converted = any(x is not y for x, y in zip(items, v))
        ctx.sig("tuple", tuple(a.kind for a in b.members[:3]), cls, "accept", converted, oname(c))
        if c[0] != "ok":
            key = "tuple/Tuple/%s/members-alone=accept,tuple=%s" % (cls, oname(c))
            self.viol(key, b, vid, cls, v, "every member alone accepts its item but the Tuple gives %s" % oname(c))
            return
        rc = c[1]
        if not isinstance(rc, tuple) or len(rc) != n:
            key = "tuple/Tuple/%s/result-shape" % cls
            self.viol(key, b, vid, cls, v, "Tuple returns %s" % short(rc, 60))
            return
        for i, (x, y) in enumerate(zip(rc, items)):
            if type(x) is not type(y) or not same(x, y):
                key = "tuple/Tuple[%s]/%s/item=%s,member-alone=%s" % (
                    b.members[i].kind, cls, tclass(x), tclass(y))
                self.viol(key, b, vid, cls, v,
                          "item #%d of the Tuple result is %s but member (%s) alone returns %s"
                          % (i, short(x, 40), b.members[i].kind, short(y, 40)), {"member": i})
                return

    # ---- one configuration over the lattice ---------------------------------
    def run_spec(self, b, rng, nderived, values=None):
        ctx = self.ctx
        if b.fast:
            ctx.count("fast_descriptor_specs")
            ctx.count("fast_descriptor_specs/" + ("compound" if b.alts is not None else "atomic"))
        elif b.expect_fast:
            ctx.violation("descriptor%s/not-installed/%s" % ("@" + self.keytag if self.keytag else "", b.kind),
                          "spec %r: get_validate() is %s, not a fast descriptor tuple"
                          % (b.spec, short(descriptor_of(b.ct), 80)), {"spec": b.spec})
        else:
            ctx.count("slow_specs")
        n = 0
        for vid, cls, v in (self.values if values is None else values):
            if b.skip_bigidx and vid in self.bigidx:
                ctx.count("skipped_resource_pairs")
                continue
            self.pair(b, vid, cls, v)
            n += 1
        for vid, cls, v in self.derived(b, rng, nderived):
            self.pair(b, vid, cls, v)
            ctx.count("derived_values")
            n += 1
        return n

    # ---- derived tuple values -------------------------------------------------
    def tuple_shapes(self, b):
        """Tuple handlers reachable at the top or as compound alternatives."""
        out = []
        if b.members is not None:
            out.append(b.members)
        if b.alts is not None:
            for a in b.alts:
                if a.kind == "Tuple":
                    out.append(tuple_members(a.handler))
        return out

    def derived(self, b, rng, k):
        if k <= 0:
            return
        vals = self.values
        if b.skip_bigidx:
            vals = [e for e in vals if e[0] not in self.bigidx]
        for si, members in enumerate(self.tuple_shapes(b)):
            n = len(members)
            if n == 0 or n > 4:
                continue
            # per-position accepted / rejected / raising lattice entries, observed
            # on the member alone (selection only: nothing is judged here)
            acc, rej = [], []
            for a in members:
                ok, no = [], []
                for e in vals:
                    (ok if outcome(a.ct.validate, self.obj, e[2])[0] == "ok" else no).append(e)
                acc.append(ok)
                rej.append(no)
            for j in range(k):
                mode = j % 8
                picks = []
                for i in range(n):
                    pool = acc[i] or vals
                    picks.append(rng.choice(pool))
                if mode in (3, 4) and any(rej):
                    i = rng.randrange(n)
                    if rej[i]:
                        picks[i] = rng.choice(rej[i])
                elif mode == 5:
                    picks = picks[:-1] if rng.random() < 0.5 else picks + [rng.choice(vals)]
                elif mode == 6:
                    picks = [rng.choice(vals) for _ in range(n)]
                items = [e[2] for e in picks]
                wrap = "tuple"
                if mode in (1, 7):
                    wrap = "T"
                elif mode == 2 and len(items) == 2:
                    wrap = "NT"
                if wrap == "T":
                    v, cls = LAT.T(items), "tuple.subclass"
                elif wrap == "NT":
                    v, cls = LAT.NT(*items), "tuple.subclass"
                else:
                    v, cls = tuple(items), "tuple"
                yield ("%s[%s]" % (wrap, ",".join(e[0] for e in picks)), cls, v)


# --------------------------------------------------------------------------
# catalogue
def range_grid(full):
    inf = float("inf")
    out = []
    if full:
        bounds = [(0.0, 1.0), (None, 1.0), (0.0, None), (-2.5, 1.0e6), (0, 1.0), (0.0, 1),
                  (1.0, 1.0), (1.0, 0.0), (-inf, inf), (0.0, inf), (-inf, 0.0), (-2.5, None),
                  (None, 1.0e6), (1.0e6, None), (-2.5, 0.0)]
        for lo, hi in bounds:
            for xl in (False, True):
                for xh in (False, True):
                    out.append(("Range", lo, hi, xl, xh))
    else:
        for xl in (False, True):
            for xh in (False, True):
                out.append(("Range", 0.0, 1.0, xl, xh))
        out += [("Range", None, 1.0, False, False), ("Range", None, 1.0, False, True),
                ("Range", 0.0, None, False, False), ("Range", 0.0, None, True, False),
                ("Range", -2.5, 1.0e6, False, True), ("Range", 0, 1.0, True, False),
                ("Range", 1.0, 1.0, False, False), ("Range", 1.0, 1.0, True, False),
                ("Range", 1.0, 0.0, False, False), ("Range", -inf, inf, False, False),
                ("Range", -inf, inf, True, True), ("Range", 0.0, inf, False, True)]
    # the lattice holds b and both neighbours of every finite bound used here
    for r in out:
        for b in r[1:3]:
            assert b is None or abs(b) == inf or float(b) in BOUNDS, r
    return out


def atomic_specs(full):
    S = []
    for n in ("Int", "Float", "Complex", "Str", "Bytes", "Bool", "CInt", "CFloat", "CComplex",
              "CStr", "CBytes", "CBool", "Module"):
        S.append(((n,), True))
    for r in range_grid(full):
        S.append((r, True))
    for e in sorted(ENUMS):
        S.append((("Enum", e), True))
    for m in sorted(MAPS):
        S.append((("Map", m), True))
    I, St, Fl = ("Int",), ("Str",), ("Float",)
    tuples = [
        ("Tuple", I, St), ("Tuple", Fl, I), ("Tuple", ("Tuple", I, I), St), ("Tuple", I),
        ("Tuple", I, I), ("Tuple", St, St, St), ("TupleDefault", (1, "a")),
        ("Tuple", ("Range", 0.0, 1.0, False, False), I), ("Tuple", ("Either", I, St), Fl),
        ("Tuple", ("Any",), I), ("Tuple", ("Enum", "zero-one"), ("Bool",)),
        ("Tuple", ("Instance", "X", True, "no"), ("Callable", None)),
        ("Tuple", ("CInt",), ("CStr",)), ("Tuple", ("List", I), I),
        ("Tuple", ("Complex",), ("Bytes",)), ("Tuple", ("Either", ("Tuple", I, I), ("None",)), St),
        ("Tuple", ("Map", "yesno"), I), ("Tuple", ("This", True), ("Float",)),
        ("Tuple", I, St, Fl, ("Bool",)), ("Tuple", ("Trait1", ("py", "float")), ("Trait1", ("val", "0"))),
        ("Tuple", ("Union", I, St), I), ("Tuple", ("Instance", "X", False, "yes"), I),
    ]
    for t in tuples:
        S.append((t, True))
    S.append((("Tuple",), False))        # no-type-check Tuple: documented as not fast
    inst = [
        ("Instance", "X", True, "no"), ("Instance", "X", False, "no"),
        ("Instance", "int", True, "no"), ("Instance", "int", False, "no"),
        ("Instance", "tuple", True, "no"), ("Instance", "str", False, "no"),
        ("Instance", "float", True, "no"), ("Instance", "I", True, "no"),
        ("Instance", "Sized", True, "no"), ("Instance", "Real", False, "no"),
        ("Instance", "X", True, "yes"), ("Instance", "X", False, "yes"),
        ("Instance", "X", True, "default"), ("Instance", "X", False, "default"),
        ("Instance", "X", True, "default", "factory"), ("Instance", "X", False, "default", "factory"),
        ("Instance", "int", True, "yes"), ("Instance", "Holder", True, "no"),
        # own stratum: a class None is an instance of, with None disallowed
        ("Instance", "object", False, "no"),
        ("Supports", "X", True), ("Supports", "X", False),
        # classes whose isinstance() verdict is individual: runtime-checkable protocol
        # with a data member, metaclass __instancecheck__
        ("Instance", "Labelled", True, "no"), ("Instance", "Labelled", False, "no"),
        ("Instance", "Open", True, "no"), ("Instance", "Open", False, "no"),
        ("Instance", "Labelled", True, "yes"),
    ]
    for t in inst:
        S.append((t, True))
    for t in (("This", True), ("This", False), ("Callable", None), ("Callable", True),
              ("Callable", False)):
        S.append((t, True))
    legacy = [
        ("Trait1", ("py", "int")), ("Trait1", ("py", "float")), ("Trait1", ("py", "complex")),
        ("Trait1", ("py", "str")), ("Trait1", ("py", "bool")), ("Trait1", ("py", "bytes")),
        ("Trait1", ("py", "tuple")), ("Trait1", ("py", "list")),
        ("Trait1", ("val", "0")), ("Trait1", ("val", "0.0")), ("Trait1", ("val", "''")),
        ("Trait1", ("val", "True")), ("Trait1", ("val", "0j")), ("Trait1", ("val", "b''")),
        ("Trait1", ("fn", "even_half")), ("Trait1", ("fn", "picky")),
        ("Trait", "1", ("const", 2), ("const", "a")),                  # TraitEnum
        ("Trait", "yes", ("map", "yesno")),                            # TraitMap
        ("Trait", "none", ("cls", "X")),                               # TraitInstance + None
        ("Trait", "0", ("cls", "int")),
    ]
    for t in legacy:
        S.append((t, True))
    return S


def fixed_compounds():
    I, St, Fl, B = ("Int",), ("Str",), ("Float",), ("Bool",)
    R01 = ("Range", 0.0, 1.0, False, False)
    R01x = ("Range", 0.0, 1.0, True, True)
    N = ("None",)
    out = [
        ("Either", I, St), ("Either", St, I), ("Either", R01, St), ("Either", St, R01x),
        ("Either", ("Tuple", I, I), N), ("Either", N, ("Tuple", I, St)),
        ("Either", ("Enum", "ab"), Fl), ("Either", Fl, ("Enum", "ab")),
        ("Either", ("Instance", "X", True, "no"), ("Callable", False)),
        ("Either", St, ("Callable", False)), ("Either", ("Callable", True), I),
        ("Either", ("CInt",), St), ("Either", St, ("CInt",)), ("Either", B, I), ("Either", I, B),
        ("Either", I, Fl), ("Either", Fl, I), ("Either", Fl, ("Complex",)), ("Either", ("Complex",), Fl),
        ("Either", I, Fl, ("Complex",), St), ("Either", ("CFloat",), ("CStr",)),
        ("Either", ("CStr",), ("CFloat",)), ("Either", ("CBool",), I), ("Either", ("Bytes",), ("CBytes",)),
        ("Either", ("Map", "yesno"), I), ("Either", I, ("Map", "yesno")),
        ("Either", ("This", False), St), ("Either", ("This", True), I),
        ("Either", ("Instance", "int", False, "no"), Fl), ("Either", ("Instance", "tuple", True, "no"), I),
        ("Either", ("Instance", "X", False, "yes"), St), ("Either", ("Instance", "X", True, "yes"), I),
        ("Either", ("Instance", "X", False, "default"), St),
        ("Either", St, ("Instance", "X", False, "default", "factory")),
        ("Either", ("Instance", "X", False, "default", "factory"), St),
        ("Either", ("Supports", "X", False), I),
        ("Either", ("Either", I, St), Fl), ("Either", Fl, ("Either", St, I)),
        ("Either", ("Either", I, ("List", I)), St),
        ("Either", ("Tuple", I, I), ("Tuple", Fl, Fl)), ("Either", ("Tuple", Fl, Fl), ("Tuple", I, I)),
        ("Either", ("Tuple", ("Either", I, St), Fl), St),
        ("Either", ("Tuple", R01, I), N),
        ("Either", ("List", I), I), ("Either", I, ("List", I)), ("Either", ("List", I), St, I),
        ("Either", ("Dict", St, I), I), ("Either", ("Range", 0, 10, False, False), St),
        ("Either", St, ("Range", 0, 10, False, False), Fl),
        ("Either", ("Union", I, St), Fl), ("Either", ("List", I), ("Dict", St, I)),
        ("Either", ("Module",), St), ("Either", St, ("Module",)),
        ("Either", ("Enum", "mixed"), ("Enum", "floats")), ("Either", ("Enum", "bools"), I),
        ("Either", ("Enum", "zero-one"), B), ("Either", ("Enum", "tuples"), ("Tuple", I, I)),
        ("Either", ("Trait1", ("fn", "even_half")), I), ("Either", I, ("Trait1", ("fn", "even_half"))),
        ("Either", ("Trait1", ("fn", "picky")), I),
        ("Trait", "none", ("py", "int"), ("py", "str")), ("Trait", "none", ("py", "float"), ("py", "int")),
        ("Trait", "none", ("py", "int"), ("py", "float")), ("Trait", "none", ("py", "complex"), ("py", "str")),
        ("Trait", "1", ("const", 2), ("const", 3), ("py", "str")),
        ("Trait", "yes", ("map", "yesno"), ("py", "int")),
        ("Trait", "yes", ("map", "yesno"), ("const", "a"), ("py", "float")),
        ("Trait", "none", ("cls", "X"), ("py", "str")), ("Trait", "0", R01, St),
        ("Trait", "none", ("fn", "even_half"), ("py", "str")),
        ("Trait", "none", ("fn", "picky"), ("py", "int")),
        ("Trait", "0", ("py", "int"), ("Tuple", I, I)), ("Trait", "none", ("cls", "int"), ("cls", "X")),
        ("Trait", "0.0", Fl, ("const", "auto")), ("Trait", "none", ("const", None), I, St),
        ("Trait", "none", ("py", "bool"), ("py", "int")), ("Trait", "none", ("py", "tuple"), ("py", "list")),
        ("Trait", "0", ("Trait1", ("val", "0")), St), ("Trait", "''", ("Trait1", ("val", "''")), I),
        ("Trait", "0", ("Trait1", ("val", "0.0")), ("Trait1", ("val", "0"))),
        ("Either", ("Instance", "Labelled", False, "no"), ("Instance", "Open", False, "no")),
        ("Either", St, ("Instance", "Open", True, "no")), ("Trait", "none", ("cls", "Labelled"), ("py", "int")),
        ("Either", ("Enum", "items:str-mixin-class"), I), ("Either", Fl, ("Enum", "items:own-eq")),
        ("Either", ("Enum", "items:np-str"), ("Enum", "items:int-enum-members")),
        ("Tuple", ("Enum", "items:str-subclass"), ("Instance", "Labelled", True, "no")),
    ]
    return out


#: members without a C validator (slow) and, for each, later fast alternatives that
#: accept (some of) the same values with a different result
_F = False
SLOW_AND_GREEDY = [
    (("List", ("Int",)), [("CStr",), ("Instance", "list", True, "no"), ("CBool",)]),
    (("List", ("Str",)), [("Instance", "Sized", False, "no"), ("CStr",)]),
    (("Dict", ("Str",), ("Int",)), [("CStr",), ("Instance", "dict", False, "no")]),
    (("Set", ("Int",)), [("CStr",), ("Instance", "Sized", False, "no")]),
    (("Tuple",), [("CStr",), ("Instance", "list", False, "no")]),
    (("Range", 0, 10, _F, _F), [("Float",), ("CStr",)]),
    (("Union", ("Int",), ("Str",)), [("Float",), ("CBool",)]),
    (("Array",), [("CStr",), ("Instance", "list", True, "no")]),
]
GREEDY = [("CStr",), ("CBool",), ("Instance", "list", True, "no"), ("Instance", "dict", False, "no"),
          ("Instance", "Sized", False, "no"), ("Instance", "object", True, "no"), ("Float",),
          ("CFloat",), ("CBytes",), ("Instance", "tuple", True, "no")]
FAST_SIMPLE = [("Int",), ("Bool",), ("Str",), ("Float",), ("Bytes",), ("Complex",),
               ("Enum", "ab"), ("Instance", "X", False, "no"), ("Callable", False),
               ("Tuple", ("Int",), ("Int",)), ("Map", "one"), ("This", False)]


def nested_mixed_compounds():
    """Stratum: an inner compound with an alternative that has no C validator,
    followed in the outer compound by a fast alternative that accepts the same
    values with a different result (the order of the flattened table matters)."""
    out = []
    for slow, greedy in SLOW_AND_GREEDY:
        for i, g in enumerate(greedy):
            if i % 2 == 0:
                out.append(("Either", ("Int",), ("Either", ("Bool",), slow), g))
            else:
                out.append(("Either", ("Either", slow, ("Bytes",)), g, ("Int",)))
    # deeper nesting, two slow members, slow member first in the inner compound
    out.append(("Either", ("Either", ("Bool",), ("Either", ("Int",), ("List", ("Int",)))), ("CStr",)))
    out.append(("Either", ("Bytes",), ("Either", ("List", ("Int",)), ("Dict", ("Str",), ("Int",)), ("Int",)),
                ("Instance", "Sized", False, "no")))
    out.append(("Either", ("Either", ("Set", ("Int",)), ("Str",)), ("Either", ("Int",), ("CStr",))))
    return out


def random_nested_mixed(rng):
    slow = [s for s, _ in SLOW_AND_GREEDY]
    inner = [rng.choice(FAST_SIMPLE), rng.choice(slow)]
    if rng.random() < 0.3:
        inner.append(rng.choice(slow + FAST_SIMPLE))
    rng.shuffle(inner)
    inner = ("Either",) + tuple(inner)
    if rng.random() < 0.25:      # one level deeper
        inner = ("Either", rng.choice(FAST_SIMPLE), inner)
    pre = [rng.choice(FAST_SIMPLE)] if rng.random() < 0.6 else []
    post = [rng.choice(GREEDY)]
    if rng.random() < 0.4:
        post.insert(rng.randrange(2), rng.choice(GREEDY + FAST_SIMPLE))
    return ("Either",) + tuple(pre) + (inner,) + tuple(post)


def member_pool():
    """Member specs the random compounds draw from: (spec, weight)."""
    P = []
    for n in ("Int", "Float", "Complex", "Str", "Bytes", "Bool", "CInt", "CFloat", "CComplex",
              "CStr", "CBool"):
        P.append(((n,), 3))
    P.append((("CBytes",), 1))
    for r in range_grid(False):
        P.append((r, 1))
    for e in sorted(ENUMS):
        P.append((("Enum", e), 1))
    for m in sorted(MAPS):
        P.append((("Map", m), 1))
    I, St, Fl = ("Int",), ("Str",), ("Float",)
    for t in (("Tuple", I, St), ("Tuple", Fl, I), ("Tuple", I, I), ("Tuple", St, St), ("Tuple", I),
              ("Tuple", ("Either", I, St), Fl), ("Tuple", ("CInt",), ("CStr",)),
              ("Tuple", ("Range", 0.0, 1.0, False, True), Fl), ("Tuple", ("Bool",), ("Complex",))):
        P.append((t, 2))
    for t in (("Instance", "X", True, "no"), ("Instance", "X", False, "no"),
              ("Instance", "int", False, "no"), ("Instance", "tuple", False, "no"),
              ("Instance", "str", True, "no"), ("Instance", "Sized", False, "no"),
              ("Instance", "X", False, "yes"), ("Instance", "X", True, "yes"),
              ("Instance", "X", False, "default"), ("Supports", "X", False),
              ("Instance", "Labelled", False, "no"), ("Instance", "Open", True, "no"),
              ("This", True), ("This", False), ("Callable", None), ("Callable", False),
              ("Callable", True)):
        P.append((t, 2))
    for t in (("Trait1", ("py", "int")), ("Trait1", ("py", "float")), ("Trait1", ("py", "str")),
              ("Trait1", ("val", "0")), ("Trait1", ("val", "0.0")), ("Trait1", ("val", "''")),
              ("Trait1", ("fn", "even_half")), ("Trait1", ("fn", "picky"))):
        P.append((t, 1))
    # slow members (mixed compounds)
    for t in (("List", I), ("Dict", St, I), ("Range", 0, 10, False, False), ("Union", I, St),
              ("Union", ("None",), Fl), ("Tuple",)):
        P.append((t, 2))
    # nested compounds
    for t in (("Either", I, St), ("Either", Fl, ("None",)), ("Either", ("Tuple", I, I), St),
              ("Either", St, ("List", I)), ("Either", ("CInt",), ("Either", ("Bool",), Fl))):
        P.append((t, 3))
    return P


def random_compound(rng, pool, weights):
    form = rng.random()
    n = rng.choice((2, 2, 3, 3, 4))
    members = rng.choices(pool, weights=weights, k=n)
    if form < 0.6:
        if rng.random() < 0.25:
            members.insert(rng.randrange(len(members) + 1), ("None",))
        return ("Either",) + tuple(members)
    if form < 0.72:
        return random_nested_mixed(rng)
    if form < 0.86:
        # Tuple whose members are compounds / atoms
        inner = []
        for _ in range(rng.choice((1, 2, 2, 3))):
            if rng.random() < 0.6:
                inner.append(("Either",) + tuple(rng.choices(pool, weights=weights, k=rng.choice((2, 3)))))
            else:
                inner.append(rng.choices(pool, weights=weights, k=1)[0])
        return ("Tuple",) + tuple(inner)
    # legacy Trait(default, ...) form
    items = []
    for _ in range(n):
        r = rng.random()
        if r < 0.35:
            items.append(("py", rng.choice(("int", "float", "complex", "str", "bool", "tuple"))))
        elif r < 0.5:
            items.append(("const", rng.choice((1, 2, "a", "auto", None, 0.5))))
        elif r < 0.6:
            items.append(("map", rng.choice(sorted(MAPS))))
        elif r < 0.7:
            items.append(("fn", rng.choice(sorted(FUNCS))))
        elif r < 0.8:
            items.append(("cls", rng.choice(("X", "int", "Src"))))
        else:
            items.append(rng.choices(pool, weights=weights, k=1)[0])
    return ("Trait", rng.choice(("none", "0", "''", "0.0"))) + tuple(items)


# --------------------------------------------------------------------------
# history strata: the configuration's environment changes between the
# definition (and first use) of the trait and the differential sweep
ADAPT_SPECS = [
    ("Instance", "X", True, "yes"), ("Instance", "X", False, "yes"),
    ("Instance", "X", False, "default"), ("Instance", "X", True, "default", "factory"),
    ("Supports", "X", False), ("AdaptsTo", "X", True),
    ("Either", ("Instance", "X", False, "yes"), ("Str",)),
    ("Either", ("Str",), ("Supports", "X", False), ("Int",)),
    ("Either", ("Int",), ("Either", ("AdaptsTo", "X", False), ("List", ("Int",))), ("CStr",)),
]
# (no Tuple shapes in the history strata: the Python Tuple.validate calls the
# members' compiled validators, so both paths would see the same history)
ADAPT_SCENARIOS = ("set-other", "set-empty", "reset-register", "late-register",
                   "set-other-then-back-and-forth")
MAP_LIVE_SPECS = [
    ("MapLive", "yesno"), ("MapLive", "keys"), ("TraitMapLive", "yesno"),
    ("Either", ("MapLive", "yesno"), ("Int",)), ("Either", ("Float",), ("MapLive", "yesno")),
    ("Either", ("Str",), ("Either", ("MapLive", "keys"), ("List", ("Int",))), ("CBool",)),
    ("Either", ("MapLive", "one"), ("Enum", "ab")),
]
MAP_SCENARIOS = ("add", "remove", "add+remove")


def _manager(*sources):
    m = AdaptationManager()
    for src in sources:
        m.register_factory(LAT.XAdapter, src, LAT.X)
    return m


def _adaptable(manager, v):
    try:
        return manager.adapt(v, LAT.X, None) is not None
    except Exception:
        return False


def adapt_swap_case(ctx, ck, scen, nder):
    """Instance(adapt=...)/Supports/AdaptsTo traits are defined and validated
    once through the compiled path; then the global AdaptationManager is
    replaced (or gets a late registration) so that some values are adaptable
    under only one of the two managers; then the usual sweep."""
    if not ctx.begin("adapt-swap:%s" % scen, {"scenario": scen, "specs": ADAPT_SPECS}):
        return
    original = get_global_adaptation_manager()
    try:
        base = _manager(LAT.Src)
        set_global_adaptation_manager(base)
        builts = [Built(s, None) for s in ADAPT_SPECS]
        warm = [e for e in ck.values if e[1] in ("adaptable", "adaptable.alt", "none", "hastraits")]
        for b in builts:
            for vid, cls, v in warm:
                outcome(b.ct.validate, ck.obj, v)
                ctx.count("history_warmup_validations")
        before = {vid: _adaptable(base, v) for vid, cls, v in ck.values}
        if scen == "set-other":
            set_global_adaptation_manager(_manager(LAT.Src2))
        elif scen == "set-empty":
            set_global_adaptation_manager(AdaptationManager())
        elif scen == "reset-register":
            reset_global_adaptation_manager()
            get_global_adaptation_manager().register_factory(LAT.XAdapter, LAT.Src2, LAT.X)
        elif scen == "late-register":
            base.register_factory(LAT.XAdapter, LAT.Src2, LAT.X)
        else:
            other = _manager(LAT.Src2)
            for m in (other, base, other):
                set_global_adaptation_manager(m)
                for b in builts[:3]:
                    for vid, cls, v in warm:
                        outcome(b.ct.validate, ck.obj, v)
        now = get_global_adaptation_manager()
        ck.hot = {vid for vid, cls, v in ck.values if _adaptable(now, v) != before[vid]}
        ck.keytag = "manager-swapped"
        for i, b in enumerate(builts):
            ctx.count("specs")
            ctx.count("manager-swapped_specs")
            ctx.count("pairs", ck.run_spec(b, ctx.rng("adapt-swap", scen, i), nder))
    finally:
        ck.keytag, ck.hot = "", None
        set_global_adaptation_manager(original)
        ctx.end()


def map_live_case(ctx, ck, scen, nder):
    """Map traits are defined over a dict the harness keeps (and validated
    once); keys are then added to / removed from that dict; then the sweep."""
    if not ctx.begin("map-live:%s" % scen, {"scenario": scen, "specs": MAP_LIVE_SPECS}):
        return
    try:
        del LIVE_DICTS[:]
        builts = [Built(s, None) for s in MAP_LIVE_SPECS]
        dicts = list(LIVE_DICTS)
        for b in builts:
            for vid, cls, v in ck.values[:40]:
                outcome(b.ct.validate, ck.obj, v)
                ctx.count("history_warmup_validations")
        hot = set()
        for d in dicts:
            snapshot = dict(d)
            if "add" in scen:
                d["abc"] = 10
                d[7] = 11
                d[(1, 2)] = 12
                d[0.5] = 13
            if "remove" in scen:
                for k in ("yes", 1, None, "a"):
                    d.pop(k, None)
            for vid, cls, v in ck.values:
                try:
                    a = v in snapshot
                except Exception:
                    a = False
                try:
                    z = v in d
                except Exception:
                    z = False
                if a != z:
                    hot.add(vid)
        ck.hot = hot
        ck.keytag = "map-mutated"
        for i, b in enumerate(builts):
            ctx.count("specs")
            ctx.count("map-mutated_specs")
            ctx.count("pairs", ck.run_spec(b, ctx.rng("map-live", scen, i), nder))
    finally:
        ck.keytag, ck.hot = "", None
        del LIVE_DICTS[:]
        ctx.end()


# --------------------------------------------------------------------------
# copy stratum: the same sweep on CTraits that went through pickle / copy /
# deepcopy / clone, and on traits re-installed with add_trait from such a copy
COPY_PICKLE = [("pickle", p) for p in range(pickle.HIGHEST_PROTOCOL + 1)]
COPY_OTHER = [("copy", None), ("deepcopy", None), ("clone", None), ("add_trait", "pickle"),
              ("add_trait", "deepcopy")]


def make_copy(ct, mode):
    kind, arg = mode
    if kind == "pickle":
        return pickle.loads(pickle.dumps(ct, arg)), None
    if kind == "copy":
        return copy.copy(ct), None
    if kind == "deepcopy":
        return copy.deepcopy(ct), None
    if kind == "clone":
        c = CTrait(0)
        c.clone(ct)
        if ct.__dict__ is not None:
            c.__dict__ = ct.__dict__.copy()
        return c, None
    src = pickle.loads(pickle.dumps(ct, 2)) if arg == "pickle" else copy.deepcopy(ct)
    owner = LAT.Holder()
    owner.add_trait("t", src)
    return owner.trait("t"), owner


def copied_case(ctx, ck, i, spec, modes, values, nder):
    if not ctx.begin("copy:%d" % i, {"spec": spec, "modes": modes}):
        return
    try:
        try:
            b0 = Built(spec, None)
        except Exception:
            ctx.count("unbuildable_specs")
            return
        for mode in modes:
            try:
                ct1, owner = make_copy(b0.ct, mode)
                b1 = Built(spec, b0.fast, ct=ct1)
            except Exception as e:  # noqa: BLE001 - e.g. Module is not picklable (C14's F18)
                ctx.count("copy_failed")
                ctx.count("copy_failed/%s/%s" % (mode[0], type(e).__name__))
                continue
            b1.owner = owner
            ck.keytag, ck.twin, ck.twin_cache = "copied:" + mode[0], b0, {}
            try:
                ctx.count("specs")
                ctx.count("copied_specs")
                ctx.count("copied_specs/" + mode[0])
                n = ck.run_spec(b1, ctx.rng("copy", i, mode[0], mode[1]), nder, values)
                ctx.count("pairs", n)
                ctx.count("copied_pairs", n)
            finally:
                ck.keytag, ck.twin, ck.twin_cache = "", None, {}
    finally:
        ctx.end()


# --------------------------------------------------------------------------
# value-held stratum: the trait is installed on an object under the name the
# validators are called with, a valid value is assigned, and the sweep is made
# on that state (validators must not depend on what the attribute holds)
def holder_for(spec, how):
    t = mk(spec)
    if how == "class":
        return type("HeldHolder", (LAT.Holder,), {"x": t})()
    obj = LAT.Holder()
    obj.add_trait("x", t)
    return obj


def held_case(ctx, ck, i, spec, how, nheld, nassign, values):
    if not ctx.begin("held:%d" % i, {"spec": spec, "trait_defined_on": how}):
        return
    try:
        try:
            b0 = Built(spec, None)
            obj = holder_for(spec, how)
            b1 = Built(spec, b0.fast, ct=obj.trait("x"))
        except Exception:
            ctx.count("unbuildable_specs")
            return
        rng = ctx.rng("held", i)
        entries = [e for e in ck.values if not (b1.skip_bigidx and e[0] in ck.bigidx)]
        # selection only (nothing is judged here): values both paths accept on the
        # fresh object, by exact type; types that also have refused values first
        acc, refused = {}, set()
        for e in entries:
            c = outcome(b1.ct.validate, obj, e[2])
            p = outcome(b1.pyv, obj, e[2]) if b1.has_py else c
            if classify(c, p) == "agree-accept":
                acc.setdefault(type(e[2]), []).append(e)
            elif c[0] != "ok":
                refused.add(type(e[2]))
        split = [t for t in acc if t in refused]
        whole = [t for t in acc if t not in refused]
        rng.shuffle(split)
        rng.shuffle(whole)
        picks = split[:max(1, nheld - 1)]
        picks += whole[:nheld - len(picks)]
        picks += split[len(picks):nheld]
        if not picks:
            ctx.count("value-held_specs_accepting_nothing")
            return
        ctx.count("specs")
        ctx.count("value-held_specs")
        ctx.count("value-held_specs/" + how)
        ck.obj, ck.keytag, ck.twin, ck.twin_cache = obj, "value-held", b0, {}
        for t in picks[:nheld]:
            hvid, hcls, h = rng.choice(acc[t])
            try:
                setattr(obj, "x", h)
            except Exception:  # noqa: BLE001 - judged by the assignment sub-check, not here
                ctx.count("value-held_setup_refused")
                continue
            ctx.count("value-held_histories")
            if t in refused:
                ctx.count("value-held_histories_of_split_type")
            ck.held_type = type(obj.__dict__.get("x", h))
            mates = [e for e in entries if type(e[2]) is ck.held_type]
            if values is None:
                sweep = entries
            else:
                ids = {e[0] for e in mates}
                sweep = [e for e in entries if e[0] in values or e[0] in ids]
            n = 0
            for vid, cls, v in sweep:
                ck.pair(b1, vid, cls, v)
                n += 1
            ctx.count("pairs", n)
            ctx.count("value-held_pairs", n)
            # assignments: the mates of the held value, then a random walk
            walk = list(mates) + rng.sample(entries, min(nassign, len(entries)))
            rng.shuffle(walk)
            for vid, cls, v in walk:
                if v is Undefined:
                    # assigning Undefined is the documented way of storing it without
                    # validation; it is not a value the validators are asked about
                    ctx.count("value-held_assignments_of_Undefined_skipped")
                    continue
                ck.assign(b1, vid, cls, v)
    finally:
        ck.obj, ck.keytag, ck.twin, ck.twin_cache, ck.held_type = ck.base_obj, "", None, {}, None
        ctx.end()


# --------------------------------------------------------------------------
# forward-ref stratum: Instance / Supports / Type / TraitInstance members given by
# class NAME.  The class trait is defined, some objects exist, the FIRST resolution
# of the name happens along a chosen route, and then the differential sweep is made
# on the resolving object and on the other objects of the class (made before and
# after the resolution, with and without instance-level trait objects, of subclasses,
# carrying an unpickled copy).  See _c03_forwardref.py.
def _reaches(wrap, tokens):
    """Predicate: does this value carry, where the by-name member sits, a value of
    (one of) the named class(es)?"""
    insts = tuple(getattr(LAT, t.split(":")[1]) for t in tokens if t.startswith("inst:"))
    clss = tuple(getattr(LAT, t.split(":")[1]) for t in tokens if t.startswith("cls:"))
    ints = any(t.startswith("int:") for t in tokens)

    def reaches(v):
        try:
            if wrap == "tuple2":
                if type(v) is not tuple or len(v) != 2:
                    return False
                v = v[1]
            elif wrap == "list":
                if type(v) is not list or len(v) != 1:
                    return False
                v = v[0]
            elif wrap == "dict":
                if type(v) is not dict or len(v) != 1:
                    return False
                v = next(iter(v.values()))
            if insts and type(v) in insts:
                return True
            if clss and isinstance(v, type) and issubclass(v, clss):
                return True
            return ints and type(v) is int
        except Exception:
            return False
    return reaches


def forward_ref_case(ctx, ck, i, entry, route, first, values, subset, nder, nassign):
    """values: swept on the resolving object and on an object made after the resolution;
    subset (one value per lattice class plus the classes the named classes live in): swept
    on the other users of the definition."""
    spec, wrap, tokens = entry
    case_id = "fwd:%d:%s:%s" % (i, route, first)
    if not ctx.begin(case_id, {"spec": spec, "route": route, "first_value": first}):
        return
    try:
        try:
            scene = FWD.Scene(mk(spec))
            got = scene.resolver_for(route)
        except Exception as e:  # noqa: BLE001 - counted; the gates notice a stratum that never runs
            ctx.count("forward-ref_unbuildable")
            ctx.note("forward-ref_unbuildable_example", "%r %s: %s: %s" % (spec, route, type(e).__name__, e))
            return
        if got is None:
            ctx.count("forward-ref_route_not_applicable")
            return
        form = FWD.form_of(spec)
        tw = FWD.resolved_twin(spec)
        twin = None
        if tw is not None:
            try:
                twin = Built(tw, None)
            except Exception:
                twin = None
        rng = ctx.rng("fwd", i, route, first)
        stranger = FWD.wrap_value(wrap, FWD.Stranger())
        accepted = [FWD.wrap_value(wrap, FWD.token_value(t)) for t in tokens]
        # the first value that reaches the by-name member(s): one the named class accepts, or
        # one nothing accepts; the stranger afterwards makes every remaining name resolve too
        firsts = ([accepted[rng.randrange(len(accepted))]] if first == "accepted" else []) + [stranger]
        obj, op = got
        scene.resolver = obj
        before = descriptor_of(obj.trait("x"))
        through = scene.resolve(route, obj, op, firsts)
        ctx.count("forward-ref_histories")
        ctx.count("forward-ref_histories/" + route)
        ctx.count("forward-ref_histories/first-value-" + first)
        ctx.count("forward-ref_resolved-on/" + scene.events[-1][1])
        if descriptor_of(through) != before:
            ctx.count("forward-ref_descriptor_replaced_by_resolution")
        if not scene.has_event_for(scene.class_trait):
            # the route ran through a copy with a handler of its own (unpickled; a subclass
            # redefining the default of a TraitType): the definition itself is resolved next, plainly
            o2, op2 = scene.resolver_for("assign-pristine")
            scene.resolve("assign-pristine", o2, op2, firsts)
            ctx.count("forward-ref_histories_resolving_a_separate_copy_first")
        ctx.count("specs")
        ck.keytag, ck.twin, ck.twin_cache, ck.assign_prefix = "forward-ref", twin, {}, "forward-ref"
        reaches = _reaches(wrap, tokens)
        extras = FWD.extra_values(wrap, ck.values, ctx.scale(2, 6))
        for tname, target, copied_from in scene.targets():
            ct = target.trait("x")
            if copied_from is None and not scene.has_event_for(ct):
                # this object uses a copy with a handler of its own that nothing has resolved
                # yet: it is resolved here, through the object itself
                scene.resolve("late", target, lambda v, o=target: setattr(o, "x", v), firsts)
                ctx.count("forward-ref_late_resolutions_of_separate_copies")
            try:
                b = Built(spec, None, ct=ct)
            except Exception:
                ctx.count("forward-ref_unbuildable")
                continue
            where, relation = scene.relation(ct, copied_from)
            ck.obj, ck.held_type = target, None
            ck.fwd = {"form": form, "where": where, "relation": relation, "route": route,
                      "trigger": first, "target": tname, "reaches": reaches}
            ctx.count("forward-ref_targets")
            ctx.count("forward-ref_targets/" + tname)
            ctx.count("forward-ref_targets/" + relation)
            ctx.count("forward-ref_targets_" + ("fast" if b.fast else "slow"))
            sweep = list(values if tname in ("resolver", "created-after") else subset) + extras
            sweep += [("accepted:%s" % t, "named-class", FWD.wrap_value(wrap, FWD.token_value(t))) for t in tokens]
            n = 0
            for vid, cls, v in sweep:
                if b.skip_bigidx and vid in ck.bigidx:
                    continue
                ck.pair(b, vid, cls, v)
                n += 1
            for vid, cls, v in ck.derived(b, rng, nder):
                ck.pair(b, vid, cls, v)
                n += 1
            ctx.count("pairs", n)
            # assignments: what the named class accepts, then a random walk
            walk = sweep[len(sweep) - len(tokens):] + rng.sample(sweep, min(nassign, len(sweep)))
            for vid, cls, v in walk:
                if v is Undefined:
                    continue
                ck.assign(b, vid, cls, v)
    finally:
        ck.obj, ck.keytag, ck.twin, ck.twin_cache = ck.base_obj, "", None, {}
        ck.fwd, ck.assign_prefix, ck.held_type = None, "value-held", None
        ctx.end()


def setup_adaptation():
    mgr = AdaptationManager()
    mgr.register_factory(LAT.XAdapter, LAT.Src, LAT.X)
    set_global_adaptation_manager(mgr)


def run(ctx):
    setup_adaptation()
    ck = Checker(ctx)
    full = not ctx.quick
    nder = ctx.scale(48, 160)
    ctx.note("lattice_size", len(ck.values))
    ctx.note("lattice_classes", len({c for _, c, _ in ck.values}))

    def one(case_id, spec, expect_fast, rngkeys):
        if not ctx.begin(case_id, {"spec": spec}):
            return
        try:
            try:
                b = Built(spec, expect_fast)
            except Exception as e:  # noqa: BLE001 - an unbuildable random spec is skipped, counted
                ctx.count("unbuildable_specs")
                ctx.note("unbuildable_example", "%r: %s: %s" % (spec, type(e).__name__, e))
                return
            ctx.count("specs")
            n = ck.run_spec(b, ctx.rng(*rngkeys), nder)
            ctx.count("pairs", n)
            if b.alts is not None:
                ctx.count("compound_specs")
                if any(not a.fast for a in b.alts):
                    ctx.count("mixed_compound_specs")
                if len(b.alts) > b.top_alts:
                    ctx.count("nested_compound_specs")
                seen_slow = False
                for a in b.alts:
                    if not a.fast:
                        seen_slow = True
                    elif seen_slow:
                        ctx.count("nested_slow_before_fast_specs")
                        break
            if len(ctx.samples) < 2 and n:
                ctx.sample({"spec": spec, "descriptor": short(descriptor_of(b.ct), 160),
                            "values": n, "kind": b.kind})
        finally:
            ctx.end()

    # ---- atomic catalogue ---------------------------------------------------
    for i, (spec, expect_fast) in enumerate(atomic_specs(full)):
        if ctx.mine(i):
            one("atom:%d" % i, spec, expect_fast, ("atom", i))
    # ---- fixed compounds (contain the strata of the known findings) ------------
    for i, spec in enumerate(fixed_compounds()):
        if ctx.mine(i + 5):
            one("fixed:%d" % i, spec, None, ("fixed", i))
    # ---- stratum: nested compounds mixing slow inner members with later fast ones ----
    for i, spec in enumerate(nested_mixed_compounds()):
        if ctx.mine(i + 3):
            one("nested:%d" % i, spec, None, ("nested", i))
    # ---- history strata (own keys: sub-check@history/...) ------------------------------
    for i, scen in enumerate(ADAPT_SCENARIOS):
        if ctx.mine(i + 7):
            adapt_swap_case(ctx, ck, scen, 16)
    for i, scen in enumerate(MAP_SCENARIOS):
        if ctx.mine(i + 13):
            map_live_case(ctx, ck, scen, 16)
    reps, seen = set(), set()
    for vid, cls, v in ck.values:
        if cls not in seen:
            seen.add(cls)
            reps.add(vid)
    # ---- value-held stratum (own keys: sub-check@value-held/...) ----------------------
    held = [sp for sp, fast in atomic_specs(full) if fast] + fixed_compounds()
    for i, spec in enumerate(held):
        if not ctx.mine(i + 9):
            continue
        if ctx.quick and spec[0] in ("Either", "Trait") and (i + ctx.seed) % 3:
            continue
        held_case(ctx, ck, i, spec, ("class", "instance")[i % 2], ctx.scale(2, 8), ctx.scale(10, 60),
                  reps if ctx.quick else None)
    # ---- forward-ref stratum (own keys: forward-ref/<skeleton>/resolved-on-<where>/<relation>/...) ----
    fcat = FWD.catalogue()
    fsub, per = [], {}
    for e in ck.values:
        if e[0] in reps:
            fsub.append(e)
        elif e[1] in FWD.RELEVANT and per.get(e[1], 0) < 2:
            per[e[1]] = per.get(e[1], 0) + 1
            fsub.append(e)
    fvals = ck.values if full else fsub
    nroutes = len(FWD.ROUTES)
    k = 0
    for i, entry in enumerate(fcat):
        for j, route in enumerate(FWD.ROUTES):
            for f, first in enumerate(("accepted", "refused")):
                k += 1
                # quick: two routes per spec, one per kind of first value; which ones rotates
                # with the spec and the seed (thorough: every spec x route x first value)
                if ctx.quick and (i + j + ctx.seed + 4 * f) % nroutes:
                    continue
                if not ctx.mine(k + 4):
                    continue
                forward_ref_case(ctx, ck, i, entry, route, first, fvals, fsub, ctx.scale(6, 24),
                                 ctx.scale(8, 40))
    # ---- copy stratum (own keys: sub-check@copied:<how>/...) ---------------------------
    cat = [sp for sp, _ in atomic_specs(False)] + fixed_compounds() + nested_mixed_compounds()
    for i, spec in enumerate(cat):
        if not ctx.mine(i + 2):
            continue
        if full:
            modes, values = COPY_PICKLE + COPY_OTHER, None
        else:
            k = i + ctx.seed
            modes = [COPY_PICKLE[k % len(COPY_PICKLE)], COPY_OTHER[i % 5], COPY_OTHER[(i + 2) % 5],
                     COPY_PICKLE[(k + 3) % len(COPY_PICKLE)]]
            values = [e for j, e in enumerate(ck.values) if e[0] in reps or j % 3 == i % 3]
        copied_case(ctx, ck, i, spec, modes, values, ctx.scale(12, 40))
    # ---- seeded random compounds -------------------------------------------------
    pool_w = member_pool()
    pool = [p for p, _ in pool_w]
    weights = [w for _, w in pool_w]
    ncomp = ctx.scale(300, 10000)
    for i in range(ncomp):
        if not ctx.mine(i + 11):
            continue
        rng = ctx.rng("compound", i)
        spec = random_compound(rng, pool, weights)
        one("cmp:%d" % i, spec, None, ("cmpv", i))
