"""C10 stratum "failhook": a hook fails WHILE a default is being materialised.

Statement: "the first read of a trait that was never assigned returns its declared default (...
factory result, or the result of the _name_default method, which runs at most once per instance and
attribute) ...; later reads return the same object."  The main histories only ever see default
materialisations that succeed.  Here something that runs during the materialisation raises, and the
attribute is then read again and again:

  hooks (ENUMERATED, every one against every default kind it can be attached to)
    observe-nested          observe(h, trait(n).trait("value")): the default value has no trait `value`
                            (a HasTraits / HasStrictTraits object without it, a list, a dict, an int)
    observe-items-nested    observe(h, trait(n).list_items().trait("value")): the items of the default lack it
    observe-items-on-plain  observe(h, trait(n).list_items() / dict_items() / set_items()): the default is a
                            plain container of another kind
    observe-decorator       the same nested expression as a class-level @observe method
    property-observe        a cached Property(observe="n.value") of the same class
    legacy-nested           on_trait_change(h, "n.value") with reraise_exceptions on / off (the registration
                            itself performs the first read of a default that is not a HasTraits object)
    post-setattr            a TraitType whose post_setattr raises always / on its first call only
    none                    control
  default kinds: _n_default methods returning a HasTraits object / a strict one / list / dict /
    list of HasTraits / int, Instance(X, ()), Any(factory=..), List / Dict / Any([..]) static defaults,
    post_setattr trait types with a method default and a List subclass with a static default
  periods: never assigned since construction; assigned then `del`; assigned then reset_traits([n])
  siblings: a second instance of the same class with or without the same hook, read in between.

Judged per (instance, attribute, unassigned period) -- whatever raised:
  * the default method ran at most once, the factory / Instance(X, ()) constructor at most once;
  * every read that RETURNS returns the same object (before and after the hook is disarmed), and it
    is the declared default;
  * the object a post_setattr hook was first given is the object reads return;
  * the sibling is untouched: its own default is computed at most once, is not the target's object,
    and reading it raises only if the sibling carries a failing hook itself.
Whether the failing read itself raises is NOT judged (observing a missing trait is a user error).

Mechanism keys: failhook/<what>/<hook>/<default family>/<period>.
"""
import warnings

from traits.api import (HasTraits, HasStrictTraits, Any, Int, Str, List, Dict, Instance, Property, TraitType,
                        observe, cached_property, push_exception_handler, pop_exception_handler)
from traits.observation.api import trait as obs_trait

from vf.util import short


class Leaf(HasTraits):
    value = Int(0)


COUNT = {"plain": 0, "fac": 0}


class Plain(HasTraits):
    other = Int(0)

    def __init__(self, **kw):
        COUNT["plain"] += 1
        super().__init__(**kw)


class Strict(HasStrictTraits):
    other = Int(0)


def fac_factory():
    COUNT["fac"] += 1
    return {"f": 1}


class Hub:
    def reset(self):
        self.dcalls = {}
        self.ps = []              # (object tag, name, value) of every post_setattr call
        self.ps_policy = "never"
        self.ps_calls = 0
        self.tags = {}

    def tag(self, obj):
        return self.tags.get(id(obj), "?")

    def dcall(self, obj, name):
        k = (self.tag(obj), name)
        self.dcalls[k] = self.dcalls.get(k, 0) + 1

    def post_setattr(self, obj, name, value):
        self.ps.append((self.tag(obj), name, value))
        self.ps_calls += 1
        if self.ps_policy == "always" or (self.ps_policy == "first-only" and self.ps_calls == 1):
            raise RuntimeError("post_setattr refuses")


HUB = Hub()
HUB.reset()


class PSAny(TraitType):
    def post_setattr(self, obj, name, value):
        HUB.post_setattr(obj, name, value)


class PSList(List):
    def post_setattr(self, obj, name, value):
        HUB.post_setattr(obj, name, value)


# name -> (family, counter, plain default, kind of value the default is)
KINDS = {
    "m_inst":   ("method", "method", ("Plain",), "hastraits"),
    "m_strict": ("method", "method", ("Strict",), "hastraits"),
    "m_list":   ("method", "method", [1, 2], "plain-list"),
    "m_dict":   ("method", "method", {"a": 1}, "plain-dict"),
    "m_tlist":  ("method", "method", [("Plain",)], "trait-list"),
    "m_int":    ("method", "method", 11, "scalar"),
    "ca_inst":  ("callable-and-args", "plain", ("Plain",), "hastraits"),
    "fac":      ("callable-and-args", "fac", {"f": 1}, "plain-dict"),
    "s_list":   ("container-object", None, [1, 2], "trait-list"),
    "s_dict":   ("container-object", None, {"a": 1}, "trait-dict"),
    "s_any":    ("copy", None, [1, 2], "plain-list"),
    "ps_m":     ("method", "method", [7], "plain-list"),
    "ps_l":     ("container-object", None, [1, 2], "trait-list"),
}
PS_KINDS = ("ps_m", "ps_l")


def norm(v):
    if isinstance(v, Plain):
        return ("Plain",)
    if isinstance(v, Strict):
        return ("Strict",)
    if isinstance(v, list):
        return [norm(x) for x in v]
    if isinstance(v, dict):
        return {k: norm(x) for k, x in v.items()}
    return v


def build(decorated=None, prop=None):
    """A fresh Owner class.  decorated: name whose `.value` a class-level @observe method follows;
    prop: name whose `.value` a cached property depends on."""
    hub = HUB
    with warnings.catch_warnings():
        warnings.simplefilter("ignore")

        class Owner(HasTraits):
            m_inst = Instance(HasTraits)
            m_strict = Instance(HasTraits)
            m_list = Any
            m_dict = Any
            m_tlist = List(Instance(HasTraits))
            m_int = Int
            ca_inst = Instance(Plain, ())
            fac = Any(factory=fac_factory)
            s_list = List(Int, [1, 2])
            s_dict = Dict(Str, Int, {"a": 1})
            s_any = Any([1, 2])
            ps_m = PSAny()
            ps_l = PSList(Int, [1, 2])
            seen = Any

            def _m_inst_default(self):
                hub.dcall(self, "m_inst")
                return Plain()

            def _m_strict_default(self):
                hub.dcall(self, "m_strict")
                return Strict()

            def _m_list_default(self):
                hub.dcall(self, "m_list")
                return [1, 2]

            def _m_dict_default(self):
                hub.dcall(self, "m_dict")
                return {"a": 1}

            def _m_tlist_default(self):
                hub.dcall(self, "m_tlist")
                return [Plain()]

            def _m_int_default(self):
                hub.dcall(self, "m_int")
                return 11

            def _ps_m_default(self):
                hub.dcall(self, "ps_m")
                return [7]

            if decorated:
                @observe(obs_trait(decorated).trait("value"))
                def _follow(self, event):
                    pass

            if prop:
                total = Property(Int, observe=obs_trait(prop).trait("value"))

                @cached_property
                def _get_total(self):
                    return 1

    return Owner


# hook -> names it is attached to
HOOKS = {
    "none": tuple(KINDS),
    "observe-nested": ("m_inst", "m_strict", "m_list", "m_dict", "m_tlist", "m_int", "ca_inst", "fac",
                       "s_list", "s_dict", "s_any"),
    "observe-items-nested": ("m_tlist", "s_list"),
    "observe-items-on-plain": ("m_list", "m_dict", "fac", "s_any", "m_tlist", "s_dict"),
    "observe-decorator": ("m_inst", "m_strict", "m_list", "m_tlist", "ca_inst", "fac", "s_list", "s_any"),
    "property-observe": ("m_inst", "m_list", "m_tlist", "ca_inst", "s_list"),
    "legacy-nested/reraise": ("m_list", "m_dict", "m_int", "fac", "s_any", "m_inst", "m_strict", "ca_inst"),
    "legacy-nested/swallow": ("m_list", "m_dict", "m_int", "fac", "s_any", "m_inst", "m_strict"),
    "post-setattr/always": PS_KINDS,
    "post-setattr/first-only": PS_KINDS,
}
PERIODS = ("fresh", "after-del", "after-reset")
SIBLINGS = ("plain", "hooked")


def cases():
    out = []
    for hook in HOOKS:
        for n in HOOKS[hook]:
            for period in PERIODS:
                for sib in SIBLINGS:
                    if hook in ("none", "observe-decorator", "property-observe") and sib == "hooked":
                        continue        # class-level hooks / no hook: both instances are alike anyway
                    out.append((hook, n, period, sib))
    return out


def _ignore(*a, **k):
    pass


class Violation(Exception):
    pass


class Case:
    def __init__(self, ctx, hook, n, period, sib, rng):
        self.ctx = ctx
        self.hook, self.n, self.period, self.sib, self.rng = hook, n, period, sib, rng
        self.trace = []
        self.fam = KINDS[n][0]

    def fail(self, what, msg, **extra):
        key = "failhook/%s/%s/%s/%s" % (what, self.hook, self.fam, self.period)
        w = {"hook": self.hook, "name": self.n, "period": self.period, "sibling": self.sib, "trace": self.trace}
        w.update(extra)
        self.ctx.violation(key, "%s | hook %s on %s (%s), %s" % (msg, self.hook, self.n, self.fam, self.period), w)
        raise Violation(key)

    # -- hooks -----------------------------------------------------------------------------------
    def arm(self, o):
        """Attach the hook to o.  Returns a disarm callable (never raises)."""
        n = self.n
        hook = self.hook
        undo = []
        try:
            if hook == "observe-nested":
                expr = obs_trait(n).trait("value")
            elif hook == "observe-items-nested":
                expr = obs_trait(n).list_items().trait("value")
            elif hook == "observe-items-on-plain":
                kind = KINDS[n][3]
                t = obs_trait(n)
                expr = t.dict_items() if kind in ("plain-list", "trait-list") else t.list_items()
                if self.rng.random() < 0.3:
                    expr = t.set_items()
            else:
                expr = None
            if expr is not None:
                o.observe(_ignore, expr)
                undo.append(lambda: o.observe(_ignore, expr, remove=True))
            elif hook.startswith("legacy-nested"):
                o.on_trait_change(_legacy, n + ".value")
                undo.append(lambda: o.on_trait_change(_legacy, n + ".value", remove=True))
        except Exception as e:
            self.trace.append(("arm-raised", type(e).__name__))
            self.ctx.count("failhook_registrations_raised")
            self.ctx.count("failhook_registrations_raised/%s/%s" % (self.hook, self.period))

        def disarm():
            for u in undo:
                try:
                    u()
                except Exception as e:
                    self.trace.append(("disarm-raised", type(e).__name__))
        return disarm

    # -- reads -------------------------------------------------------------------------------------
    def read(self, o, tag, got):
        try:
            v = getattr(o, self.n)
        except Exception as e:
            self.trace.append((tag, "read-raised", type(e).__name__))
            self.ctx.count("failhook_reads_raised")
            return False
        self.trace.append((tag, "read-ok"))
        got.append(v)
        self.ctx.count("failhook_reads_returned")
        return True

    def judge(self, tag, got, runs0, delta, ps_first):
        n = self.n
        fam, counter, plain, _ = KINDS[n]
        ctx = self.ctx
        if counter == "method":
            runs = HUB.dcalls.get((tag, n), 0) - runs0
            if runs > 1:
                self.fail("default-method-ran-more-than-once",
                          "_%s_default of instance %s ran %d times in one never-assigned period" % (n, tag, runs),
                          who=tag)
        for c in ("plain", "fac"):
            lim = 1 if counter == c or (c == "plain" and n in ("m_inst", "m_tlist")) else 0
            if delta[c] > lim:
                self.fail("default-factory-ran-more-than-once",
                          "the %s constructor / factory ran %d times while instance %s read %s"
                          % (c, delta[c], tag, n), who=tag)
        for v in got:
            if v is not got[0]:
                self.fail("later-read-not-identical",
                          "reads of %s.%s returned different objects (%s then %s)"
                          % (tag, n, short(norm(got[0]), 40), short(norm(v), 40)), who=tag)
            if norm(v) != plain:
                self.fail("wrong-default", "%s.%s reads %s, declared default is %s"
                          % (tag, n, short(norm(v), 40), short(plain, 40)), who=tag)
        if got and ps_first is not None and ps_first is not got[0]:
            self.fail("hook-was-given-another-object",
                      "post_setattr of %s.%s was first given an object that reads do not return" % (tag, n),
                      who=tag)
        ctx.ev()
        ctx.count("failhook_period_checks")

    def run(self):
        ctx = self.ctx
        n = self.n
        hook = self.hook
        HUB.reset()
        Owner = build(decorated=n if hook == "observe-decorator" else None,
                      prop=n if hook == "property-observe" else None)
        reraise = hook == "legacy-nested/reraise"
        if reraise:
            push_exception_handler(handler=_ignore, reraise_exceptions=True)
        try:
            A = Owner()
            B = Owner()
            HUB.tags[id(A)] = "A"
            HUB.tags[id(B)] = "B"
            if hook.startswith("post-setattr"):
                HUB.ps_policy = "never"
            disarm_a = disarm_b = (lambda: None)
            if self.period == "fresh":
                disarm_a = self.arm(A)
                if self.sib == "hooked":
                    disarm_b = self.arm(B)
            else:
                # a stored value first, then back to "never assigned".  Where a value exists on which
                # the hook can be registered it is assigned first; otherwise the hook is registered on the
                # untouched instance and the assignment (which may then fail in the hook) follows.
                compat = self.compatible_value()
                if compat is None:
                    disarm_a = self.arm(A)
                    if self.sib == "hooked":
                        disarm_b = self.arm(B)
                for o in (A, B):
                    try:
                        setattr(o, n, self.compatible_value() if compat is not None else self.valid_value())
                    except Exception as e:
                        self.trace.append(("assign-raised", type(e).__name__))
                        ctx.count("failhook_assignments_raised")
                if compat is not None:
                    disarm_a = self.arm(A)
                    if self.sib == "hooked":
                        disarm_b = self.arm(B)
            if hook.startswith("post-setattr"):
                HUB.ps_policy = hook.split("/")[1]
            HUB.ps_calls = 0
            del HUB.ps[:]
            runs0 = {t: HUB.dcalls.get((t, n), 0) for t in "AB"}
            if self.period != "fresh":
                for o, t in ((A, "A"), (B, "B")):
                    try:
                        if self.period == "after-del":
                            delattr(o, n)
                        else:
                            o.reset_traits([n])
                    except Exception as e:
                        self.trace.append((t, "reset-raised", type(e).__name__))
                        ctx.count("failhook_resets_raised")
            got_a, got_b = [], []
            cnt0 = dict(COUNT)
            first_ok = self.read(A, "A", got_a)
            if not first_ok:
                ctx.count("failhook_first_reads_raised")
                ctx.count("failhook_first_reads_raised/" + hook)
            for _ in range(self.rng.randint(1, 3)):
                self.read(A, "A", got_a)
            cnt1 = dict(COUNT)
            # the sibling in between
            b_ok = self.read(B, "B", got_b)
            self.read(B, "B", got_b)
            cnt2 = dict(COUNT)
            if not b_ok and self.sib == "plain" and hook not in ("observe-decorator", "property-observe") \
                    and not hook.startswith("post-setattr"):
                self.fail("sibling-read-raised", "reading the sibling's %s raised although only the target "
                          "carries the hook" % n)
            self.read(A, "A", got_a)
            cnt3 = dict(COUNT)
            # disarm and read again
            disarm_a()
            disarm_b()
            HUB.ps_policy = "never"
            if reraise:
                pop_exception_handler()
                reraise = False
            for _ in range(2):
                self.read(A, "A", got_a)
            cnt4 = dict(COUNT)
            for _ in range(2):
                self.read(B, "B", got_b)
            cnt5 = dict(COUNT)
            if got_a:
                ctx.count("failhook_periods_with_a_returned_read")
            ps_a = [x for x in HUB.ps if x[0] == "A" and x[1] == n]
            ps_b = [x for x in HUB.ps if x[0] == "B" and x[1] == n]
            # constructor / factory runs during the reads of A, and during the reads of B
            a_cnt = {c: (cnt1[c] - cnt0[c]) + (cnt3[c] - cnt2[c]) + (cnt4[c] - cnt3[c]) for c in COUNT}
            b_cnt = {c: (cnt2[c] - cnt1[c]) + (cnt5[c] - cnt4[c]) for c in COUNT}
            self.judge("A", got_a, runs0["A"], a_cnt, ps_a[0][2] if ps_a else None)
            self.judge("B", got_b, runs0["B"], b_cnt, ps_b[0][2] if ps_b else None)
            if got_a and got_b and not isinstance(got_a[0], (int, str)) and got_a[0] is got_b[0]:
                self.fail("shared-default-between-instances", "target and sibling read the same object for %s" % n)
            ctx.count("failhook_cases")
            ctx.count("failhook_cases/" + hook)
            ctx.sig("failhook", hook, n, self.period, self.sib, tuple(x[1:] for x in self.trace if len(x) > 1)[:12])
        finally:
            if reraise:
                pop_exception_handler()

    def compatible_value(self):
        """A value of the trait on which the case's hook registers without failing, or None."""
        n = self.n
        hook = self.hook
        if hook == "none" or hook.startswith("post-setattr"):
            return self.valid_value()
        if hook in ("observe-nested", "observe-decorator", "property-observe") or hook.startswith("legacy"):
            return Leaf() if n in ("m_inst", "m_strict", "m_list", "m_dict", "fac", "s_any") else None
        if hook == "observe-items-nested":
            return [Leaf()] if n == "m_tlist" else None
        return None

    def valid_value(self):
        n = self.n
        kind = KINDS[n][3]
        if n in ("m_inst", "m_strict"):
            return Leaf()
        if n == "ca_inst":
            return Plain()
        if n == "m_tlist":
            return [Leaf()]
        if n == "m_int":
            return 5
        if kind in ("plain-list", "trait-list"):
            return [5]
        return {"z": 5}


def _legacy(obj, name, old, new):
    pass


def run(ctx, excs):
    """excs: callable returning the list the exception handlers installed by c10.run append to
    (failing hooks report there when they do not propagate: not judged, only cleared)."""
    allc = cases()
    reps = ctx.scale(1, 12)
    k = 0
    for rep in range(reps):
        for ci, (hook, n, period, sib) in enumerate(allc):
            k += 1
            if not ctx.mine(k):
                continue
            if not ctx.begin("failhook:%d:%s:%s:%s:%s" % (rep, hook, n, period, sib)):
                continue
            try:
                C = Case(ctx, hook, n, period, sib, ctx.rng("failhook", rep, ci))
                try:
                    C.run()
                except Violation:
                    pass
                except Exception as e:
                    import traceback
                    try:
                        C.fail("unexpected-exception/%s" % type(e).__name__, "%r escaped" % (e,),
                               traceback=traceback.format_exc()[-1500:])
                    except Violation:
                        pass
                del excs()[:]
                if rep == 0 and ci % 97 == 0:
                    ctx.sample({"stratum": "failhook", "case": [hook, n, period, sib], "trace": C.trace[:10]})
            finally:
                ctx.end()
