"""C05 -- TraitList refines list; events are faithful normalized deltas.

Oracle: a plain `list` receiving the same operation on the validated items,
plus the replay law on the (index, removed, added) notifications seen by a raw
notifier.  Exhaustive over small lengths / indices / slices, then random
histories for state dependence.  See DESIGN.md section 4 / C05.
"""
import decimal
import fractions
import itertools
import numbers
import operator
import sys

try:
    import numpy as np
except Exception:          # the numpy representatives are skipped (their gate then fails)
    np = None

from traits.api import HasTraits, List, Instance, TraitError
from traits.trait_list_object import TraitList
import traits.trait_list_object as tlo_mod

META = {
    "level": "exploration",
    "rule": ("cases = (list length, operation, every int index in [-L-2,L+2] / every slice with "
             "start,stop in {None}U[-L-2,L+2] and step in {None,0,+-1,+-2,+-3,+-(L+1)}, replacement "
             "lists of length 0..L+1 with an invalid item at each position) x 4 list flavours "
             "(TraitList without validator / rejecting / coercing validator, TraitListObject of a "
             "List(Instance) trait), enumerated exhaustively for L<=Lmax, plus random 25-op "
             "histories (items include equal-but-distinct twins and NaN-likes), plus histories in "
             "which a listener reacts to an event with 1-3 further operations on the same list "
             "while a mirror registered first rebuilds the contents from the events it receives, plus "
             "the odd-argument strata: every operation taking a position / count / multiplier "
             "(t[k]=x, del t[k], insert, pop, *=, sort(reverse=), and each of start / stop / step of "
             "a slice in assignment and deletion) given every value of a catalogue of non-int "
             "arguments (None, floats incl. integral ones, nan, +-inf, bool, Fraction, Decimal, str, "
             "bytes, tuple, list, slice, complex, objects whose __index__ returns in-range / "
             "out-of-range / huge / non-int values or raises, int subclasses, numpy integers / "
             "floats / bools, ints beyond the size range) on lists of length 0..Lodd in all 7 "
             "flavours, with the built-in list deciding acceptance, exception class and "
             "'untouched on failure', and 25-op histories in which about half of the operations "
             "carry such an argument (odd_* counters; combinations hitting an open finding run in "
             "their own strata oddx-index / oddx-step / oddx-inf). "
             "distinct_nontrivial counts distinct (flavour, op, index-shape class, "
             "outcome class, event-shape class) signatures of cases in which the list changed, an "
             "event was emitted or an exception was raised."),
    "phases": [{"name": "main", "flavour": "P", "shards": 16}],
    "gates": {
        "quick": {"evaluations": 200000, "events_replayed": 50000, "failures_checked": 20000,
                  "slice_events": 2000, "history_ops": 20000, "unwatched_evaluations": 30000,
                  "twin_ops": 3000, "reent_outer_ops": 8000, "reent_reactions": 6000,
                  "reent_ops_with_two_or_more_reactions": 2000, "reent_events_replayed": 10000,
                  "odd_evaluations": 50000, "odd_list_raises": 45000, "odd_list_accepts": 20000,
                  "odd_slice_component_evaluations": 40000, "odd_numpy_evaluations": 10000,
                  "odd_history_ops": 15000, "odd_reserved_index_evaluations": 1000,
                  "odd_reserved_step_evaluations": 250, "odd_reserved_inf_evaluations": 4},
        "thorough": {"evaluations": 10000000, "events_replayed": 3000000, "failures_checked": 1000000,
                     "slice_events": 100000, "history_ops": 3000000,
                     "unwatched_evaluations": 800000, "twin_ops": 150000,
                     "reent_outer_ops": 800000, "reent_reactions": 600000,
                     "reent_ops_with_two_or_more_reactions": 200000,
                     "reent_events_replayed": 1000000,
                     "odd_evaluations": 80000, "odd_list_raises": 900000, "odd_list_accepts": 400000,
                     "odd_slice_component_evaluations": 60000, "odd_numpy_evaluations": 18000,
                     "odd_history_ops": 1200000, "odd_reserved_index_evaluations": 1800,
                     "odd_reserved_step_evaluations": 400, "odd_reserved_inf_evaluations": 8},
    },
    "exhaustive_parts": "all single operations on lists of length 0..5 (quick) / 0..8 (thorough) "
                        "over the index/slice/replacement grid described in rule; every catalogued "
                        "odd-typed argument at every operation taking a position / count / multiplier "
                        "on lists of length 0..5 (quick) / 0..8 (thorough)",
    "assumptions": ["built-in list is the sequential specification",
                    "items are compared by identity; validators are pure functions"],
}


class V:
    __slots__ = ("n",)

    def __init__(self, n):
        self.n = n

    def __repr__(self):
        return "v%d" % self.n

    def __lt__(self, other):
        return self.n < other.n


class VN(V):
    """an item that is not equal to anything, itself included (NaN-like): list finds it by
    identity only"""
    __slots__ = ()

    def __eq__(self, other):
        return False

    __hash__ = object.__hash__

    def __repr__(self):
        return "vn%d" % self.n


class VE(V):
    """an item equal to every other VE with the same n: equal-but-distinct twins exist, so
    anything decided by == where the list decides by position / identity becomes visible"""
    __slots__ = ()

    def __eq__(self, other):
        return type(other) is VE and other.n == self.n

    def __hash__(self):
        return hash(self.n)

    def __repr__(self):
        return "ve%d" % self.n


def mkitem(i):
    return VN(i) if i % 3 == 2 else VE(i) if i % 3 == 1 else V(i)


def twin(x):
    """a distinct object standing in the same == relation to x as x's class defines: equal for
    VE, unequal for VN; a plain V has no twin (identity is its equality), it stands for itself"""
    if type(x) is VE:
        return VE(x.n)
    if type(x) is VN:
        return VN(x.n)
    return x


def resolve(op, before):
    """Twin ops are generated without knowing the contents; turn them into concrete ops on the
    list as it is now (the same concrete op then goes to the real list and to the model)."""
    name = op[0]
    L = len(before)
    if name == "setitem_twin":
        key = mk_key(op[1])
        if isinstance(key, slice):
            try:
                run = before[key]
            except ValueError:
                run = []
            return ("setitem", op[1], [twin(x) for x in run])
        return ("setitem", op[1], twin(before[key]) if -L <= key < L else V(777))
    if name == "append_twin":
        return ("append", twin(before[op[1] % L]) if L else V(778))
    if name == "insert_twin":
        return ("insert", op[1], twin(before[op[2] % L]) if L else V(779))
    if name == "extend_twin":
        return ("extend", [twin(x) for x in before])
    if name == "remove_twin":
        return ("remove_obj", twin(before[op[1] % L]) if L else DUMMY)
    return op


BAD = "BAD"
DUMMY = V(-999)
CANON = {i: V(1000 + i) for i in range(64)}


def v_none(x):
    return x


def v_reject(x):
    if x is BAD:
        raise TraitError("bad item")
    return x


def v_coerce(x):
    if x is BAD:
        raise TraitError("bad item")
    if type(x) is int:
        return CANON[x]
    return x


_INC = {}


def canon(n):
    v = _INC.get(n)
    if v is None:
        v = _INC[n] = V(n)
    return v


def v_inc(x):
    """deterministic but NOT idempotent: validating an already validated item changes it
    again, so any operation that re-validates stored items becomes visible"""
    if x is BAD:
        raise TraitError("bad item")
    return canon(x.n + 1)


class Holder(HasTraits):
    xs = List(Instance(V))


def v_tlo(x):
    if not isinstance(x, V):
        raise TraitError("bad item")
    return x


FLAVOURS = {
    "none": v_none, "reject": v_reject, "coerce": v_coerce, "tlo": v_tlo, "inc": v_inc,
    # the same validators on lists NOBODY listens to (judged on contents / return value /
    # exception class / failure atomicity only)
    "q-reject": v_reject, "q-coerce": v_coerce,
}


def make(flavour, items, events):
    def rec(tl, index, removed, added):
        events.append((index, list(removed), list(added)))
    if flavour == "tlo":
        h = Holder(xs=items)
        tl = h.xs
        tl.notifiers.append(rec)
        return tl, h
    if flavour.startswith("q-"):
        tl = TraitList(items, item_validator=FLAVOURS[flavour])
        if flavour == "q-coerce":
            import copy as _copy
            import pickle as _pickle
            # a copy (notifiers dropped, validator kept) continued as the main object
            tl = _pickle.loads(_pickle.dumps(tl)) if len(items) % 2 else _copy.copy(tl)
        return tl, None
    if flavour == "none":
        return TraitList(items, notifiers=[rec]), None
    return TraitList(items, item_validator=FLAVOURS[flavour], notifiers=[rec]), None


def mk_key(k):
    if isinstance(k, tuple):
        return slice(k[1], k[2], k[3])
    return k


def apply_op(target, op, validate):
    """Interpret op on `target` (a TraitList: validate=None; a model list:
    validate = validator applied to raw items first)."""
    name = op[0]
    v = validate if validate is not None else (lambda x: x)
    if name == "setitem":
        key = mk_key(op[1])
        if isinstance(key, slice):
            target[key] = [v(x) for x in op[2]]
        else:
            target[key] = v(op[2])
        return None
    if name == "delitem":
        del target[mk_key(op[1])]
        return None
    if name == "insert":
        return target.insert(op[1], v(op[2]))
    if name == "append":
        return target.append(v(op[1]))
    if name == "extend":
        return target.extend([v(x) for x in op[1]])
    if name == "iadd":
        r = target.__iadd__([v(x) for x in op[1]])
        return "SELF" if r is target else r
    if name == "imul":
        r = target.__imul__(op[1])
        return "SELF" if r is target else r
    if name == "pop":
        return target.pop(*op[1:])
    if name == "remove":
        if op[1] == "absent":
            return target.remove(DUMMY)
        j = op[1]
        return target.remove(target[j] if -len(target) <= j < len(target) else DUMMY)
    # the list itself as the argument: the real list gets ITSELF (aliasing), the model gets
    # the validated copy of its own contents
    if name == "extend_self":
        return target.extend(target if validate is None else [v(x) for x in list(target)])
    if name == "iadd_self":
        r = target.__iadd__(target if validate is None else [v(x) for x in list(target)])
        return "SELF" if r is target else r
    if name == "setitem_self":
        target[mk_key(op[1])] = target if validate is None else [v(x) for x in list(target)]
        return None
    if name == "remove_obj":
        return target.remove(op[1])
    # odd-typed arguments: the key is taken literally (a tuple is a tuple, not a slice spec)
    if name == "setitem_lit":
        target[op[1]] = v(op[2])
        return None
    if name == "delitem_lit":
        del target[op[1]]
        return None
    if name == "sort_rev":
        return target.sort(reverse=op[1])
    if name == "clear":
        return target.clear()
    if name == "reverse":
        return target.reverse()
    if name == "sort":
        kw = {}
        if op[1] == "neg":
            kw["key"] = lambda x: -x.n
        if op[1] == "mod2":            # ties: stability (also under reverse=True) is observable
            kw["key"] = lambda x: x.n % 2
        if op[1] == "const":
            kw["key"] = lambda x: 0
        if op[2]:
            kw["reverse"] = True
        return target.sort(**kw)
    raise AssertionError(op)


def raw_items(op):
    name = op[0]
    if name == "setitem":
        return list(op[2]) if isinstance(op[1], tuple) else [op[2]]
    if name in ("insert", "setitem_lit"):
        return [op[2]]
    if name == "append":
        return [op[1]]
    if name in ("extend", "iadd"):
        return list(op[1])
    return []


def replay_event(cur, ev):
    """Apply one event to list `cur` (in place); returns complaint or None."""
    idx, removed, added = ev
    n = len(cur)
    if isinstance(idx, slice):
        if not (type(idx.start) is int and type(idx.stop) is int and type(idx.step) is int):
            return "slice-not-normalized"
        if not (0 <= idx.start < idx.stop <= n and idx.step >= 2):
            return "slice-not-normalized"
        if [id(x) for x in cur[idx]] != [id(x) for x in removed]:
            return "removed-mismatch"
        if len(removed) < 2:
            return "slice-for-single-item"
        if added:
            if len(added) != len(removed):
                return "slice-event-unreplayable"
            cur[idx] = added
        else:
            del cur[idx]
        return None
    if type(idx) is not int or not (0 <= idx <= n):
        return "index-not-normalized"
    if [id(x) for x in cur[idx:idx + len(removed)]] != [id(x) for x in removed] \
            or idx + len(removed) > n:
        return "removed-mismatch"
    cur[idx:idx + len(removed)] = added
    return None


def idx_class(op, L):
    k = op[1] if len(op) > 1 else None
    if isinstance(k, tuple):
        st = k[3]
        return "slice:" + ("none" if st is None else "0" if st == 0 else
                           ("+" if st > 0 else "-") + ("1" if abs(st) == 1 else "n"))
    if type(k) is int:
        return "int:" + ("oob-" if k < -L else "neg" if k < 0 else "in" if k < L else
                         "end" if k == L else "oob+")
    return "-"


def check_one(ctx, flavour, tl, model, op, events, holder=None, odd=None, extra_ok=(), rekey=None):
    """Run op on tl and model, judge.  Returns complaint key or None.

    odd: class label of the odd-typed index / count / multiplier argument of op (odd strata);
    extra_ok: exception classes accepted besides the one the model raises; rekey: maps a
    complaint of a stratum reserved for an open finding to that finding's mechanism key."""
    validate = FLAVOURS[flavour]
    before = list(tl)
    L = len(before)
    del events[:]
    if op[0].endswith("_twin"):
        ctx.count("twin_ops")
        op = resolve(op, before)
    items = raw_items(op)
    bad = False
    for x in items:
        try:
            validate(x)
        except TraitError:
            bad = True
    soft = (lambda x: DUMMY if _invalid(validate, x) else validate(x))
    m2 = list(model)
    try:
        rm = ("ok", apply_op(m2, op, soft))
    except Exception as e:
        rm = ("exc", type(e))
    try:
        rr = ("ok", apply_op(tl, op, None))
    except Exception as e:
        rr = ("exc", type(e))
    after = list(tl)
    complaint = None
    if bad:
        allowed = {TraitError}
        if rm[0] == "exc":
            allowed.add(rm[1])
        if rr[0] != "exc":
            complaint = "invalid-item-accepted"
        elif rr[1] not in allowed:
            complaint = "wrong-exception-class"
        elif [id(x) for x in after] != [id(x) for x in before]:
            complaint = "changed-on-failure"
    elif rm[0] == "exc":
        if rr[0] != "exc":
            complaint = "list-raises-traitlist-does-not"
        elif rr[1] is not rm[1] and rr[1] not in extra_ok:
            complaint = "wrong-exception-class"
        elif [id(x) for x in after] != [id(x) for x in before]:
            complaint = "changed-on-failure"
    else:
        if rr[0] != "ok":
            complaint = "traitlist-raises-list-does-not"
        elif [id(x) for x in after] != [id(x) for x in m2]:
            complaint = "contents-differ"
        elif rr[1] is not rm[1] and rr[1] != rm[1]:
            complaint = "return-value-differs"
        else:
            model[:] = m2
    ctx.ev()
    changed = [id(x) for x in after] != [id(x) for x in before]
    if rr[0] == "exc":
        ctx.count("failures_checked")
    quiet = flavour.startswith("q-")
    if odd is not None:
        ctx.count("odd_list_raises" if rm[0] == "exc" else "odd_list_accepts")
        # "index is a non-negative integer": an integer-like position the operation was given
        # (True, an int subclass, a numpy integer) may come back as it is; judged by its value
        for n_, ev_ in enumerate(events):
            i_ = ev_[0]
            if type(i_) is not int and isinstance(i_, numbers.Integral):
                events[n_] = (operator.index(i_),) + tuple(ev_[1:])
                ctx.count("odd_events_with_integral_nonint_index")
    if quiet:
        ctx.count("unwatched_evaluations")
        if len(getattr(tl, "notifiers", ())) != 0:
            complaint = complaint or "notifier-appeared-on-unwatched-list"
    if complaint is None and not quiet:
        if changed and len(events) != 1:
            complaint = "changed-with-%s-events" % ("no" if not events else "several")
        else:
            cur = list(before)
            for ev in events:
                c = replay_event(cur, ev)
                ctx.count("events_replayed")
                if isinstance(ev[0], slice):
                    ctx.count("slice_events")
                if c:
                    complaint = c
                    break
            else:
                if [id(x) for x in cur] != [id(x) for x in after]:
                    complaint = "replay-differs-from-contents"
    if changed or events or rr[0] == "exc":
        evshape = tuple(("s" if isinstance(e[0], slice) else "i", min(len(e[1]), 3), min(len(e[2]), 3))
                        for e in events[:2])
        ctx.sig(flavour, op[0], idx_class(op, L) if odd is None else "odd:" + odd.split("+")[0], min(L, 3),
                rr[0] if rr[0] == "ok" else rr[1].__name__, evshape, bad)
    if complaint:
        key = "%s/%s" % (op[0] + ("-slice" if len(op) > 1 and isinstance(op[1], tuple) else ""), complaint)
        if odd is not None:
            key = "odd:%s%s[%s]/%s" % (op[0], "-slice" if "@" in odd else "", odd, complaint)
            if rekey is not None:
                key = rekey(complaint, rr, changed, events) or key
        ctx.violation(key, "%s on %s list of length %d: op=%r model=%r real=%r events=%r before=%r after=%r"
                      % (complaint, flavour, L, op, rm, rr, events[:3], before, after),
                      {"flavour": flavour, "before": before, "op": op, "events": events[:3],
                       "after": after, "model_outcome": rm, "real_outcome": rr})
    return complaint


def _invalid(validate, x):
    try:
        validate(x)
        return False
    except TraitError:
        return True


def single_ops(L, flavour):
    """Every single operation of the exhaustive grid for a list of length L."""
    idxs = list(range(-L - 2, L + 3))
    se = [None] + idxs
    steps = [None, 0, 1, -1, 2, -2, 3, -3, L + 1, -(L + 1)]
    coerce = flavour.endswith("coerce")

    def new(k):
        if coerce:
            return [(i if i % 2 else V(100 + i)) for i in range(k)]
        return [V(100 + i) for i in range(k)]
    has_bad = flavour != "none"
    N = new(1)[0]
    for i in idxs:
        yield ("setitem", i, N)
        if coerce:
            yield ("setitem", i, 7)
        if has_bad:
            yield ("setitem", i, BAD)
        yield ("delitem", i)
        yield ("insert", i, N)
        if has_bad:
            yield ("insert", i, BAD)
        yield ("pop", i)
    for k in (-2, -1, 0, 1, 2, 3):
        yield ("imul", k)
    for a, b, c in itertools.product(se, se, steps):
        s = ("s", a, b, c)
        yield ("delitem", s)
        for k in range(0, L + 2):
            v = new(k)
            yield ("setitem", s, v)
            if has_bad:
                for pos in range(k):
                    vb = list(v)
                    vb[pos] = BAD
                    yield ("setitem", s, vb)
    for k in range(0, 4):
        v = new(k)
        yield ("extend", v)
        yield ("iadd", v)
        if has_bad:
            for pos in range(k):
                vb = list(v)
                vb[pos] = BAD
                yield ("extend", vb)
                yield ("iadd", vb)
    yield ("append", N)
    if has_bad:
        yield ("append", BAD)
    yield ("clear",)
    yield ("reverse",)
    for kind in ("none", "neg", "mod2", "const"):
        for rev in (False, True):
            yield ("sort", kind, rev)
    # the list itself as the argument (aliasing between the argument and the target)
    yield ("extend_self",)
    yield ("iadd_self",)
    for a, b, c in itertools.product(se, se, (None, 1, -1, 2)):
        yield ("setitem_self", ("s", a, b, c))
    yield ("pop",)
    for j in range(L):
        yield ("remove", j)
        # equal-but-distinct twins of stored items as arguments
        yield ("remove_twin", j)
        yield ("append_twin", j)
        yield ("setitem_twin", j)
        yield ("setitem_twin", j - L)
        yield ("insert_twin", 0, j)
        yield ("insert_twin", j, j)
    yield ("extend_twin",)
    for a, b, c in itertools.product(se, se, (None, 1, -1, 2, -2, 3)):
        yield ("setitem_twin", ("s", a, b, c))
    yield ("remove", "absent")


def random_op(rng, L, flavour):
    coerce = flavour.endswith("coerce")
    has_bad = flavour != "none"

    def item():
        r = rng.random()
        if has_bad and r < 0.08:
            return BAD
        if coerce and r < 0.5:
            return rng.randrange(64)
        return V(rng.randrange(10 ** 6))

    def idx():
        return rng.randint(-L - 2, L + 2)

    def sl():
        def e():
            return None if rng.random() < 0.25 else rng.randint(-L - 2, L + 2)
        st = rng.choice([None, None, 1, 1, -1, 2, -2, 3, -3, L + 1, -(L + 1), 0, 5])
        return ("s", e(), e(), st)
    c = rng.randrange(18)
    if c == 0:
        return ("setitem", idx(), item())
    if c in (1, 2):
        return ("setitem", sl(), [item() for _ in range(rng.randint(0, 4))])
    if c == 3:
        # extended slice with the right number of items (so it succeeds often)
        s = sl()
        try:
            n = len(range(L)[slice(s[1], s[2], s[3])])
        except ValueError:
            n = 0
        return ("setitem", s, [item() for _ in range(n)])
    if c == 4:
        return ("delitem", idx())
    if c == 5:
        return ("delitem", sl())
    if c == 6:
        return ("insert", idx(), item())
    if c in (7, 8):
        return ("append", item())
    if c == 9:
        return ("extend", [item() for _ in range(rng.randint(0, 3))])
    if c == 10:
        return ("iadd", [item() for _ in range(rng.randint(0, 3))])
    if c == 11:
        return ("imul", rng.choice([-1, 0, 1, 2, 2, 3]) if L < 40 else 1)
    if c == 12:
        return ("pop", idx()) if rng.random() < 0.7 else ("pop",)
    if c == 13:
        return ("remove", rng.randrange(L) if L and rng.random() < 0.8 else "absent")
    if c == 14:
        return rng.choice([("reverse",), ("sort", "none", False), ("sort", "neg", False),
                           ("sort", "none", True), ("clear",), ("sort", "mod2", True),
                           ("sort", "mod2", False), ("sort", "const", True), ("extend_self",),
                           ("iadd_self",), ("setitem_self", sl())])
    if c == 15:
        return ("setitem", ("s", idx(), idx(), None), [item() for _ in range(rng.randint(0, 3))])
    if rng.random() < 0.7:
        return rng.choice([("setitem_twin", sl()), ("setitem_twin", sl()), ("setitem_twin", idx()),
                           ("append_twin", rng.randrange(64)), ("insert_twin", idx(), rng.randrange(64)),
                           ("remove_twin", rng.randrange(64)), ("extend_twin",)])
    return ("append", item())


# ---- odd-typed index / count / multiplier arguments -------------------------------------------
# Every operation that takes a position, a count or a multiplier also receives values that are
# not plain ints.  The built-in list decides what happens (which of them it reads as integers
# through the index protocol, which exception class it raises for the others); the TraitList
# has to hold the same contents, raise the same class and be untouched where the list raises.

class IndexOnly:
    """implements the index protocol and nothing else (no ordering, no arithmetic).  `v` is the
    value __index__ returns, or an exception class it raises"""
    __slots__ = ("v",)

    def __init__(self, v):
        self.v = v

    def __index__(self):
        if isinstance(self.v, type):
            raise self.v("index protocol refuses")
        return self.v

    def __repr__(self):
        return "IndexOnly(%s)" % (self.v.__name__ if isinstance(self.v, type) else repr(self.v))


class SubInt(int):
    pass


class SubIntOwnIndex(int):
    """an int subclass whose __index__ disagrees with its value (list reads the value)"""

    def __index__(self):
        return 0


def _odd_values():
    out = []

    def add(cls, *vals):
        out.extend((cls, v) for v in vals)
    nan, inf = float("nan"), float("inf")
    add("none", None)
    add("float", 0.5, 1.0, 2.0, 2.5, -1.0, 0.0, -0.0, 1e300, nan, inf, -inf)
    add("bool", True, False)
    F, D = fractions.Fraction, decimal.Decimal
    add("rational", F(1, 2), F(2), F(-1, 3), F(0), F(5, 2), D("0.25"), D(3), D(-1), D(0), D("2.5"))
    add("text", "1", "", "-1", b"1", b"")
    add("sequence", (), (0,), (1, 2), [0], [])
    add("other", 1j, Ellipsis, slice(None), slice(0, 1), range(2), {}, object())
    add("index-object", *[IndexOnly(n) for n in (0, 1, 2, -1, -2, 7, -9, 2 ** 70, -2 ** 70)])
    add("index-object-bad", IndexOnly(1.0), IndexOnly(None), IndexOnly("1"), IndexOnly(ValueError),
        IndexOnly(TypeError), IndexOnly(ZeroDivisionError))
    add("int-subclass", SubInt(0), SubInt(1), SubInt(-1), SubInt(2), SubInt(9), SubInt(-7),
        SubIntOwnIndex(1), SubIntOwnIndex(-1), SubInt(2 ** 64))
    add("huge-int", 2 ** 63, 2 ** 64, -2 ** 63 - 1, 10 ** 30, -10 ** 30, 2 ** 63 - 1, -2 ** 63)
    if np is not None:
        add("numpy-int", np.int8(1), np.int64(-1), np.uint8(2), np.int64(0), np.int32(7), np.int16(-9),
            np.uint64(3), np.intp(1))
        add("numpy-float", np.float64(0.3), np.float64(2.0), np.float32(1.0), np.float64(-1.0),
            np.float64(0.0), np.float16(0.5), np.float64(nan), np.float64(inf), np.float32(-inf))
        add("numpy-bool", np.bool_(True), np.bool_(False))
    return out


ODD_VALUES = _odd_values()
ODD_COMMON = [cv for cv in ODD_VALUES if not cv[0].startswith("index-object")]

# reserved strata (open findings): mechanism keys
KEY_INDEXONLY = "odd:index-protocol-only-object-at-insert-pop-imul/TypeError"
KEY_INFLEN = "odd:infinite-multiplier-on-list-trait-value/OverflowError"
KEY_INDEXSTEP = "odd:index-protocol-only-unit-step-on-list-trait-value/ValueError"


def int_magnitude(v):
    """|n| when a list reads v as the integer n, else None"""
    try:
        return abs(operator.index(v))
    except Exception:
        return None


def is_pos_inf(v):
    try:
        return bool(v == float("inf"))
    except Exception:
        return False


def unsafe_multiplier(L, v):
    """a multiplier that would make a non-empty list (or a careless implementation) allocate a
    lot: only small ones and those a list refuses as too large for a size are used"""
    if L == 0:
        return False
    mag = int_magnitude(v)
    return mag is not None and 9 < mag < 2 ** 63


def odd_reserved(flavour, L, op, label, v):
    """name of the reserved stratum (one per open finding) this combination belongs to, or None"""
    opname = op[0]
    if label.startswith("index-object"):
        if opname in ("insert", "pop", "imul"):
            return "index"
        if flavour == "tlo" and opname == "setitem" and label.split("+")[0].endswith("step"):
            return "step"
    if flavour == "tlo" and opname == "imul" and L > 0 and is_pos_inf(v):
        return "inf"
    return None


def odd_extra_ok(flavour, L, op):
    """a List trait value also has a length to keep legal (at most sys.maxsize items by default):
    where the requested length is illegal and the list raises as well, either is accepted"""
    if flavour == "tlo" and op[0] == "imul":
        m = op[1]
        try:
            m = operator.index(m)      # what list itself reads the multiplier through
        except Exception:
            pass
        try:
            if bool(L * m > sys.maxsize):
                return (TraitError,)
        except Exception:
            pass
    return ()


def rekey_index(complaint, rr, changed, events):
    if complaint in ("traitlist-raises-list-does-not", "wrong-exception-class") \
            and rr == ("exc", TypeError) and not changed and not events:
        return KEY_INDEXONLY
    return None


def rekey_inf(complaint, rr, changed, events):
    if complaint == "wrong-exception-class" and rr == ("exc", OverflowError) and not changed \
            and not events:
        return KEY_INFLEN
    return None


def rekey_step(complaint, rr, changed, events):
    if complaint in ("traitlist-raises-list-does-not", "wrong-exception-class") \
            and rr == ("exc", ValueError) and not changed and not events:
        return KEY_INDEXSTEP
    return None


REKEY = {"index": rekey_index, "inf": rekey_inf, "step": rekey_step, None: None}

ODD_SLICE_SHAPES = (("start", lambda v: ("s", v, None, None)), ("stop", lambda v: ("s", None, v, None)),
                    ("step", lambda v: ("s", None, None, v)), ("start,step2", lambda v: ("s", v, None, 2)),
                    ("stop,step-1", lambda v: ("s", None, v, -1)), ("1,step", lambda v: ("s", 1, None, v)))


def n_selected(L, spec):
    try:
        return len(range(L)[slice(spec[1], spec[2], spec[3])])
    except Exception:
        return 1


def odd_ops(L, flavour, cls, v):
    """(label, op) for every operation taking a position / count / multiplier, given v there"""
    coerce = flavour.endswith("coerce")
    has_bad = flavour != "none"

    def new(k):
        if coerce:
            return [(i if i % 2 else V(100 + i)) for i in range(k)]
        return [V(100 + i) for i in range(k)]
    N = new(1)[0]
    lit = not isinstance(v, slice)       # a slice as the key is the ordinary slice operation
    if lit:
        yield cls, ("setitem_lit", v, N)
        yield cls, ("delitem_lit", v)
    yield cls, ("insert", v, N)
    yield cls, ("pop", v)
    if not unsafe_multiplier(L, v):
        yield cls, ("imul", v)
    yield cls, ("sort_rev", v)
    if has_bad:
        if lit:
            yield cls, ("setitem_lit", v, BAD)
        yield cls, ("insert", v, BAD)
    if coerce:
        if lit:
            yield cls, ("setitem_lit", v, 7)
        yield cls, ("insert", v, 7)
    for pos, shape in ODD_SLICE_SHAPES:
        spec = shape(v)
        label = "%s@%s" % (cls, pos)
        nsel = n_selected(L, spec)
        yield label, ("delitem", spec)
        for k in sorted({0, 1, nsel}):
            yield label, ("setitem", spec, new(k))
        if has_bad:
            vb = new(max(nsel, 1))
            vb[-1] = BAD
            yield label, ("setitem", spec, vb)


def random_odd_op(rng, L, flavour):
    """(label, op) with an odd-typed argument outside the reserved strata, or None"""
    coerce = flavour.endswith("coerce")
    has_bad = flavour != "none"

    def item():
        r = rng.random()
        if has_bad and r < 0.06:
            return BAD
        if coerce and r < 0.5:
            return rng.randrange(64)
        return V(rng.randrange(10 ** 6))
    cls, v = rng.choice(ODD_VALUES)
    kind = rng.choice(["setitem_lit", "delitem_lit", "insert", "pop", "imul", "sort_rev",
                       "slice", "slice", "slice"])
    if kind == "slice":
        pos, shape = rng.choice(ODD_SLICE_SHAPES)
        spec = shape(v)
        if rng.random() < 0.5:
            spec = (spec[0],) + tuple(rng.randint(-L - 2, L + 2) if c is None and rng.random() < 0.3 else c
                                      for c in spec[1:])
        label = "%s@%s" % (cls, pos)
        if rng.random() < 0.25:
            # a second odd component (any class but the index-protocol-only objects)
            free = [i for i in (1, 2, 3) if spec[i] is None]
            if free:
                i = rng.choice(free)
                cls2, v2 = rng.choice(ODD_COMMON)
                spec = spec[:i] + (v2,) + spec[i + 1:]
                label += "+" + cls2
        if rng.random() < 0.3:
            return label, ("delitem", spec)
        if odd_reserved(flavour, L, ("setitem",), label, v):
            return None
        n = n_selected(L, spec) if rng.random() < 0.7 else rng.randint(0, 3)
        return label, ("setitem", spec, [item() for _ in range(n)])
    if odd_reserved(flavour, L, (kind,), cls, v) or (isinstance(v, slice) and kind.endswith("_lit")):
        return None
    if kind == "imul":
        mag = int_magnitude(v)
        if unsafe_multiplier(L, v) or (L > 30 and mag is not None and mag > 1):
            return None
        return cls, ("imul", v)
    if kind in ("setitem_lit", "insert"):
        return cls, (kind, v, item())
    return cls, (kind, v)


class HolderStatic(HasTraits):
    xs = List(Instance(V))

    def _xs_items_changed(self, event):
        r = self.__dict__.get("_reactor")
        if r is not None:
            r()


def reaction_op(rng, L, flavour):
    """an always-valid content-changing (or deliberately no-op) operation for a reacting
    listener to perform on the list it is being told about"""
    new = V(rng.randrange(10 ** 6))
    if flavour == "coerce" and rng.random() < 0.4:
        new = rng.randrange(64)
    c = rng.randrange(10)
    if c == 0 or L == 0:
        return ("append", new)
    if c == 1:
        return ("insert", rng.randint(-L - 1, L + 1), new)
    if c == 2:
        return ("pop", rng.randrange(L))
    if c == 3:
        return ("setitem", rng.randrange(-L, L), new)
    if c == 4 and L >= 3:
        return ("delitem", ("s", None, None, 2))
    if c == 5:
        return ("extend", [new, V(rng.randrange(10 ** 6))])
    if c == 6:
        return ("reverse",)
    if c == 7:
        return ("remove", rng.randrange(L))
    if c == 8:
        return ("setitem", ("s", 0, 1, None), [])
    return ("append", new)


def reent_history(ctx, h, events):
    """Listeners that change the list they are being told about.  A mirror registered FIRST
    rebuilds the contents purely from the events it receives: each must apply to the mirror as
    it stands (it describes the operation that was just made on exactly those contents), and at
    quiescence the mirror is the list.  The model is the built-in list receiving the outer
    operation and then the reactions in the order they were made."""
    rng = ctx.rng("reent", h)
    flavour = rng.choice(["none", "reject", "coerce", "tlo-notifier", "tlo-static", "tlo-observe",
                          "tlo-otc"])
    validate = {"none": v_none, "reject": v_reject, "coerce": v_coerce}.get(flavour, v_tlo)
    base = flavour if flavour in ("none", "reject", "coerce") else "tlo"
    L0 = rng.randint(0, 5)
    items = [mkitem(i) for i in range(L0)]
    mirror_state = {"cur": None, "complaint": None, "n": 0}

    def mirror(tl, index, removed, added):
        mirror_state["n"] += 1
        if mirror_state["complaint"] is None:
            c = replay_event(mirror_state["cur"], (index, list(removed), list(added)))
            ctx.count("reent_events_replayed")
            if c:
                mirror_state["complaint"] = "%s (event #%d: %r)" % (
                    c, mirror_state["n"], (index, list(removed), list(added)))

    plan = {"ops": [], "busy": False, "performed": []}

    def react(*a):
        if plan["busy"] or not plan["ops"]:
            return
        plan["busy"] = True
        try:
            for spec in plan["ops"]:
                op = reaction_op(spec, len(tl), base)
                plan["performed"].append(op)
                apply_op(tl, op, None)
                ctx.count("reent_reactions")
        finally:
            plan["busy"] = False
            plan["ops"] = []

    holder = None
    if base != "tlo":
        kw = {} if flavour == "none" else {"item_validator": validate}
        tl = TraitList(items, notifiers=[mirror, react], **kw)
    else:
        holder = (HolderStatic if flavour == "tlo-static" else Holder)(xs=items)
        tl = holder.xs
        tl.notifiers.insert(0, mirror)
        if flavour == "tlo-notifier":
            tl.notifiers.append(react)
        elif flavour == "tlo-static":
            holder.__dict__["_reactor"] = react
        elif flavour == "tlo-observe":
            holder.observe(react, "xs.items")
        else:
            holder.on_trait_change(react, "xs_items")
        tl = holder.xs
    model = list(tl)
    mirror_state["cur"] = list(tl)
    hist = []
    for step in range(10):
        L = len(model)
        op = random_op(rng, L, base)
        if op[0].endswith("_twin"):
            op = resolve(op, list(tl))
        nreact = rng.choice([0, 1, 2, 2, 3])
        plan["ops"] = [ctx.rng("reent", h, step, j) for j in range(nreact)]
        plan["performed"] = []
        n0 = mirror_state["n"]
        before = list(tl)
        soft = (lambda x: DUMMY if _invalid(validate, x) else validate(x))
        m2 = list(model)
        try:
            rm = ("ok", apply_op(m2, op, soft))
        except Exception as e:
            rm = ("exc", type(e))
        bad = any(_invalid(validate, x) for x in raw_items(op))
        try:
            rr = ("ok", apply_op(tl, op, None))
        except Exception as e:
            rr = ("exc", type(e))
        plan["ops"] = []
        performed = list(plan["performed"])
        hist.append((op, performed))
        ctx.ev()
        ctx.count("reent_outer_ops")
        complaint = None
        if bad or rm[0] == "exc":
            if rr[0] != "exc":
                complaint = "failing-op-did-not-raise"
            elif performed or [id(x) for x in tl] != [id(x) for x in before]:
                complaint = "changed-or-notified-on-failure"
            m2 = list(model)
            nchanging = 0
        else:
            nchanging = 1 if [id(x) for x in m2] != [id(x) for x in model] else 0
            if rr[0] != "ok":
                complaint = "op-raised-%s" % rr[1].__name__
            elif rr[1] is not rm[1] and rr[1] != rm[1]:
                complaint = "return-value-differs"
            for rop in performed:
                prev = list(m2)
                try:
                    apply_op(m2, rop, soft)
                except Exception as e:       # the reaction raised inside the listener too
                    pass
                if [id(x) for x in m2] != [id(x) for x in prev]:
                    nchanging += 1
            if performed:
                ctx.count("reent_ops_with_reactions")
                if len(performed) >= 2:
                    ctx.count("reent_ops_with_two_or_more_reactions")
        if complaint is None and [id(x) for x in tl] != [id(x) for x in m2]:
            complaint = "contents-differ"
        if complaint is None and mirror_state["complaint"]:
            complaint = "event-does-not-apply-to-contents-at-delivery"
        # one event per content-changing operation; an operation that leaves the contents as they
        # were may or may not report itself (tl[i] = tl[i] does), it never reports twice
        nops = 0 if (bad or rm[0] == "exc") else 1 + len(performed)
        nev = mirror_state["n"] - n0
        if complaint is None and not (nchanging <= nev <= nops):
            complaint = "events-%s-than-operations" % ("fewer" if nev < nchanging else "more")
        if complaint is None and [id(x) for x in mirror_state["cur"]] != [id(x) for x in tl]:
            complaint = "mirror-differs-from-contents"
        ctx.sig("reent", flavour, op[0], min(len(performed), 3), rr[0], min(mirror_state["n"] - n0, 4))
        if complaint:
            ctx.violation("reent/%s" % complaint.split(" ")[0],
                          "%s: %s list, outer op %r, reactions made by the listener %r; before=%r after=%r "
                          "model=%r mirror=%r mirror complaint=%r"
                          % (complaint, flavour, op, performed, before, list(tl), m2,
                             mirror_state["cur"], mirror_state["complaint"]),
                          {"flavour": flavour, "history": hist[-4:], "before": before, "after": list(tl)})
            return
        model = m2


def install_contract(ctx):
    """Auxiliary contract on the documented post-condition of slice
    normalisation (never decides alone; the boundary laws above do)."""
    fn = getattr(tlo_mod, "_normalize_slice_or_index", None)
    if fn is None:
        ctx.note("normalize_contract", "not evaluated (helper absent)")
        return

    def wrapped(index, length):
        rev, out = fn(index, length)
        ctx.count("normalize_contract_evaluations")
        if isinstance(out, slice):
            ok = (0 <= out.start < out.stop <= length and out.step >= 2
                  and out.start + out.step < out.stop)
        else:
            ok = isinstance(out, int)
        if not ok:
            ctx.violation("contract/normalize-postcondition",
                          "normalize(%r, %d) -> %r violates its documented post-condition"
                          % (index, length, out), {"index": repr(index), "length": length})
        return rev, out
    tlo_mod._normalize_slice_or_index = wrapped


def run(ctx):
    install_contract(ctx)
    Lmax = ctx.scale(5, 8)
    events = []
    # ---- exhaustive single operations -----------------------------------
    gi = 0
    for flavour in ("reject", "coerce", "none", "tlo", "inc", "q-reject", "q-coerce"):
        for L in range(0, Lmax + 1):
            if flavour in ("none", "inc", "q-reject", "q-coerce") and L > Lmax - 1:
                continue
            batch = []
            for op in single_ops(L, flavour):
                gi += 1
                if ctx.mine(gi // 64):
                    batch.append(op)
            if not ctx.begin("ex:%s:%d" % (flavour, L), {"flavour": flavour, "L": L, "ops": len(batch)}):
                continue
            try:
                for op in batch:
                    items = [mkitem(i) for i in range(L)]
                    tl, holder = make(flavour, items, events)
                    model = list(tl)          # the validated initial items
                    check_one(ctx, flavour, tl, model, op, events, holder)
                    ctx.count("exhaustive_cases")
                if batch:
                    ctx.sample({"flavour": flavour, "L": L, "op": batch[len(batch) // 2]})
            finally:
                ctx.end()
    # ---- random histories -------------------------------------------------
    nh = ctx.scale(4000, 600000)
    for h in range(nh):
        if not ctx.mine(h):
            continue
        if not ctx.begin("hist:%d" % h):
            continue
        try:
            rng = ctx.rng("hist", h)
            flavour = rng.choice(["reject", "coerce", "tlo", "reject", "coerce", "none", "inc",
                                  "q-reject", "q-coerce"])
            L0 = rng.randint(0, 6)
            items = [mkitem(i) for i in range(L0)]
            if L0 > 2 and rng.random() < 0.3:
                items[1] = items[0]          # duplicates: remove/index semantics
            tl, holder = make(flavour, items, events)
            model = list(tl)
            ops = []
            for step in range(25):
                op = random_op(rng, len(model), flavour)
                ops.append(op)
                ctx.count("history_ops")
                if check_one(ctx, flavour, tl, model, op, events, holder):
                    break
            if h < 3 * ctx.nshards:
                ctx.sample({"flavour": flavour, "start": items, "history": ops[:6]})
        finally:
            ctx.end()
    # ---- listeners that change the list they are told about ------------------
    nre = ctx.scale(3000, 300000)
    for h in range(nre):
        if not ctx.mine(h):
            continue
        if not ctx.begin("reent:%d" % h):
            continue
        try:
            reent_history(ctx, h, events)
        finally:
            ctx.end()
    # ---- odd-typed index / count / multiplier arguments ----------------------
    odd_strata(ctx, events)


def odd_strata(ctx, events):
    Lodd = ctx.scale(5, 8)
    go = 0
    for flavour in ("reject", "coerce", "none", "tlo", "inc", "q-reject", "q-coerce"):
        for L in range(0, Lodd + 1):
            if flavour in ("inc", "q-reject", "q-coerce") and L > Lodd - 1:
                continue
            batches = {None: [], "index": [], "inf": [], "step": []}
            for cls, v in ODD_VALUES:
                for label, op in odd_ops(L, flavour, cls, v):
                    go += 1
                    if ctx.mine(go // 32):
                        batches[odd_reserved(flavour, L, op, label, v)].append((label, op))
            for stratum, batch in batches.items():
                name = "odd" if stratum is None else "oddx-" + stratum
                if not batch and stratum is not None:
                    continue
                if not ctx.begin("%s:%s:%d" % (name, flavour, L), {"flavour": flavour, "L": L, "ops": len(batch)}):
                    continue
                try:
                    for label, op in batch:
                        items = [mkitem(i) for i in range(L)]
                        tl, holder = make(flavour, items, events)
                        model = list(tl)
                        check_one(ctx, flavour, tl, model, op, events, holder, odd=label,
                                  extra_ok=odd_extra_ok(flavour, L, op), rekey=REKEY[stratum])
                        ctx.count("odd_evaluations" if stratum is None else "odd_reserved_%s_evaluations" % stratum)
                        if label.startswith("numpy"):
                            ctx.count("odd_numpy_evaluations")
                        if "@" in label:
                            ctx.count("odd_slice_component_evaluations")
                    if batch and stratum is None:
                        ctx.sample({"flavour": flavour, "L": L, "odd_op": batch[len(batch) // 2][1]})
                finally:
                    ctx.end()
    # ---- random histories in which about half of the operations carry an odd argument ----
    nh = ctx.scale(2400, 200000)
    for h in range(nh):
        if not ctx.mine(h):
            continue
        if not ctx.begin("oddhist:%d" % h):
            continue
        try:
            rng = ctx.rng("oddhist", h)
            flavour = rng.choice(["reject", "coerce", "tlo", "tlo", "none", "inc", "q-reject", "q-coerce"])
            L0 = rng.randint(0, 6)
            items = [mkitem(i) for i in range(L0)]
            tl, holder = make(flavour, items, events)
            model = list(tl)
            for step in range(25):
                L = len(model)
                lo = random_odd_op(rng, L, flavour) if rng.random() < 0.55 else None
                if lo is None:
                    ctx.count("history_ops")
                    if check_one(ctx, flavour, tl, model, random_op(rng, L, flavour), events, holder):
                        break
                    continue
                ctx.count("odd_history_ops")
                if check_one(ctx, flavour, tl, model, lo[1], events, holder, odd=lo[0],
                             extra_ok=odd_extra_ok(flavour, L, lo[1])):
                    break
        finally:
            ctx.end()
