"""C06 -- TraitDict refines dict; events are faithful deltas.

Oracle: a plain `dict` receiving the same operation on the validated keys and
values (lookups -- del, pop -- use the raw key, as the built-in would), plus the
reconstruction law on the (removed, added, changed) arguments seen by raw
notifiers, plus the DictChangeEvent seen by `observe(handler, "<name>.items")`
handlers.  Two raw recorders are installed: one at index 0 of `notifiers`
(sees what TraitDict.notify emits) and one at a random position relative to
the observer notifiers; both must see the same arguments.  The first one gets
there by one of five routes (ROUTES), among them "added later to the list the
constructor was given".  Exhaustive single operations on dicts of size 0..3
over an 8-key universe, a mapping-class stratum (update / |= with duck-typed
and registered mappings that are not dicts, keys that look like pairs), then
random 20-op histories.  See DESIGN.md section 4 / C06.
"""
import collections
import collections.abc
import copy
import itertools
import operator
import pickle
import types

from traits.api import (HasTraits, Any, CInt, Dict, Instance, Int, TraitError,
                        push_exception_handler)
from traits.trait_dict_object import TraitDict
from traits.observation import api as obs_api

META = {
    "level": "exploration",
    "rule": ("cases = (dict flavour, start state, operation) with flavours: bare TraitDict "
             "without validators / with rejecting validators / with coercing key (str.lower, "
             "int->str) and value validators / with a type-strict key validator (type(k) is int) "
             "over keys 1, 1.0, True, 2, 2.0, 0, False / with a deterministic non-idempotent key "
             "validator (int k -> k+1, str -> str+'_') whose raw keys equal stored ones, and the "
             "TraitDictObject of a Dict(CInt, Instance) and of a Dict(Int, Instance) "
             "trait; operations __setitem__, __delitem__, pop with/without default, popitem, "
             "clear, setdefault with/without value, update and |= with a mapping, a list or "
             "generator of pairs (duplicate and colliding keys, an invalid key/value at each "
             "position), a keys()/__getitem__-only mapping, the dict itself and malformed "
             "arguments; 8-key universe plus an unhashable key; 0..2 observe('<name>.items') "
             "handlers with a second raw notifier before / between / after the observer "
             "notifiers; the first raw notifier of a bare TraitDict is registered by one of five "
             "routes (put into td.notifiers afterwards / handed to the constructor in a list / "
             "added later, through the caller's own reference, to the list the constructor was "
             "given while that list was empty, shared with a second TraitDict, or already held "
             "another listener); a mapping-class stratum: update and |= with 0..2 items held by "
             "duck-typed mappings that offer keys()/items()/[] without being registered with "
             "collections.abc.Mapping (views + iteration, lists only, one-shot iterators) and by "
             "registered ones (Mapping subclass, UserDict, OrderedDict, mappingproxy, ChainMap, "
             "dict subclass, another TraitDict), the model being what a built-in dict reads from "
             "the same object, over keys that look like pairs (two-character strings, 2-tuples), "
             "keys colliding after validation and invalid keys/values, from every start dict of "
             "size 0..2, with and without listeners, and in 3% of the random update/|= "
             "operations; and, for the bare flavours, dicts nobody listens to (built without "
             "notifiers, or obtained by copy.copy / copy.deepcopy / pickle protocol 0..5, which "
             "drop the notifiers and keep the validators), judged on contents, return value, "
             "exception class and failure atomicity only; every copy (those, d.copy(), copies "
             "of a TraitDictObject) is kept next to its watched original and either one is "
             "changed: the other must receive no notification and keep its contents. "
             "Exhaustive over all start dicts of size 0..3 x all single operations of "
             "that grid, plus random 20-op histories in three strata (plain, setdefault through "
             "a coercing key validator, raw notifier after an observer), 40% of the bare ones "
             "switching to a copy of the dict at a random step; and a re-entrancy stratum "
             "(exhaustive single operations x 8 fixed reactions, plus random 15-op histories): "
             "a mirror listener registered first rebuilds the contents from the notifications "
             "alone, a second listener (plain notifier / observe handler / <name>_items "
             "listener) answers chosen notifications with 1..3 further operations on the same "
             "dict (depth <= 2, <= 3 reactions per top-level operation), every nested operation "
             "is judged like a top-level one against the same model, a third listener "
             "registered last must receive the same notifications in any order. "
             "distinct_nontrivial "
             "counts distinct (flavour, op, argument shape, outcome class, event shape, "
             "observer configuration) signatures of cases in which the dict changed, an event "
             "was emitted or an exception was raised."),
    "phases": [{"name": "main", "flavour": "P", "shards": 16}],
    "gates": {
        "quick": {"evaluations": 220000, "events_checked": 90000, "failures_checked": 85000,
                  "observer_events_checked": 80000, "history_ops": 70000,
                  "raw_pairs_compared": 170000, "raw_after_observer_compared": 95000,
                  "exhaustive_cases": 150000,
                  # dicts nobody listens to (never had a notifier, or a fresh copy)
                  "silent_evaluations": 75000, "silent_failures_checked": 30000,
                  "silent_bulk_rejections_checked": 20000, "copies_continued": 30000,
                  "ops_on_copies": 45000, "exhaustive_silent_cases": 60000,
                  # type-strict / non-idempotent key validators, equal keys of other types
                  "evaluations_strict": 30000, "evaluations_shift": 70000,
                  "evaluations_tdi": 20000,
                  # a copy next to its original: neither hears of nor changes with the other
                  "isolation_checks": 70000, "isolation_checks_copy_mutated": 60000,
                  "isolation_checks_original_mutated": 10000, "side_mutations": 5500,
                  # re-entrant listeners
                  "reentrant_ops": 26000, "reentrant_nested_ops": 26000,
                  "reentrant_nested_content_changes": 20000,
                  "reentrant_ops_with_2_or_more_nested": 6500, "reentrant_mirror_events": 31000,
                  "reentrant_quiescence_checks": 26000, "reentrant_exhaustive_cases": 11000,
                  "reentrant_histories": 1000,
                  # listener added later to the list the constructor was given
                  "late_listener_evaluations": 230000, "late_listener_empty": 75000,
                  "late_listener_shared": 75000, "late_listener_prefilled": 75000,
                  "late_listener_changes_checked": 95000,
                  # update / |= with mappings that are not dicts
                  "mapping_class_cases": 32000, "mapping_class_unregistered": 24000,
                  "mapping_class_registered": 8000, "mapping_class_rejections_checked": 20000,
                  "mapping_class_pairlike_keys_stored": 8500,
                  "mapping_class_pairlike_keys_stored_unregistered": 6500,
                  "history_mapping_class_ops": 1800},
        "thorough": {"evaluations": 2000000, "events_checked": 1000000, "failures_checked": 500000,
                     "observer_events_checked": 800000, "history_ops": 1800000,
                     "raw_pairs_compared": 1400000, "raw_after_observer_compared": 250000,
                     "exhaustive_cases": 150000,
                     "silent_evaluations": 450000, "silent_failures_checked": 130000,
                     "silent_bulk_rejections_checked": 55000, "copies_continued": 60000,
                     "ops_on_copies": 300000, "exhaustive_silent_cases": 60000,
                     "evaluations_strict": 400000, "evaluations_shift": 500000,
                     "evaluations_tdi": 190000,
                     "isolation_checks": 700000, "isolation_checks_copy_mutated": 450000,
                     "isolation_checks_original_mutated": 250000, "side_mutations": 140000,
                     "reentrant_ops": 400000, "reentrant_nested_ops": 240000,
                     "reentrant_nested_content_changes": 130000,
                     "reentrant_ops_with_2_or_more_nested": 70000,
                     "reentrant_mirror_events": 330000, "reentrant_quiescence_checks": 400000,
                     "reentrant_exhaustive_cases": 11000, "reentrant_histories": 26000,
                     "late_listener_evaluations": 1000000, "late_listener_empty": 330000,
                     "late_listener_shared": 330000, "late_listener_prefilled": 330000,
                     "late_listener_changes_checked": 430000,
                     "mapping_class_cases": 460000, "mapping_class_unregistered": 135000,
                     "mapping_class_registered": 320000,
                     "mapping_class_rejections_checked": 290000,
                     "mapping_class_pairlike_keys_stored": 125000,
                     "mapping_class_pairlike_keys_stored_unregistered": 37000,
                     "history_mapping_class_ops": 49000},
    },
    "exhaustive_parts": "all single operations of the grid in `rule` on every start dict of size "
                        "0..3 over the validated key universe of each flavour",
    "assumptions": ["built-in dict is the sequential specification (including insertion order)",
                    "values are compared by identity, keys by type and equality; validators are "
                    "pure functions",
                    "lookups (del, pop, setdefault on a raw key that is present, the membership "
                    "test of the event law) use the raw key; only keys/values that are stored "
                    "are validated",
                    "an event delivered to a listener of dict D is a delta of D: a listener of "
                    "one dict hears nothing about changes made to a copy of it",
                    "notifications are delivered synchronously and depth-first: only the listener "
                    "registered before a re-entrant one is required to receive them in operation "
                    "order, each applicable to the contents at that time"],
}


class V:
    __slots__ = ("n",)

    def __init__(self, n):
        self.n = n

    def __repr__(self):
        return "v%d" % self.n

    def __reduce__(self):                      # __slots__: protocols 0/1 need this
        return (V, (self.n,))


BADK = "BADK"
BADV = "BADV"
NOTSET = object()
DEFAULT = V(-1)            # the default handed to pop(k, default)
DUMMYK = V(-998)           # stands for an invalid key in the soft model
DUMMYV = V(-999)
CANON = {i: V(1000 + i) for i in range(64)}
UNHASH = ["unhashable"]

KEYS = {
    "none": ['a', 'b', 'c', 'A', 1, 1.0, (1, 2), 'd'],
    "reject": ['a', 'b', 'c', 'A', 1, 1.0, (1, 2), BADK],
    "coerce": ['a', 'A', 'b', 'B', 'c', 1, '1', BADK],
    "tdo": [1, '1', 2, '2', 3, 1.0, True, 'x'],
    # equal-but-distinct keys of different types against a type-strict validator
    "strict": [1, 1.0, True, 2, 2.0, 0, False, 'a'],
    "tdi": [1, 1.0, True, 2, 2.0, 3, '1', 'x'],
    # a deterministic validator that is not idempotent: raw keys equal stored ones
    "shift": [0, 1, 2, 'a', 'a_', 1.0, True, BADK],
}
# keys for the mapping-class stratum: two-element keys (a sequence of pairs may look
# just like that), keys colliding after validation, an invalid key
CLASS_KEYS = {
    "none": ['a', 'ab', (1, 2), 'ba', 1, ('a', 'b')],
    "reject": ['a', 'ab', (1, 2), 'ba', 1, BADK],
    "coerce": ['a', 'ab', 'Ab', 'bA', 12, BADK],
    "shift": [0, 'ab', 'ab_', 'a', 10, BADK],
    "tdo": [1, '12', 12, '21', 'xy', 3],
}
HT = ("tdo", "tdi")                 # flavours living in a HasTraits Dict trait
NONIDEMPOTENT = ("shift",)


# -- reference validators (the bare flavours hand the same functions to TraitDict) --
def kv_none(k):
    return k


def kv_reject(k):
    if type(k) is str and k == BADK:
        raise TraitError("bad key")
    return k


def kv_coerce(k):
    if type(k) is str:
        if k == BADK:
            raise TraitError("bad key")
        return k.lower()
    if type(k) is int:
        return str(k)
    raise TraitError("bad key")


def kv_tdo(k):
    try:
        return int(k)
    except (TypeError, ValueError):
        raise TraitError("bad key")


def kv_strict(k):
    if type(k) is int:
        return k
    raise TraitError("bad key")


def kv_shift(k):
    if type(k) is int:
        return k + 1
    if type(k) is str and k != BADK:
        return k + "_"
    raise TraitError("bad key")


def kv_tdi(k):
    if type(k) is int:
        return k
    try:
        return int(operator.index(k))
    except TypeError:
        raise TraitError("bad key")


def vv_none(v):
    return v


def vv_reject(v):
    if v is BADV:
        raise TraitError("bad value")
    return v


def vv_coerce(v):
    if v is BADV:
        raise TraitError("bad value")
    if type(v) is int:
        return CANON[v]
    return v


def vv_tdo(v):
    if v is None or isinstance(v, V):
        return v
    raise TraitError("bad value")


KV = {"none": kv_none, "reject": kv_reject, "coerce": kv_coerce, "tdo": kv_tdo,
      "strict": kv_strict, "shift": kv_shift, "tdi": kv_tdi}
VV = {"none": vv_none, "reject": vv_reject, "coerce": vv_coerce, "tdo": vv_tdo,
      "strict": vv_reject, "shift": vv_reject, "tdi": vv_tdo}


class Holder(HasTraits):
    d = Dict(CInt, Instance(V))
    di = Dict(Int, Instance(V))


class Box(HasTraits):
    x = Any()


# -- mapping classes handed to update / |= ----------------------------------------
# dict.update treats ANY object with a keys() method as a mapping.  The first three are
# duck-typed (never registered with collections.abc.Mapping, no dict in their bases)
# and, unlike KeysOnly below, offer items() as well.
class DuckRow:
    """A read-only record: keys() / items() / [] / iteration over keys / len."""

    def __init__(self, pairs):
        self._d = dict(pairs)

    def keys(self):
        return self._d.keys()

    def items(self):
        return self._d.items()

    def __getitem__(self, k):
        return self._d[k]

    def __iter__(self):
        return iter(self._d)

    def __len__(self):
        return len(self._d)

    def __repr__(self):
        return "DuckRow(%r)" % (self._d,)


class DuckBare:
    """keys() / items() / [] and nothing else (not iterable, no len); lists."""

    def __init__(self, pairs):
        self._d = dict(pairs)

    def keys(self):
        return list(self._d)

    def items(self):
        return list(self._d.items())

    def __getitem__(self, k):
        return self._d[k]

    def __repr__(self):
        return "DuckBare(%r)" % (self._d,)


class DuckLazy:
    """keys() and items() hand out one-shot iterators."""

    def __init__(self, pairs):
        self._d = dict(pairs)

    def keys(self):
        return iter(list(self._d))

    def items(self):
        return ((k, v) for k, v in list(self._d.items()))

    def __getitem__(self, k):
        return self._d[k]

    def __repr__(self):
        return "DuckLazy(%r)" % (self._d,)


class AbcMapping(collections.abc.Mapping):
    def __init__(self, pairs):
        self._d = dict(pairs)

    def __getitem__(self, k):
        return self._d[k]

    def __iter__(self):
        return iter(self._d)

    def __len__(self):
        return len(self._d)

    def __repr__(self):
        return "AbcMapping(%r)" % (self._d,)


class DictSub(dict):
    pass


DUCK_SHAPES = ("duck-row", "duck-bare", "duck-lazy")
REGISTERED_SHAPES = ("abc", "userdict", "ordered", "proxy", "chain", "subclass", "traitdict")
CLASS_SHAPES = DUCK_SHAPES + REGISTERED_SHAPES
MAPPING_CLASSES = {
    "duck-row": DuckRow, "duck-bare": DuckBare, "duck-lazy": DuckLazy, "abc": AbcMapping,
    "userdict": lambda p: collections.UserDict(dict(p)),
    "ordered": collections.OrderedDict,
    "proxy": lambda p: types.MappingProxyType(dict(p)),
    "chain": lambda p: collections.ChainMap(dict(p[:1]), dict(p[1:])),
    "subclass": DictSub,
    "traitdict": lambda p: TraitDict(dict(p)),
}


def builtin_reading(shape, payload):
    """The items a built-in dict takes from such an argument, in its order."""
    tmp = {}
    tmp.update(MAPPING_CLASSES[shape](list(payload)))
    return list(tmp.items())


class KeysOnly:
    """A mapping in dict.update's own sense: keys() and __getitem__ only."""

    def __init__(self, pairs):
        self._d = dict(pairs)

    def keys(self):
        return list(self._d)

    def __getitem__(self, k):
        return self._d[k]

    def __repr__(self):
        return "KeysOnly(%r)" % (self._d,)


# observer configurations: (number of observers, slot of the 2nd raw recorder)
# slot: "first" = before every observer, "mid" = between two observers, "last" = after all
OBS_CONFIGS = [(0, "first"), (1, "first"), (1, "last"), (2, "mid"), (2, "last"), (2, "first")]


# how the first raw recorder gets onto a bare TraitDict
#   insert         put into td.notifiers after construction
#   ctor           the constructor receives [recorder]
#   late-empty     the constructor receives the caller's (still empty) list; the
#                  recorder is added afterwards through the caller's reference
#   late-shared    the same, the caller's list also serving a second TraitDict
#   late-prefilled the same, the list already holding another listener
ROUTES = ("insert", "ctor", "late-empty", "late-shared", "late-prefilled")
LATE_ROUTES = ROUTES[2:]


class Env:
    """One dict under test with its recorders."""

    def __init__(self, flavour, pairs, n_obs, slot, ctor_notifier=False, silent=False, td=None):
        """silent: no notifier of any kind is ever attached (`notifiers` stays
        empty); td: wrap an existing TraitDict (a copy) instead of building one;
        ctor_notifier: False / True / one of ROUTES."""
        route = {False: "insert", True: "ctor"}.get(ctor_notifier, ctor_notifier)
        self.route = "insert"
        self.registry = self.sibling = None
        self.flavour = flavour
        self.silent = silent
        self.copied = td is not None
        self.raw1, self.raw2 = [], []
        self.obs_logs = [[] for _ in range(n_obs)]
        self.n_obs = n_obs
        self.slot = slot
        self.root = None
        self.handlers = []

        def rec1(d, removed, added, changed):
            self.raw1.append((d is self.td, dict(removed), dict(added), dict(changed)))

        def rec2(d, removed, added, changed):
            self.raw2.append((d is self.td, dict(removed), dict(added), dict(changed)))

        self.rec1 = rec1
        pre = False
        if silent or td is not None:
            assert flavour not in HT and not n_obs
            if td is None:
                kw = {}
                if flavour != "none":
                    kw = {"key_validator": KV[flavour], "value_validator": VV[flavour]}
                td = TraitDict(dict(pairs), **kw)
            self.td = td
            self.has_raw2 = self.after_observer = False
            self.observers_hooked = 0
            if not silent:
                td.notifiers.insert(0, rec1)
            return
        if flavour == "tdo":
            self.root = Holder(d=dict(pairs))
            self.td = self.root.d
            path = "d.items"
        elif flavour == "tdi":
            self.root = Holder(di=dict(pairs))
            self.td = self.root.di
            path = "di.items"
        else:
            kw = {}
            if flavour != "none":
                kw = {"key_validator": KV[flavour], "value_validator": VV[flavour]}
            self.route = route
            if route == "ctor":
                kw["notifiers"] = [rec1]
                pre = True
            elif route in LATE_ROUTES:
                self.registry = [self._bystander] if route == "late-prefilled" else []
                kw["notifiers"] = self.registry
                pre = True
            if route == "late-shared" and not pairs:
                self.td = TraitDict(**kw)
            else:
                self.td = TraitDict(dict(pairs), **kw)
            if route == "late-shared":
                self.sibling = TraitDict(**kw)
            path = "x.items"
            if n_obs:
                self.root = Box(x=self.td)
        obs_objs = []
        for i in range(n_obs):
            h = self._handler(i)
            self.handlers.append(h)
            known = set(map(id, self.td.notifiers))
            self.root.observe(h, path)
            obs_objs.extend(n for n in self.td.notifiers if id(n) not in known)
        ns = self.td.notifiers
        obs_idx = [i for i, n in enumerate(ns) if any(n is o for o in obs_objs)]
        self.has_raw2 = n_obs > 0 or flavour in HT
        self.after_observer = False
        if self.has_raw2:
            if not obs_idx or slot == "first":
                pos = obs_idx[0] if obs_idx else len(ns)
            elif slot == "mid":
                pos = obs_idx[-1]
            else:
                pos = len(ns)
            ns.insert(pos, rec2)
            self.after_observer = bool(obs_idx) and pos > obs_idx[0]
        if not pre:
            ns.insert(0, rec1)
        elif self.registry is not None:
            self.registry.insert(0, rec1)      # through the caller's reference
        self.observers_hooked = len(obs_idx)

    @staticmethod
    def _bystander(d, removed, added, changed):
        pass

    def _handler(self, i):
        log = self.obs_logs[i]

        def handler(event):
            log.append((event.object is self.td, dict(event.removed), dict(event.added)))
        return handler

    def clear_logs(self):
        del self.raw1[:]
        del self.raw2[:]
        for lg in self.obs_logs:
            del lg[:]


# -- operations ---------------------------------------------------------------
def build_other(shape, payload, target):
    if shape == "map":
        return dict(payload)
    if shape == "pairs":
        return list(payload)
    if shape == "gen":
        return (p for p in list(payload))
    if shape == "keysonly":
        return KeysOnly(payload)
    if shape in MAPPING_CLASSES:
        return MAPPING_CLASSES[shape](list(payload))
    if shape == "self":
        return target
    return payload                      # "raw": a malformed literal


def apply_real(td, op):
    name = op[0]
    if name == "setitem":
        td[op[1]] = op[2]
        return None
    if name == "delitem":
        del td[op[1]]
        return None
    if name == "pop":
        return td.pop(op[1])
    if name == "popd":
        return td.pop(op[1], op[2])
    if name == "popitem":
        return td.popitem()
    if name == "clear":
        return td.clear()
    if name == "setdefault":
        return td.setdefault(*op[1:])
    if name == "update":
        return td.update(build_other(op[1], op[2], td))
    if name == "ior":
        r = operator.ior(td, build_other(op[1], op[2], td))
        return "SELF" if r is td else r
    raise AssertionError(op)


def model_other(shape, payload, m, skv, svv):
    """What the built-in receives: the same argument with validated keys/values;
    malformed elements are passed through so the built-in raises its own error."""
    if shape == "self":
        src = list(m.items())
    elif shape in ("map", "keysonly"):
        src = list(dict(payload).items())
    elif shape in MAPPING_CLASSES:
        src = builtin_reading(shape, payload)
    elif shape in ("pairs", "gen"):
        src = list(payload)
    else:
        try:
            src = list(payload)
        except TypeError:
            return payload

    def gen():
        for el in src:
            try:
                k, v = el
            except (TypeError, ValueError):
                yield el
                continue
            yield (skv(k), svv(v))
    return gen()


def apply_model(m, op, skv, svv):
    name = op[0]
    if name == "setitem":
        m[skv(op[1])] = svv(op[2])
        return None
    if name == "delitem":
        del m[op[1]]
        return None
    if name == "pop":
        return m.pop(op[1])
    if name == "popd":
        return m.pop(op[1], op[2])
    if name == "popitem":
        return m.popitem()
    if name == "clear":
        return m.clear()
    if name == "setdefault":
        return m.setdefault(skv(op[1]), svv(op[2] if len(op) > 2 else None))
    if name == "update":
        return m.update(model_other(op[1], op[2], m, skv, svv))
    if name == "ior":
        r = operator.ior(m, model_other(op[1], op[2], m, skv, svv))
        return "SELF" if r is m else r
    raise AssertionError(op)


def stored_parts(op, m):
    """The raw keys and values the operation would store (to be validated)."""
    name = op[0]
    if name == "setitem":
        return [op[1]], [op[2]]
    if name == "setdefault":
        return [op[1]], [op[2] if len(op) > 2 else None]
    if name in ("update", "ior"):
        shape, payload = op[1], op[2]
        if shape == "self":
            return list(m.keys()), list(m.values())
        if shape in ("map", "keysonly"):
            src = list(dict(payload).items())
        elif shape in MAPPING_CLASSES:
            src = builtin_reading(shape, payload)
        else:
            try:
                src = list(payload)
            except TypeError:
                return [], []
        ks, vs = [], []
        for el in src:
            try:
                k, v = el
            except (TypeError, ValueError):
                continue
            ks.append(k)
            vs.append(v)
        return ks, vs
    return [], []


def _invalid(fn, x):
    try:
        fn(x)
        return False
    except TraitError:
        return True


def key_same(a, b):
    return type(a) is type(b) and a == b


def items_same_ordered(xs, ys):
    return len(xs) == len(ys) and all(key_same(a[0], b[0]) and a[1] is b[1] for a, b in zip(xs, ys))


def dict_same(x, y):
    """Same keys (by equality) holding identical values; order ignored."""
    if len(x) != len(y):
        return False
    for k, v in x.items():
        if k not in y or y[k] is not v:
            return False
    return True


def ret_same(a, b):
    if a is b:
        return True
    if isinstance(a, tuple) and isinstance(b, tuple) and len(a) == len(b) == 2:
        return key_same(a[0], b[0]) and a[1] is b[1]
    return isinstance(a, str) and a == "SELF" and b == "SELF"


def event_law(before, after, r, a, c):
    """Reconstruction law for one (removed, added, changed) notification."""
    if not r and not a and not c:
        return "event-all-parts-empty"
    for k, v in a.items():
        if k in before:
            return "added-key-was-present"
        if k not in after or after[k] is not v:
            return "added-value-not-current"
    for k, v in c.items():
        if k not in before or before[k] is not v:
            return "changed-old-value-wrong"
        if k not in after:
            return "changed-key-gone"
    for k, v in r.items():
        if k not in before or before[k] is not v:
            return "removed-value-wrong"
        if k in after:
            return "removed-key-still-present"
    rec = dict(after)
    for k in a:
        rec.pop(k, None)
    rec.update(r)
    rec.update(c)
    if not dict_same(rec, before):
        return "reconstruction-differs"
    return None


def op_name(op):
    if op[0] in ("update", "ior") and op[1] == "keysonly":
        return "keysonly-mapping"
    if op[0] in ("update", "ior") and op[1] in DUCK_SHAPES:
        return "duck-mapping"
    if op[0] in ("update", "ior") and op[1] == "self":
        return "%s-self" % op[0]
    return op[0]


def arg_shape(op):
    if op[0] in ("update", "ior"):
        n = len(op[2]) if isinstance(op[2], (list, tuple, dict)) else -1
        return "%s:%d" % (op[1], min(n, 3))
    if len(op) > 1:
        k = op[1]
        return "unhash" if k is UNHASH else type(k).__name__
    return "-"


class Judged:
    """What judge_op saw."""
    __slots__ = ("before", "before_d", "after", "after_d", "rm", "rr", "bad", "bad_k", "bad_v",
                 "ks", "own_changed")


def judge_op(ctx, flavour, td, model, op, commit_first=False):
    """Run op on td and on the model; judge contents, return value, exception class
    and failure atomicity.  Returns (complaint or None, Judged).  `model` (a dict) is
    updated in place when the operation is judged correct.  With commit_first the
    model receives the operation before the real dict does, so that operations made
    by a re-entrant notifier during the call are applied to the model at the same
    point of the history as to the dict."""
    kv, vv = KV[flavour], VV[flavour]
    before = list(td.items())
    before_d = dict(before)

    ks, vs = stored_parts(op, model)
    bad_k = any(_invalid(kv, k) for k in ks)
    bad_v = any(_invalid(vv, v) for v in vs)
    bad = bad_k or bad_v
    skv = (lambda k: DUMMYK if _invalid(kv, k) else kv(k))
    svv = (lambda v: DUMMYV if _invalid(vv, v) else vv(v))

    # setdefault on a present key with an invalid default: nothing is stored, so
    # returning the present value and raising TraitError are both accepted.
    lenient = NOTSET
    if op[0] == "setdefault" and bad_v and not bad_k:
        try:
            vk = kv(op[1])
            if vk in model:
                lenient = model[vk]
        except TypeError:
            pass
    # setdefault with a raw key that is present is a lookup (like pop / del, it
    # uses the raw key and stores nothing): returning that item is accepted
    lookup_hit = NOTSET
    if op[0] == "setdefault" and op[1] is not UNHASH:
        try:
            if op[1] in model:
                lookup_hit = model[op[1]]
        except TypeError:
            pass
    # an unhashable lookup key: TypeError is always right (the built-in skips
    # hashing when the dict is empty, a CPython shortcut that is not demanded)
    unhashable_lookup = op[0] in ("pop", "popd", "delitem", "setdefault") and op[1] is UNHASH

    m2 = dict(model)
    try:
        rm = ("ok", apply_model(m2, op, skv, svv))
    except Exception as e:
        rm = ("exc", type(e))
    allowed = set()
    if bad:
        allowed.add(TraitError)
        if rm[0] == "exc":
            allowed.add(rm[1])
        try:                                   # the built-in on the raw arguments
            apply_model(dict(model), op, kv_none, vv_none)
        except Exception as e:
            allowed.add(type(e))
    own_changed = rm[0] == "ok" and not bad and not dict_same(m2, model)
    saved, normal_ok = None, False
    if commit_first and rm[0] == "ok" and not bad:
        saved = dict(model)
        model.clear()
        model.update(m2)
        m2 = model
    try:
        rr = ("ok", apply_real(td, op))
    except Exception as e:
        rr = ("exc", type(e))
    after = list(td.items())
    after_d = dict(after)
    unchanged_order = items_same_ordered(after, before)

    complaint = None
    if lookup_hit is not NOTSET and rr[0] == "ok" and rr[1] is lookup_hit and unchanged_order:
        ctx.count("setdefault_raw_lookups")
    elif lenient is not NOTSET:
        if rr[0] == "ok":
            if not unchanged_order:
                complaint = "changed-by-invalid-default"
            elif rr[1] is not lenient:
                complaint = "return-value-differs"
        elif rr[1] is not TraitError:
            complaint = "wrong-exception-class"
        elif not unchanged_order:
            complaint = "changed-on-failure"
    elif bad:
        if rr[0] != "exc":
            complaint = "invalid-item-accepted"
        elif rr[1] not in allowed:
            complaint = "wrong-exception-class"
        elif not unchanged_order:
            complaint = "changed-on-failure"
    elif unhashable_lookup and rr == ("exc", TypeError):
        if not unchanged_order:
            complaint = "changed-on-failure"
    elif rm[0] == "exc":
        if rr[0] != "exc":
            complaint = "dict-raises-traitdict-does-not"
        elif rr[1] is not rm[1]:
            complaint = "wrong-exception-class"
        elif not unchanged_order:
            complaint = "changed-on-failure"
    else:
        m2_items = list(m2.items())
        if rr[0] != "ok":
            complaint = "traitdict-raises-dict-does-not"
        elif not dict_same(after_d, m2) or len(after) != len(m2_items):
            complaint = "contents-differ"
        elif not items_same_ordered(after, m2_items):
            complaint = "order-differs"
        elif not ret_same(rr[1], rm[1]):
            complaint = "return-value-differs"
        else:
            normal_ok = True
            if saved is None:
                model.clear()
                model.update(m2)
    if saved is not None and not normal_ok:
        model.clear()
        model.update(saved)
    ctx.ev()
    ctx.count("evaluations_" + flavour)
    if rr[0] == "exc":
        ctx.count("failures_checked")
    j = Judged()
    j.before, j.before_d, j.after, j.after_d, j.rm, j.rr = before, before_d, after, after_d, rm, rr
    j.bad, j.bad_k, j.bad_v, j.ks, j.own_changed = bad, bad_k, bad_v, ks, own_changed and normal_ok
    return complaint, j


def check_one(ctx, env, model, op):
    """Run op on env.td and on a copy of model, judge outcome and notifications.
    Returns complaint key or None.  `model` (a dict) is updated in place when the
    operation is judged correct."""
    flavour = env.flavour
    env.clear_logs()
    complaint, j = judge_op(ctx, flavour, env.td, model, op)
    before, before_d, after, after_d, rm, rr = j.before, j.before_d, j.after, j.after_d, j.rm, j.rr
    bad, bad_k, bad_v, ks = j.bad, j.bad_k, j.bad_v, j.ks

    changed = not dict_same(before_d, after_d)
    evs = [e[1:] for e in env.raw1]
    prefix = None
    if env.silent:
        # nobody listens: contents, return value, exception class and failure
        # atomicity (all judged above) are all there is to observe
        ctx.count("silent_evaluations")
        if rr[0] == "exc":
            ctx.count("silent_failures_checked")
            if bad and len(ks) > 1:
                ctx.count("silent_bulk_rejections_checked")
    if env.copied:
        ctx.count("ops_on_copies")
    if op[0] in ("update", "ior") and op[1] in MAPPING_CLASSES:
        ctx.count("mapping_class_evaluations")
    late = env.registry is not None
    if late:
        ctx.count("late_listener_evaluations")
        ctx.count("late_listener_" + env.route[5:])
        if changed:
            ctx.count("late_listener_changes_checked")
    if complaint is None and late and not env.raw1 and (changed or env.raw2) \
            and not any(n is env.rec1 for n in env.td.notifiers):
        # the listener was added to the list the constructor was given and the
        # dict does not call it
        prefix = "ctor-notifier-list/" + env.route
        complaint = "listener-added-later-not-notified"
    elif complaint is None and not env.silent:
        if any(not e[0] for e in env.raw1 + env.raw2):
            complaint = "notifier-got-another-dict"
        elif env.has_raw2:
            ctx.count("raw_pairs_compared")
            if env.after_observer:
                ctx.count("raw_after_observer_compared")
            e2 = [e[1:] for e in env.raw2]
            if len(e2) != len(evs) or any(
                    not (dict_same(x[0], y[0]) and dict_same(x[1], y[1]) and dict_same(x[2], y[2]))
                    for x, y in zip(evs, e2)):
                prefix = "notifier-order"
                complaint = "raw-args-differ-between-notifiers"
    if complaint is None and not env.silent:
        if changed and len(evs) != 1:
            complaint = "changed-with-%s-events" % ("no" if not evs else "several")
        else:
            for r, a, c in evs:
                ctx.count("events_checked")
                complaint = event_law(before_d, after_d, r, a, c)
                if complaint:
                    break
    if complaint is None and env.n_obs:
        for lg in env.obs_logs:
            if len(lg) != len(evs):
                prefix, complaint = "observer", "event-count-differs-from-notifications"
                break
            for (is_td, orem, oadd), (r, a, c) in zip(lg, evs):
                ctx.count("observer_events_checked")
                exp_rem = dict(r)
                exp_rem.update(c)
                exp_add = dict(a)
                for k in c:
                    if k in after_d:
                        exp_add[k] = after_d[k]
                if not is_td:
                    prefix, complaint = "observer", "event-object-is-not-the-dict"
                elif not dict_same(orem, exp_rem):
                    prefix, complaint = "observer", "removed-is-not-removed-plus-old-changed"
                elif not dict_same(oadd, exp_add):
                    prefix, complaint = "observer", "added-is-not-added-plus-new-changed"
                if complaint:
                    break
            if complaint:
                break

    if changed or evs or rr[0] == "exc":
        evshape = tuple((min(len(r), 2), min(len(a), 2), min(len(c), 2)) for r, a, c in evs[:2])
        ctx.sig(flavour, op_name(op), arg_shape(op), min(len(before), 3),
                rr[0] if rr[0] == "ok" else rr[1].__name__, evshape, bad_k, bad_v,
                env.n_obs, env.after_observer, env.silent, env.copied, late)
    if complaint:
        key = "%s/%s" % (prefix or op_name(op), complaint)
        ctx.violation(
            key, "%s on %s dict: op=%r model=%r real=%r raw1=%r raw2=%r observers=%r before=%r "
                 "after=%r (observers=%d, 2nd raw notifier after an observer: %s, no notifier "
                 "attached: %s, dict is a copy: %s, first raw notifier registered by: %s)"
            % (complaint, flavour, op, rm, rr, env.raw1[:2], env.raw2[:2],
               [lg[:2] for lg in env.obs_logs], before, after, env.n_obs, env.after_observer,
               env.silent, env.copied, env.route),
            {"flavour": flavour, "before": before, "op": op, "raw1": env.raw1[:3],
             "raw2": env.raw2[:3], "observer_events": [lg[:3] for lg in env.obs_logs],
             "after": after, "model_outcome": rm, "real_outcome": rr,
             "n_observers": env.n_obs, "raw2_slot": env.slot, "silent": env.silent,
             "copied": env.copied, "route": env.route})
    return complaint


def check_mapping_class(ctx, env, model, op):
    """check_one for the mapping-class stratum, with its counters."""
    shape, payload = op[1], op[2]
    complaint = check_one(ctx, env, model, op)
    ctx.count("mapping_class_cases")
    ctx.count("mapping_class_unregistered" if shape in DUCK_SHAPES else "mapping_class_registered")
    if complaint is None:
        if any(_invalid(KV[env.flavour], k) or _invalid(VV[env.flavour], v) for k, v in payload):
            ctx.count("mapping_class_rejections_checked")
        elif any(pairlike(k) for k, v in payload):
            # judged equal to the built-in: the key went in as a key
            ctx.count("mapping_class_pairlike_keys_stored")
            if shape in DUCK_SHAPES:
                ctx.count("mapping_class_pairlike_keys_stored_unregistered")
    return complaint


# -- re-entrancy ------------------------------------------------------------------
REACTOR_KINDS = ("notifier", "observe", "items")      # "items": Dict traits only
TRIGGERS = ("any", "added", "removed", "changed")


class ReEnv:
    """A dict with a *mirror* registered first (it rebuilds the contents from the
    notifications alone), a *reactor* (plain notifier / observe handler / <name>_items
    listener) that answers chosen notifications with 1..3 further operations on the
    same dict, and a plain recorder registered last.  Nested operations are judged
    like top-level ones, against the same model, at the point where they happen."""

    def __init__(self, ctx, flavour, state, kind, trigger, rng=None, scripts=None,
                 max_reactions=2, max_depth=2):
        self.ctx, self.flavour, self.kind, self.trigger = ctx, flavour, kind, trigger
        self.rng, self.scripts = rng, scripts
        self.max_reactions, self.max_depth = max_reactions, max_depth
        self.root = None
        if flavour == "tdo":
            self.root = Holder(d=dict(state))
            self.td, name = self.root.d, "d"
        elif flavour == "tdi":
            self.root = Holder(di=dict(state))
            self.td, name = self.root.di, "di"
        else:
            kw = {}
            if flavour != "none":
                kw = {"key_validator": KV[flavour], "value_validator": VV[flavour]}
            self.td, name = TraitDict(dict(state), **kw), "x"
            if kind == "observe":
                self.root = Box(x=self.td)
        self.model = model_of(flavour, state)
        self.mirror = dict(self.td)
        self.mirror_log, self.late_log = [], []
        self.mirror_complaint = None
        self.nested_complaint = None
        self.nested_ops = []
        self.events = 0                  # notifications seen by the mirror
        self.frames = []                 # events that belong to operations in flight
        self.depth = 0
        self.reactions_left = 0
        self.script_no = 0
        self.td.notifiers.insert(0, self._mirror)
        if kind == "notifier":
            self.td.notifiers.append(self._react_raw)
        elif kind == "observe":
            self.root.observe(self._react_event, name + ".items")
        else:
            self.root.on_trait_change(self._react_items, name + "_items")
        self.td.notifiers.append(self._late)

    # -- listeners
    def _mirror(self, d, removed, added, changed):
        self.events += 1
        self.ctx.count("reentrant_mirror_events")
        if self.depth:
            self.ctx.count("reentrant_nested_events")
        self.mirror_log.append((dict(removed), dict(added), dict(changed)))
        m, c = self.mirror, None
        if d is not self.td:
            c = "notifier-got-another-dict"
        elif not removed and not added and not changed:
            c = "event-all-parts-empty"
        for k, v in removed.items():
            if k not in m or m[k] is not v:
                c = c or "removed-item-not-in-contents-at-that-time"
        for k, v in added.items():
            if k in m:
                c = c or "added-key-present-in-contents-at-that-time"
        for k, v in changed.items():
            if k not in m or m[k] is not v:
                c = c or "changed-old-value-not-in-contents-at-that-time"
            if k not in self.td:
                c = c or "changed-key-gone"
        for k in removed:
            m.pop(k, None)
        m.update(added)
        for k in changed:
            if k in self.td:
                m[k] = self.td[k]
        if not c and not dict_same(m, dict(self.td)):
            # first in line: nothing ran since the operation, so the contents rebuilt
            # from the notification are the contents the dict holds now
            c = "contents-rebuilt-from-event-are-not-the-current-contents"
        if c and self.mirror_complaint is None:
            self.mirror_complaint = c

    def _late(self, d, removed, added, changed):
        self.late_log.append((dict(removed), dict(added), dict(changed)))

    def _react_raw(self, d, removed, added, changed):
        self._react(bool(removed), bool(added), bool(changed))

    def _react_items(self, event):
        self._react(bool(event.removed), bool(event.added), bool(event.changed))

    def _react_event(self, event):
        both = set(event.removed) & set(event.added)
        self._react(len(event.removed) > len(both), len(event.added) > len(both), bool(both))

    def _react(self, has_removed, has_added, has_changed):
        if self.depth >= self.max_depth or self.reactions_left <= 0:
            return
        t = self.trigger
        if not (t == "any" or (t == "added" and has_added) or (t == "removed" and has_removed)
                or (t == "changed" and has_changed)):
            return
        self.reactions_left -= 1
        self.depth += 1
        self.ctx.count("reentrant_reactions")
        try:
            if self.scripts is not None:
                ops = self.scripts[self.script_no % len(self.scripts)]
                self.script_no += 1
            else:
                ops = [None] * self.rng.randint(1, 3)
            for op in ops:
                if self.nested_complaint is not None:
                    break
                if op is None:               # drawn against the contents of that moment
                    op = random_op(self.rng, self.flavour, self.model, False)
                elif is_f13(op, self.model, self.flavour):
                    continue                 # that open finding has its own stratum
                self._nested(op)
        finally:
            self.depth -= 1

    def run_op(self, op, commit_first=True):
        """Judge one operation (top-level or nested); returns (complaint, Judged,
        number of notifications that belong to this operation itself)."""
        start = self.events
        self.frames.append(0)
        complaint, j = judge_op(self.ctx, self.flavour, self.td, self.model, op,
                                commit_first=commit_first)
        inner = self.frames.pop()
        total = self.events - start
        if self.frames:
            self.frames[-1] += total
        own = total - inner
        if complaint is None and j.own_changed and own != 1:
            complaint = "changed-with-%s-events" % ("no" if not own else "several")
        return complaint, j, own

    def _nested(self, op):
        self.ctx.count("reentrant_nested_ops")
        self.nested_ops.append((self.depth,) + tuple(op))
        complaint, j, own = self.run_op(op)
        if j.own_changed:
            self.ctx.count("reentrant_nested_content_changes")
        if complaint and self.nested_complaint is None:      # the innermost one came first
            self.nested_complaint = (op, complaint, j)


def check_reentrant(ctx, renv, op):
    """One top-level operation on a dict with a re-entrant listener."""
    renv.reactions_left = renv.max_reactions
    del renv.mirror_log[:], renv.late_log[:], renv.nested_ops[:]
    renv.mirror_complaint = renv.nested_complaint = None
    ctx.count("reentrant_ops")
    complaint, j, own = renv.run_op(op)
    key = None
    if renv.nested_complaint:            # it happened first
        nop, complaint, nj = renv.nested_complaint
        key = "reentrant/nested-%s/%s" % (op_name(nop), complaint)
    elif complaint:
        key = "reentrant/outer-%s/%s" % (op_name(op), complaint)
    if key is None and renv.mirror_complaint:
        complaint = renv.mirror_complaint
        key = "reentrant/first-listener/" + complaint
    if key is None:
        ctx.count("reentrant_quiescence_checks")
        if not dict_same(renv.mirror, dict(renv.td)):
            complaint = "contents-rebuilt-from-events-differ-at-quiescence"
            key = "reentrant/first-listener/" + complaint
    if key is None:
        # a listener registered after the re-entrant one hears of nested operations
        # before the outer one (delivery is depth-first): only the set of
        # notifications is demanded of it, not their order
        rest = list(renv.late_log)
        for ev in renv.mirror_log:
            for i, lv in enumerate(rest):
                if all(dict_same(x, y) for x, y in zip(ev, lv)):
                    del rest[i]
                    break
            else:
                complaint = "notification-missing"
                break
        if complaint is None and rest:
            complaint = "extra-notification"
        if complaint:
            key = "reentrant/last-listener/" + complaint
    if len(renv.nested_ops) >= 2:
        ctx.count("reentrant_ops_with_2_or_more_nested")
    if renv.nested_ops or renv.mirror_log or j.rr[0] == "exc":
        ctx.sig("reentrant", renv.flavour, renv.kind, renv.trigger, op_name(op),
                j.rr[0] if j.rr[0] == "ok" else j.rr[1].__name__,
                min(len(renv.nested_ops), 4), max([d for d, *_ in renv.nested_ops] or [0]),
                renv.nested_ops[0][1] if renv.nested_ops else None, min(len(renv.mirror_log), 4))
    if key:
        ctx.violation(
            key, "%s on %s dict with a re-entrant %s (reacts to %s): op=%r nested=%r model=%r "
                 "real=%r before=%r after=%r first-listener events=%r last-listener events=%r "
                 "contents rebuilt by first listener=%r"
            % (complaint, renv.flavour, renv.kind, renv.trigger, op, renv.nested_ops, j.rm, j.rr,
               j.before, j.after, renv.mirror_log[:6], renv.late_log[:6], renv.mirror),
            {"flavour": renv.flavour, "kind": renv.kind, "trigger": renv.trigger, "op": op,
             "nested": renv.nested_ops, "before": j.before, "after": j.after,
             "first_listener": renv.mirror_log[:6], "last_listener": renv.late_log[:6]})
    return key


def is_f13(op, model, flavour):
    """setdefault with a raw key that is absent while its validated form is present
    (known finding F13, exercised in the main strata only)."""
    if op[0] != "setdefault" or op[1] is UNHASH:
        return False
    try:
        return op[1] not in model and KV[flavour](op[1]) in model
    except (TraitError, TypeError):
        return False


def reaction_scripts(flavour):
    """Fixed reactions for the exhaustive part: 1..3 operations, several of them
    content-changing, keys that collide with the start states and fresh ones."""
    uni = START_UNIVERSE[flavour]
    a, b = uni[0], uni[-1]
    return [
        [("setitem", a, V(301))],
        [("setitem", a, V(302)), ("setitem", a, V(303))],
        [("setitem", b, V(304)), ("setitem", a, V(305)), ("popd", b, None)],
        [("popd", a, None), ("setitem", a, V(306))],
        [("update", "pairs", [(a, V(307)), (b, V(308))]), ("delitem", a)],
        [("clear",), ("setdefault", b, V(309))],
        [("setdefault", a, V(310)), ("setitem", b, V(311)), ("popitem",)],
        [("ior", "map", [(b, V(312))]), ("setitem", b, V(313)), ("clear",)],
    ]


# -- copies -------------------------------------------------------------------------
COPY_MODES = [("copy", None), ("deepcopy", None), ("method", None)] + \
             [("pickle", p) for p in range(pickle.HIGHEST_PROTOCOL + 1)]


def do_copy(td, mode, proto):
    if mode == "copy":
        return copy.copy(td)
    if mode == "deepcopy":
        return copy.deepcopy(td)
    if mode == "method":
        return td.copy()
    return pickle.loads(pickle.dumps(td, proto))


def take_copy(ctx, env, model, mode, proto, silent):
    """Copy env.td.  Returns ("twin", Env, model) when the copy is a validating
    TraitDict equal to the original (bare flavours: it is then driven and judged like
    the original; copies drop the transient notifiers and keep the validators, so
    this is the other way to get a validating dict nobody listens to), ("side", obj,
    None) for any other dict (d.copy(), a detached TraitDictObject copy, a copy whose
    keys went through a non-idempotent validator again), None when copying failed.
    The property says nothing about what a copy must look like, so none of this is
    judged; what is judged afterwards is that the events delivered for one dict are
    deltas of that dict: a change to either object must leave the other one alone."""
    flavour = env.flavour
    ctx.count("copies_taken")
    try:
        c = do_copy(env.td, mode, proto)
    except Exception:
        ctx.count("copies_unusable")
        return None
    if not isinstance(c, dict) or c is env.td:
        ctx.count("copies_unusable")
        return None
    ok = type(c) is TraitDict and flavour not in HT
    if ok and flavour != "none":
        ok = c.key_validator is KV[flavour] and c.value_validator is VV[flavour]
    if ok:
        mine, theirs = list(model.items()), list(c.items())
        ok = len(mine) == len(theirs) and all(
            key_same(a[0], b[0]) and (a[1] is b[1] or repr(a[1]) == repr(b[1]))
            for a, b in zip(mine, theirs))
    ctx.sig("copy", flavour, mode, proto, min(len(model), 3), silent, ok)
    if not ok:
        ctx.count("copies_kept_as_side_object")
        return "side", c, None
    ctx.count("copies_continued")
    ctx.count("copies_continued_" + ("silent" if silent else "recorded"))
    cenv = Env(flavour, (), 0, "first", silent=silent, td=c)
    return "twin", cenv, dict(c.items())          # deep copies hold new value objects


def untouched(env, model):
    """None when env's dict was left alone since its logs were cleared: nothing was
    delivered to its recorders / observers and it still holds `model`."""
    if env.raw1 or env.raw2 or any(env.obs_logs):
        return "notified"
    if env.silent and env.td.notifiers:
        return "given-a-notifier"            # nobody listens: this is all one can see
    if not items_same_ordered(list(env.td.items()), list(model.items())):
        return "changed"
    return None


def isolation_violation(ctx, mode, who, what, by, env, model, detail):
    ctx.violation("copy-isolation/%s/%s-%s-by-change-to-%s" % (mode, who, what, by),
                  "a change to the %s %s the %s (%s of a %s dict): %r; recorder of the "
                  "untouched dict got raw1=%r raw2=%r observers=%r, it holds %r, expected %r"
                  % (by, {"given-a-notifier": "put a notifier on"}.get(what, what), who, mode,
                     env.flavour, detail, env.raw1[:2], env.raw2[:2],
                     [lg[:2] for lg in env.obs_logs], list(env.td.items()), list(model.items())),
                  {"flavour": env.flavour, "mode": mode, "detail": detail})


def side_mutate(rng, obj, flavour, serial):
    """An unjudged valid mutation of a side object (a plain dict / detached copy)."""
    uni = START_UNIVERSE[flavour]
    k = uni[rng.randrange(len(uni))] if rng is not None else uni[serial % len(uni)]
    c = rng.randrange(5) if rng is not None else serial % 5
    what = ("setitem", "update", "pop", "setdefault", "clear")[c]
    try:
        if c == 0:
            obj[k] = V(500 + serial)
        elif c == 1:
            obj.update([(k, V(600 + serial))])
        elif c == 2:
            obj.pop(k, None)
        elif c == 3:
            obj.setdefault(k, V(700 + serial))
        else:
            obj.clear()
    except Exception as e:                       # detached copies owe us nothing
        what += ":" + type(e).__name__
    return (what, k)


# -- generators -----------------------------------------------------------------
def validated_universe(flavour):
    out = []
    for k in KEYS[flavour]:
        try:
            vk = KV[flavour](k)
        except TraitError:
            continue
        if not any(vk == o for o in out):
            out.append(vk)
    return out


def start_universe(flavour, keys=None):
    """Raw keys that are valid and whose validated forms are pairwise distinct.  For
    idempotent validators the validated form itself is used."""
    out, seen = [], []
    for k in (keys or KEYS[flavour]):
        try:
            vk = KV[flavour](k)
        except TraitError:
            continue
        if any(vk == o for o in seen):
            continue
        seen.append(vk)
        out.append(k if flavour in NONIDEMPOTENT else vk)
    return out


START_UNIVERSE = {f: start_universe(f) for f in KEYS}
CLASS_START_UNIVERSE = {f: start_universe(f, CLASS_KEYS[f]) for f in CLASS_KEYS}


def model_of(flavour, state):
    """The dict a TraitDict built from the raw `state` must hold."""
    return {KV[flavour](k): VV[flavour](v) for k, v in state}


def start_states(flavour, smax, uni=None):
    uni = uni or START_UNIVERSE[flavour]
    for n in range(0, smax + 1):
        for combo in itertools.combinations(uni, n):
            yield [(k, V(i)) for i, k in enumerate(combo)]


def single_ops(flavour):
    """Every single operation of the exhaustive grid."""
    keys = KEYS[flavour]
    has_bad = flavour != "none"
    N = V(100)
    vals = [N]
    if has_bad:
        vals.append(BADV)
    if flavour == "coerce":
        vals.append(7)
    if flavour in HT:
        vals.append(None)
    for k in keys + [UNHASH]:
        for v in vals:
            yield ("setitem", k, v)
            yield ("setdefault", k, v)
        yield ("setdefault", k)
        yield ("delitem", k)
        yield ("pop", k)
        yield ("popd", k, DEFAULT)
        yield ("popd", k, None)
    yield ("popitem",)
    yield ("clear",)
    for name in ("update", "ior"):
        yield (name, "self", None)
        for n in (0, 1, 2):
            for ks in itertools.product(keys, repeat=n):
                payload = [(k, V(200 + i)) for i, k in enumerate(ks)]
                variants = [payload]
                if has_bad:
                    for pos in range(n):
                        p = list(payload)
                        p[pos] = (p[pos][0], BADV)
                        variants.append(p)
                if flavour == "coerce" and n:
                    p = list(payload)
                    p[-1] = (p[-1][0], 9)
                    variants.append(p)
                for p in variants:
                    yield (name, "pairs", p)
                    if n < 2 or not (ks[0] == ks[1]):
                        yield (name, "map", p)
                if n == 2:
                    yield (name, "gen", payload)
                if n == 1 and not _invalid(KV[flavour], ks[0]):
                    # its own stratum: valid items only, so that the one open
                    # finding on this argument shape keeps one key
                    yield (name, "keysonly", payload)
        k0 = keys[0]
        for lit in (5, None, [1], [(k0,)], [(k0, N, N)], ["ab"], [(k0, N), (k0,)],
                    [(UNHASH, N)], [(k0, N), 3]):
            yield (name, "raw", lit)


def pairlike(k):
    """A key that a reader expecting (key, value) pairs would take for one."""
    return isinstance(k, (str, tuple)) and len(k) == 2


def class_ops(flavour):
    """update / |= payloads for the mapping-class stratum (the class is chosen by
    the caller): 0..2 distinct keys, an invalid value at each position."""
    keys = CLASS_KEYS[flavour]
    has_bad = flavour != "none"
    for name in ("update", "ior"):
        yield (name, [])
        for n in (1, 2):
            for ks in itertools.permutations(keys, n):
                if n == 2 and ks[0] == ks[1]:
                    continue
                payload = [(k, V(200 + i)) for i, k in enumerate(ks)]
                yield (name, payload)
                if has_bad:
                    for pos in range(n):
                        p = list(payload)
                        p[pos] = (p[pos][0], BADV)
                        yield (name, p)
                if flavour == "coerce":
                    p = list(payload)
                    p[-1] = (p[-1][0], 9)
                    yield (name, p)


def random_value(rng, flavour):
    r = rng.random()
    if flavour != "none" and r < 0.08:
        return BADV
    if flavour == "coerce" and r < 0.4:
        return rng.randrange(64)
    if flavour in HT and r < 0.15:
        return None
    return V(rng.randrange(10 ** 6))


def random_op(rng, flavour, model, allow_collide):
    keys = KEYS[flavour]
    kv = KV[flavour]

    def key():
        if rng.random() < 0.02:
            return UNHASH
        return rng.choice(keys)

    def val():
        return random_value(rng, flavour)

    def pairs(nmax):
        return [(rng.choice(keys), val()) for _ in range(rng.randint(0, nmax))]

    c = rng.randrange(20)
    if c in (0, 1, 2):
        return ("setitem", key(), val())
    if c == 3:
        return ("delitem", key())
    if c == 4:
        return ("pop", key())
    if c == 5:
        return ("popd", key(), rng.choice([DEFAULT, None]))
    if c == 6:
        return ("popitem",)
    if c == 7:
        return ("clear",) if rng.random() < 0.4 else ("popitem",)
    if c in (8, 9, 10):
        for _ in range(8):
            k = key()
            if allow_collide or k is UNHASH:
                break
            # stratification (DESIGN 2.2): a raw key that is absent while its
            # validated form is present is drawn in the "collide" stratum only
            try:
                if k in model or kv(k) not in model:
                    break
            except TraitError:
                break
        else:
            return ("setitem", key(), val())
        return ("setdefault", k, val()) if rng.random() < 0.75 else ("setdefault", k)
    name = "update" if c < 16 else "ior"
    r = rng.random()
    if r < 0.40:
        p = pairs(3)
        seen = []
        p = [(k, v) for k, v in p if not any(k == s for s in seen) and not seen.append(k)]
        return (name, "map", p)
    if r < 0.80:
        return (name, "pairs", pairs(4))
    if r < 0.90:
        return (name, "gen", pairs(4))
    if r < 0.94:
        return (name, "self", None)
    if r < 0.97:
        # a mapping of some class other than dict; two-element keys among the keys
        pool = keys + CLASS_KEYS.get(flavour, [])
        p = [(rng.choice(pool), val()) for _ in range(rng.randint(0, 3))]
        seen = []
        p = [(k, v) for k, v in p if not any(k == s for s in seen) and not seen.append(k)]
        shape = rng.choice(DUCK_SHAPES) if rng.random() < 0.6 else rng.choice(REGISTERED_SHAPES)
        return (name, shape, p)
    k0 = rng.choice(keys)
    return (name, "raw", rng.choice([5, None, [1], [(k0,)], [(k0, V(5), V(6))], ["ab"],
                                     [(k0, V(7)), (k0,)], [(UNHASH, V(8))]]))


def run(ctx):
    # an exception inside an observer notifier must surface as a failing operation
    obs_api.push_exception_handler(handler=lambda event: None, reraise_exceptions=True)
    # likewise for <name>_items listeners (the re-entrant ones catch what their own
    # operations raise; anything else must not be swallowed)
    push_exception_handler(handler=lambda *args: None, reraise_exceptions=True, main=True)
    smax = 3
    # ---- exhaustive single operations ---------------------------------------
    gi = 0
    for flavour in ("coerce", "tdo", "reject", "none", "strict", "shift", "tdi"):
        ops = list(single_ops(flavour))
        for si, state in enumerate(start_states(flavour, smax)):
            batch = []
            for op in ops:
                gi += 1
                if ctx.mine(gi // 64):
                    batch.append((gi, op))
            if not ctx.begin("ex:%s:%d" % (flavour, si),
                             {"flavour": flavour, "state": state, "ops": len(batch)}):
                continue
            try:
                for g, op in batch:
                    for ci, (n_obs, slot) in enumerate(OBS_CONFIGS[:5]):
                        env = Env(flavour, state, n_obs, slot, ctor_notifier=ROUTES[(g + ci) % 5])
                        model = model_of(flavour, state)
                        check_one(ctx, env, model, op)
                        ctx.count("exhaustive_cases")
                    if flavour not in HT:
                        # nobody listening: never had a notifier
                        env = Env(flavour, state, 0, "first", silent=True)
                        check_one(ctx, env, model_of(flavour, state), op)
                        ctx.count("exhaustive_cases")
                        ctx.count("exhaustive_silent_cases")
                    # a fresh copy next to its (watched) original: the op goes to the
                    # copy, the original must not hear of it nor change
                    mode, proto = COPY_MODES[g % len(COPY_MODES)]
                    n_obs, slot = OBS_CONFIGS[(g // len(COPY_MODES)) % 3]
                    env = Env(flavour, state, n_obs, slot, ctor_notifier=flavour not in HT)
                    model = model_of(flavour, state)
                    got = take_copy(ctx, env, model, mode, proto, True)
                    if got:
                        env.clear_logs()
                        if got[0] == "twin":
                            check_one(ctx, got[1], got[2], op)
                            ctx.count("exhaustive_silent_cases")
                        else:
                            try:
                                apply_real(got[1], op)
                            except Exception:
                                pass
                        ctx.count("exhaustive_cases")
                        ctx.ev()
                        ctx.count("isolation_checks")
                        ctx.count("isolation_checks_copy_mutated")
                        what = untouched(env, model)
                        if what:
                            isolation_violation(ctx, mode, "original", what, "copy", env, model, op)
                if batch:
                    ctx.sample({"flavour": flavour, "start": state, "op": batch[len(batch) // 2][1]})
            finally:
                ctx.end()
    # ---- mapping classes: update / |= with mappings that are not dicts -----------
    # duck-typed ones offering keys() / items() / [] without being registered with
    # collections.abc.Mapping, and registered ones; keys that look like pairs
    gi = 0
    full = not ctx.quick
    for flavour in ("coerce", "tdo", "reject", "none", "shift"):
        ops = list(class_ops(flavour))
        for si, state in enumerate(start_states(flavour, 2, CLASS_START_UNIVERSE[flavour])):
            batch = []
            for op in ops:
                gi += 1
                if ctx.mine(gi // 64):
                    batch.append((gi, op))
            if not ctx.begin("mapcls:%s:%d" % (flavour, si),
                             {"flavour": flavour, "state": state, "ops": len(batch)}):
                continue
            try:
                for g, (name, payload) in batch:
                    if full:
                        shapes = CLASS_SHAPES
                        configs = list(enumerate(OBS_CONFIGS))
                    else:
                        shapes = DUCK_SHAPES + (REGISTERED_SHAPES[g % len(REGISTERED_SHAPES)],)
                        configs = [(g % 6, OBS_CONFIGS[g % 6])]
                    for xi, shape in enumerate(shapes):
                        op = (name, shape, payload)
                        for ci, (n_obs, slot) in configs:
                            env = Env(flavour, state, n_obs, slot,
                                      ctor_notifier=ROUTES[(g + ci + xi) % 5])
                            check_mapping_class(ctx, env, model_of(flavour, state), op)
                        if flavour not in HT and (full or (g + xi) % 4 == 0):
                            env = Env(flavour, state, 0, "first", silent=True)
                            check_mapping_class(ctx, env, model_of(flavour, state), op)
                if batch:
                    ctx.sample({"stratum": "mapping-class", "flavour": flavour, "start": state,
                                "op": batch[len(batch) // 2][1]})
            finally:
                ctx.end()
    # ---- re-entrant listeners: exhaustive single operations x fixed reactions ----
    gi = 0
    for flavour, rmax in (("coerce", 2), ("tdo", 2), ("reject", 1), ("shift", 1)):
        ops = [op for op in single_ops(flavour) if not (op[0] in ("update", "ior")
                                                        and op[1] == "keysonly")]
        scripts = reaction_scripts(flavour)
        kinds = REACTOR_KINDS if flavour in HT else REACTOR_KINDS[:2]
        for si, state in enumerate(start_states(flavour, rmax)):
            batch = []
            for op in ops:
                gi += 1
                if ctx.mine(gi // 64):
                    batch.append((gi, op))
            if not ctx.begin("rex:%s:%d" % (flavour, si),
                             {"flavour": flavour, "state": state, "ops": len(batch)}):
                continue
            try:
                for g, op in batch:
                    k = len(scripts)
                    if is_f13(op, model_of(flavour, state), flavour):
                        continue
                    renv = ReEnv(ctx, flavour, state, kinds[g % len(kinds)],
                                 "any", scripts=scripts[g % k:] + scripts[:g % k])
                    check_reentrant(ctx, renv, op)
                    ctx.count("reentrant_exhaustive_cases")
                if batch:
                    ctx.sample({"stratum": "reentrant", "flavour": flavour, "start": state,
                                "op": batch[len(batch) // 2][1]})
            finally:
                ctx.end()
    # ---- re-entrant listeners: random histories ----------------------------------
    nr = ctx.scale(3000, 80000)
    for h in range(nr):
        if not ctx.mine(h):
            continue
        if not ctx.begin("rehist:%d" % h):
            continue
        try:
            rng = ctx.rng("rehist", h)
            flavour = rng.choice(["reject", "coerce", "tdo", "coerce", "tdo", "none", "strict",
                                  "shift", "tdi"])
            kind = rng.choice(REACTOR_KINDS if flavour in HT else REACTOR_KINDS[:2])
            uni = list(START_UNIVERSE[flavour])
            rng.shuffle(uni)
            state = [(k, V(i)) for i, k in enumerate(uni[:rng.randint(0, 4)])]
            renv = ReEnv(ctx, flavour, state, kind, rng.choice(TRIGGERS), rng=rng,
                         max_reactions=rng.choice([1, 2, 2, 3]), max_depth=rng.choice([1, 1, 2]))
            ctx.count("reentrant_histories")
            ops = []
            for step in range(15):
                op = random_op(rng, flavour, renv.model, False)
                ops.append(op)
                if check_reentrant(ctx, renv, op):
                    break
            if h < 2 * ctx.nshards:
                ctx.sample({"stratum": "reentrant", "flavour": flavour, "reactor": kind,
                            "trigger": renv.trigger, "start": state, "history": ops[:5]})
        finally:
            ctx.end()
    # ---- random histories -----------------------------------------------------
    nh = ctx.scale(16000, 400000)
    for h in range(nh):
        if not ctx.mine(h):
            continue
        if not ctx.begin("hist:%d" % h):
            continue
        try:
            rng = ctx.rng("hist", h)
            r = rng.random()
            stratum = "plain" if r < 0.6 else "collide" if r < 0.72 else "order"
            if stratum == "collide":
                flavour = rng.choice(["coerce", "tdo", "shift"])
            else:
                flavour = rng.choice(["reject", "coerce", "tdo", "coerce", "tdo", "none",
                                      "strict", "shift", "tdi", "strict", "shift"])
            if stratum == "order":
                n_obs, slot = rng.choice([(1, "last"), (2, "mid"), (2, "last")])
            else:
                n_obs, slot = rng.choice([(0, "first"), (0, "first"), (1, "first"), (2, "first")])
            uni = list(START_UNIVERSE[flavour])
            rng.shuffle(uni)
            state = [(k, V(i)) for i, k in enumerate(uni[:rng.randint(0, 4)])]
            # nobody-listening ingredients (bare flavours only: a TraitDictObject
            # always carries its own notifier and its copies are detached)
            silent = flavour not in HT and n_obs == 0 and rng.random() < 0.35
            copy_at, mode, proto, copy_silent = -1, None, None, False
            if rng.random() < 0.4:
                copy_at = rng.randint(0, 14)
                r = rng.random()
                mode, proto = COPY_MODES[0] if r < 0.3 else COPY_MODES[1] if r < 0.5 else \
                    COPY_MODES[2] if r < 0.6 else rng.choice(COPY_MODES[3:])
                copy_silent = rng.random() < 0.7
            if silent:
                env = Env(flavour, state, 0, "first", silent=True)
                ctx.count("histories_started_silent")
            else:
                route = rng.random() < 0.5
                rr = ctx.rng("route", h)
                if rr.random() < 0.3:
                    route = rr.choice(LATE_ROUTES)
                env = Env(flavour, state, n_obs, slot, ctor_notifier=route)
            model = model_of(flavour, state)
            ops = []
            ctx.count("histories_" + stratum)
            twin = side = None          # (Env, model) of a judged copy / an unjudged side dict
            side_snap = None
            for step in range(20):
                if step == copy_at:
                    got = take_copy(ctx, env, model, mode, proto, copy_silent)
                    ops.append(("<copy>", mode, proto, copy_silent, got and got[0]))
                    if got and got[0] == "twin":
                        twin = (got[1], got[2])
                    elif got:
                        side, side_snap = got[1], list(got[1].items())
                stop = False
                if twin is not None:
                    # both objects stay alive; most operations go to the copy
                    on_copy = rng.random() < 0.7
                    (tenv, tmodel), (oenv, omodel) = (twin, (env, model)) if on_copy \
                        else ((env, model), twin)
                    oenv.clear_logs()
                    op = random_op(rng, flavour, tmodel, stratum == "collide")
                    ops.append(("copy" if on_copy else "original",) + op)
                    ctx.count("history_ops")
                    if op[0] in ("update", "ior") and op[1] in MAPPING_CLASSES:
                        ctx.count("history_mapping_class_ops")
                    stop = bool(check_one(ctx, tenv, tmodel, op))
                    if not stop:
                        ctx.ev()
                        ctx.count("isolation_checks")
                        ctx.count("isolation_checks_%s_mutated" % ("copy" if on_copy else "original"))
                        what = untouched(oenv, omodel)
                        if what:
                            isolation_violation(ctx, mode, "original" if on_copy else "copy", what,
                                                "copy" if on_copy else "original", oenv, omodel, op)
                            stop = True
                elif side is not None and rng.random() < 0.5:
                    env.clear_logs()
                    did = side_mutate(rng, side, flavour, step)
                    ops.append(("side",) + did)
                    side_snap = list(side.items())
                    ctx.ev()
                    ctx.count("side_mutations")
                    ctx.count("isolation_checks")
                    ctx.count("isolation_checks_copy_mutated")
                    what = untouched(env, model)
                    if what:
                        isolation_violation(ctx, mode, "original", what, "copy", env, model, did)
                        stop = True
                else:
                    op = random_op(rng, flavour, model, stratum == "collide")
                    ops.append(op)
                    ctx.count("history_ops")
                    if op[0] in ("update", "ior") and op[1] in MAPPING_CLASSES:
                        ctx.count("history_mapping_class_ops")
                    stop = bool(check_one(ctx, env, model, op))
                    if side is not None and not stop:
                        ctx.ev()
                        ctx.count("isolation_checks")
                        ctx.count("isolation_checks_original_mutated")
                        if not items_same_ordered(list(side.items()), side_snap):
                            ctx.violation("copy-isolation/%s/copy-changed-by-change-to-original" % mode,
                                          "a change to the original changed its %s copy (%s dict): "
                                          "op=%r copy=%r expected=%r"
                                          % (mode, flavour, op, list(side.items()), side_snap),
                                          {"flavour": flavour, "mode": mode, "op": op})
                            stop = True
                if stop:
                    break
            if h < 3 * ctx.nshards:
                ctx.sample({"flavour": flavour, "stratum": stratum, "observers": n_obs,
                            "raw2_slot": slot, "silent": silent, "start": state,
                            "history": ops[:6]})
        finally:
            ctx.end()
