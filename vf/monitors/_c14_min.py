"""C14 sub-check A, minimal family: module-level classes that carry exactly ONE
liveness feature each (one post_init observer, one ordinary observer, one observed
property, one items handler, one bare container, one legacy listener, one depends_on
property, one delegate ...), so that the re-initialisation of one mechanism after a
copy cannot be masked by another mechanism of the same class (e.g. HasTraits keeps a
per-class table of legacy listeners whose emptiness selects a different code path).

Every class goes through the same ten copy modes as the feature-rich `Obj` and the
probe relevant to its feature: exactly-once notification on the copy and nothing on
the original, fresh property values, rejected / converted items, delegated reads and
writes through the copy's own delegate, write-once, transient reset.
"""
import collections

from traits.api import (
    HasTraits, TraitError, Undefined, Int, CInt, Str, List, Dict, Set, Instance, ReadOnly, Property,
    cached_property, observe, on_trait_change, DelegatesTo, PrototypedFrom, Event,
)

from vf.reference import plainify
from vf.util import same, short
from vf.monitors._c14_objs import COPY_MODES

MLOG = []


def _log(obj, tag):
    MLOG.append((obj, tag))


# --------------------------------------------------------------------------- the family
class MinTarget(HasTraits):
    v = Int(2)
    color = Str("red")


class MinObsPost(HasTraits):
    n = Int

    @observe("n", post_init=True)
    def _o(self, event):
        _log(self, "o:n:post")


class MinObsPostItems(HasTraits):
    xs = List(Int)

    @observe("xs:items", post_init=True)
    def _o(self, event):
        _log(self, "o:xs:items:post")


class MinObsPostSub(MinObsPost):
    """nothing new: the feature is inherited"""


class MinObs(HasTraits):
    n = Int

    @observe("n")
    def _o(self, event):
        _log(self, "o:n")


class MinObsItems(HasTraits):
    xs = List(Int)

    @observe("xs.items")
    def _o(self, event):
        _log(self, "o:xs.items")


class MinObsNested(HasTraits):
    ll = List(List(Int))

    @observe("ll:items:items")
    def _o(self, event):
        _log(self, "o:ll:items:items")


class MinObsChild(HasTraits):
    child = Instance(MinTarget)

    @observe("child.v")
    def _o(self, event):
        _log(self, "o:child.v")


class MinObsDict(HasTraits):
    d = Dict(Str, Int)

    @observe("d.items")
    def _o(self, event):
        _log(self, "o:d.items")


class MinObsSet(HasTraits):
    s = Set(Int)

    @observe("s.items", post_init=True)
    def _o(self, event):
        _log(self, "o:s.items:post")


class MinPropObserve(HasTraits):
    n = Int
    p = Property(observe="n")

    @cached_property
    def _get_p(self):
        return self.n * 2


class MinPropObserveItems(HasTraits):
    xs = List(Int)
    p = Property(observe="xs.items")

    @cached_property
    def _get_p(self):
        return sum(self.xs)


class MinPropDependsOn(HasTraits):
    n = Int
    p = Property(depends_on="n")

    @cached_property
    def _get_p(self):
        return self.n * 3


class MinPropDependsOnItems(HasTraits):
    xs = List(Int)
    p = Property(depends_on="xs[]")

    @cached_property
    def _get_p(self):
        return len(self.xs)


class MinStatic(HasTraits):
    n = Int

    def _n_changed(self, old, new):
        _log(self, "n")


class MinItemsHandler(HasTraits):
    xs = List(Int)

    def _xs_items_changed(self, event):
        _log(self, "xs_items")


class MinDictHandler(HasTraits):
    d = Dict(Str, Int)

    def _d_items_changed(self, event):
        _log(self, "d_items")


class MinSetHandler(HasTraits):
    s = Set(Int)

    def _s_items_changed(self, event):
        _log(self, "s_items")


class MinList(HasTraits):
    xs = List(Int)


class MinListC(HasTraits):
    xs = List(CInt, maxlen=5)


class MinNested(HasTraits):
    ll = List(List(Int, maxlen=3))


class MinDict(HasTraits):
    d = Dict(Str, List(Int))


class MinSet(HasTraits):
    s = Set(Int)


class MinOtc(HasTraits):
    n = Int

    @on_trait_change("n")
    def _l(self):
        _log(self, "l:n")


class MinOtcPost(HasTraits):
    n = Int

    @on_trait_change("n", post_init=True)
    def _l(self):
        _log(self, "l:n:post")


class MinOtcItems(HasTraits):
    xs = List(Int)

    @on_trait_change("xs_items")
    def _l(self):
        _log(self, "l:xs_items")


class MinOtcChild(HasTraits):
    child = Instance(MinTarget)

    @on_trait_change("child.v")
    def _l(self):
        _log(self, "l:child.v")


class MinDelegate(HasTraits):
    d = Instance(MinTarget)
    v = DelegatesTo("d")


class MinDelegateFirst(HasTraits):
    v = DelegatesTo("d")
    d = Instance(MinTarget)


class MinProto(HasTraits):
    d = Instance(MinTarget)
    color = PrototypedFrom("d")


class MinReadOnly(HasTraits):
    ro = ReadOnly


class MinTransient(HasTraits):
    n = Int
    t = Int(7, transient=True)


class MinEventListener(HasTraits):
    n = Int
    ping = Event

    def _ping_fired(self):
        _log(self, "ping")


# --------------------------------------------------------------------------- specs
def _ints(rng, k=None):
    return [rng.randint(0, 9) for _ in range(rng.randint(0, 4) if k is None else k)]


class Spec:
    """cls; make(rng) -> object in a random small state; steps(C, rng) -> list of
    ('notify', what, action, {tag: count}) / ('check', what, fn -> complaint | None)."""
    def __init__(self, cls, feature, make, steps, names=None, family="feature"):
        self.cls, self.feature, self.make, self.steps = cls, feature, make, steps
        self.names = names          # explicit persistent names (None: from the class declaration)
        self.family = family


def _set_n(C):
    C.n = C.n + 1


def _rejects(fn):
    """complaint unless fn raises TraitError"""
    def check():
        try:
            fn()
        except TraitError:
            return None
        except Exception as e:  # noqa: BLE001
            return "wrong-exception:" + type(e).__name__
        return "invalid-accepted"
    return check


def _fresh_prop(C, mutate, want):
    """warm the cache, mutate, the property must show the recomputed value"""
    def check():
        before = C.p
        mutate()
        got, exp = C.p, want()
        if not same(got, exp):
            return "property-stale (%r before, %r after, recomputed %r)" % (before, got, exp)
        return None
    return check


def _n_steps(tag):
    return lambda C, rng: [("notify", "n.set", lambda: _set_n(C), {tag: 1})]


def _xs_steps(tag, also=None):
    def steps(C, rng):
        out = [("notify", "xs.append", lambda: C.xs.append(3), {tag: 1}),
               ("check", "xs.append(bad)", _rejects(lambda: C.xs.append("bad")))]
        if len(C.xs):
            out.append(("notify", "xs.setitem", lambda: C.xs.__setitem__(0, 8), {tag: 1}))
        return out
    return steps


def build_specs():
    S = []

    def add(cls, feature, make, steps):
        S.append(Spec(cls, feature, make, steps))
    mk_n = lambda cls: (lambda rng: cls(n=rng.randint(0, 9)))            # noqa: E731
    mk_xs = lambda cls: (lambda rng: cls(xs=_ints(rng)))                 # noqa: E731
    add(MinObsPost, "observe(post_init)", mk_n(MinObsPost), _n_steps("o:n:post"))
    add(MinObsPostSub, "observe(post_init), inherited", mk_n(MinObsPostSub), _n_steps("o:n:post"))
    add(MinObsPostItems, "observe(items, post_init)", mk_xs(MinObsPostItems), _xs_steps("o:xs:items:post"))
    add(MinObs, "observe", mk_n(MinObs), _n_steps("o:n"))
    add(MinObsItems, "observe(items)", mk_xs(MinObsItems), _xs_steps("o:xs.items"))

    def nested_steps(tag):
        def steps(C, rng):
            out = []
            if len(C.ll):
                out.append(("notify", "ll[0].append", lambda: C.ll[0].append(1) if len(C.ll[0]) < 3
                            else C.ll[0].__setitem__(0, 9), {tag: 1} if tag else {}))
                out.append(("check", "ll[0].append(bad)", _rejects(lambda: C.ll[0].__setitem__(slice(0, 0), ["x"]))))
            out.append(("check", "ll.append([bad])", _rejects(lambda: C.ll.append(["x"]))))
            return out
        return steps
    mk_ll = lambda cls: (lambda rng: cls(ll=[_ints(rng, rng.randint(0, 2)) for _ in range(rng.randint(0, 3))]))  # noqa: E731,E501
    add(MinObsNested, "observe(nested items)", mk_ll(MinObsNested), nested_steps("o:ll:items:items"))

    def child_steps(tag):
        def steps(C, rng):
            if C.child is None:
                return []
            return [("notify", "child.v.set", lambda: setattr(C.child, "v", C.child.v + 1), {tag: 1})]
        return steps
    mk_child = lambda cls: (lambda rng: cls(child=MinTarget(v=rng.randint(0, 9)) if rng.random() < 0.85 else None))  # noqa: E731,E501
    add(MinObsChild, "observe(child.v)", mk_child(MinObsChild), child_steps("o:child.v"))

    def d_steps(tag):
        return lambda C, rng: [("notify", "d.setitem", lambda: C.d.__setitem__("k%d" % len(C.d), 1), {tag: 1}),
                               ("check", "d[k]=bad", _rejects(lambda: C.d.__setitem__("q", "bad")))]
    mk_d = lambda cls: (lambda rng: cls(d={"a%d" % i: i for i in range(rng.randint(0, 3))}))   # noqa: E731

    def s_steps(tag):
        return lambda C, rng: [("notify", "s.add", lambda: C.s.add(max(list(C.s) + [0]) + 1), {tag: 1}),
                               ("check", "s.add(bad)", _rejects(lambda: C.s.add("bad")))]
    mk_s = lambda cls: (lambda rng: cls(s=set(_ints(rng))))              # noqa: E731
    add(MinObsDict, "observe(dict items)", mk_d(MinObsDict), d_steps("o:d.items"))
    add(MinObsSet, "observe(set items, post_init)", mk_s(MinObsSet), s_steps("o:s.items:post"))

    add(MinPropObserve, "Property(observe)", mk_n(MinPropObserve),
        lambda C, rng: [("check", "p after n.set", _fresh_prop(C, lambda: _set_n(C), lambda: C.n * 2)),
                        ("check", "p after n.set again", _fresh_prop(C, lambda: _set_n(C), lambda: C.n * 2))])
    add(MinPropObserveItems, "Property(observe items)", mk_xs(MinPropObserveItems),
        lambda C, rng: [("check", "p after xs.append", _fresh_prop(C, lambda: C.xs.append(4), lambda: sum(C.xs))),
                        ("check", "p after xs=", _fresh_prop(C, lambda: setattr(C, "xs", [1, 2]), lambda: sum(C.xs))),
                        ("check", "p after xs.append 2", _fresh_prop(C, lambda: C.xs.append(5), lambda: sum(C.xs)))])
    add(MinPropDependsOn, "Property(depends_on)", mk_n(MinPropDependsOn),
        lambda C, rng: [("check", "p after n.set", _fresh_prop(C, lambda: _set_n(C), lambda: C.n * 3)),
                        ("check", "p after n.set again", _fresh_prop(C, lambda: _set_n(C), lambda: C.n * 3))])
    add(MinPropDependsOnItems, "Property(depends_on items)", mk_xs(MinPropDependsOnItems),
        lambda C, rng: [("check", "p after xs.append", _fresh_prop(C, lambda: C.xs.append(4), lambda: len(C.xs))),
                        ("check", "p after xs=", _fresh_prop(C, lambda: setattr(C, "xs", [1, 2]), lambda: len(C.xs))),
                        ("check", "p after xs.append 2", _fresh_prop(C, lambda: C.xs.append(5), lambda: len(C.xs)))])
    add(MinStatic, "_n_changed", mk_n(MinStatic), _n_steps("n"))
    add(MinItemsHandler, "_xs_items_changed", mk_xs(MinItemsHandler), _xs_steps("xs_items"))
    add(MinDictHandler, "_d_items_changed", mk_d(MinDictHandler), d_steps("d_items"))
    add(MinSetHandler, "_s_items_changed", mk_s(MinSetHandler), s_steps("s_items"))

    def list_steps(C, rng):
        def conv():
            C.xs.append(5)
            return None if (type(C.xs[-1]) is int and C.xs[-1] == 5) else "valid-item-mishandled"
        return [("check", "xs.append(bad)", _rejects(lambda: C.xs.append("bad"))),
                ("check", "xs[0:0]=[None]", _rejects(lambda: C.xs.__setitem__(slice(0, 0), [None]))),
                ("check", "xs.append(5)", conv)]
    add(MinList, "List(Int) only", mk_xs(MinList), list_steps)

    def listc_steps(C, rng):
        def conv():
            if len(C.xs) >= 5:
                C.xs[0] = "7"
                got = C.xs[0]
            else:
                C.xs.append("7")
                got = C.xs[-1]
            return None if (type(got) is int and got == 7) else "convertible-item-not-converted (%r)" % (got,)

        def toolong():
            C.xs = [1, 2, 3, 4, 5]
            C.xs.append(6)
        return [("check", "xs.append('7')", conv), ("check", "xs.append('zz')", _rejects(lambda: C.xs.append("zz"))),
                ("check", "xs over maxlen", _rejects(toolong))]
    add(MinListC, "List(CInt, maxlen) only", mk_xs(MinListC), listc_steps)
    add(MinNested, "List(List(Int)) only", mk_ll(MinNested), nested_steps(None))

    def dict_steps(C, rng):
        def inner():
            C.d["k"] = [1]
            C.d["k"].append("bad")
        return [("check", "d[k]=[bad]", _rejects(lambda: C.d.__setitem__("k", ["bad"]))),
                ("check", "d[1]=[]", _rejects(lambda: C.d.__setitem__(1, []))),
                ("check", "d[k].append(bad)", _rejects(inner))]
    add(MinDict, "Dict(Str, List(Int)) only",
        lambda rng: MinDict(d={"a%d" % i: _ints(rng) for i in range(rng.randint(0, 3))}), dict_steps)
    add(MinSet, "Set(Int) only", mk_s(MinSet),
        lambda C, rng: [("check", "s.add(bad)", _rejects(lambda: C.s.add("bad"))),
                        ("check", "s|={bad}", _rejects(lambda: C.s.__ior__({"bad"})))])
    add(MinOtc, "on_trait_change", mk_n(MinOtc), _n_steps("l:n"))
    add(MinOtcPost, "on_trait_change(post_init)", mk_n(MinOtcPost), _n_steps("l:n:post"))
    add(MinOtcItems, "on_trait_change(items)", mk_xs(MinOtcItems),
        lambda C, rng: [("notify", "xs.append", lambda: C.xs.append(3), {"l:xs_items": 1})])
    add(MinOtcChild, "on_trait_change(child.v)", mk_child(MinOtcChild), child_steps("l:child.v"))

    def delegate_steps(C, rng):
        if C.d is None:
            return []

        def write():
            C.v = C.d.v + 5
            return None if (C.v == C.d.v) else "delegated-write-not-through-own-delegate"
        return [("check", "v reads d.v", lambda: None if C.v == C.d.v else "delegated-read-differs"),
                ("check", "v write", write), ("check", "v=bad", _rejects(lambda: setattr(C, "v", "bad")))]
    mk_del = lambda cls: (lambda rng: cls(d=MinTarget(v=rng.randint(0, 9))))     # noqa: E731
    add(MinDelegate, "DelegatesTo", mk_del(MinDelegate), delegate_steps)
    add(MinDelegateFirst, "DelegatesTo declared first", mk_del(MinDelegateFirst), delegate_steps)

    def mk_proto(rng):
        o = MinProto(d=MinTarget(color="c%d" % rng.randint(0, 3)))
        if rng.random() < 0.6:
            o.color = "blue"
        return o

    def proto_steps(C, rng):
        over = "color" in C.__dict__

        def follow():
            keep = C.color
            C.d.color = C.d.color + "~"
            if over:
                return None if C.color == keep else "override-follows-prototype"
            return None
        return [("check", "color vs prototype", follow), ("check", "color=5", _rejects(lambda: setattr(C, "color", 5)))]
    add(MinProto, "PrototypedFrom", mk_proto, proto_steps)

    def mk_ro(rng):
        o = MinReadOnly()
        if rng.random() < 0.8:
            o.ro = rng.randint(1, 9)
        return o

    def ro_steps(C, rng):
        if C.ro is Undefined:
            return []
        return [("check", "second write", _rejects(lambda: setattr(C, "ro", C.ro + 100)))]
    add(MinReadOnly, "ReadOnly", mk_ro, ro_steps)
    add(MinTransient, "transient", lambda rng: MinTransient(n=rng.randint(0, 9), t=rng.randint(8, 20)),
        lambda C, rng: [("check-copy", "t back at default", lambda: None if C.t == 7 else "transient-not-default (%r)" % C.t)])
    add(MinEventListener, "_ping_fired", lambda rng: MinEventListener(n=rng.randint(0, 9)),
        lambda C, rng: [("notify", "ping", lambda: setattr(C, "ping", True), {"ping": 1})])
    return S


# --------------------------------------------------------------------------- oracle
_DECLARED = {}


def declared_names(cls):
    """Persistent trait names of a class, taken from the class declaration (the
    instance's own trait_names() is part of what is being checked)."""
    if cls not in _DECLARED:
        names = []
        for nm, t in cls.class_traits().items():
            if nm in ("trait_added", "trait_modified") or t.type == "event" or t.transient is True:
                continue
            names.append(nm)
        _DECLARED[cls] = sorted(names)
    return _DECLARED[cls]


def state(o, depth=0, names=None):
    """Readable persistent state (nested MinTarget by value)."""
    out = {}
    for nm in (names if names is not None else declared_names(type(o))):
        try:
            v = getattr(o, nm)
        except Exception as e:  # noqa: BLE001
            out[nm] = ("exc", type(e).__name__)
            continue
        if isinstance(v, HasTraits):
            v = ("node", type(v).__name__, state(v, depth + 1) if depth < 2 else None)
        out[nm] = ("ok", plainify(v))
    return out


def run_steps(ctx, spec, mode, mclass, O, C, rng, report):
    """Returns True when a complaint was reported."""
    for step in spec.steps(C, rng):
        ctx.ev()
        if step[0] == "check-copy" and mode == "fresh":
            continue        # only meaningful on a copy
        if step[0] in ("check", "check-copy"):
            _k, what, fn = step
            del MLOG[:]
            try:
                complaint = fn()
            except Exception as e:  # noqa: BLE001
                complaint = "probe-raised:" + type(e).__name__
            ctx.count("min_checks")
            bad_orig = [t for (o, t) in MLOG if o is O]
            if complaint is None and bad_orig:
                complaint = "event-on-original/" + bad_orig[0]
            if complaint:
                report(complaint.split(" (")[0], "%s: %s" % (what, complaint))
                return True
            continue
        _k, what, action, expected = step
        del MLOG[:]
        try:
            action()
        except Exception as e:  # noqa: BLE001
            report("valid-mutation-raised", "%s raised %r" % (what, e))
            return True
        seen = collections.Counter(t for (o, t) in MLOG if o is C)
        on_orig = [t for (o, t) in MLOG if o is O]
        del MLOG[:]
        ctx.count("min_notify_probes")
        ctx.count("min_notifications", sum(seen.values()))
        if on_orig:
            report("event-on-original/" + on_orig[0], "%s on the copy fired %r on the original" % (what, on_orig[0]))
            return True
        for tag, n in expected.items():
            if seen.get(tag, 0) == 0:
                report("handler-not-fired/" + tag, "%s: %r never fired on the copy (saw %r)" % (what, tag, dict(seen)))
                return True
            if seen[tag] != n:
                report("handler-fired-%dx/%s" % (min(seen[tag], 3), tag), "%s: %r fired %d times" % (what, tag, seen[tag]))
                return True
        for tag in seen:
            if tag not in expected:
                report("unexpected-event/" + tag, "%s fired %r" % (what, tag))
                return True
    return False


def check_min(ctx, spec, rng, modes):
    O = spec.make(rng)
    name = spec.cls.__name__
    del MLOG[:]
    for mode, mclass, fn in modes:
        ctx.count("min_copies")
        before = state(O, names=spec.names)

        def report(complaint, msg, mode=mode, mclass=mclass):
            if spec.family == "names":
                # one mechanism per (name pattern, listener class), not per generated class
                key = "min/%s/%s/%s" % (mclass, complaint.split("/")[0], spec.keyclass)
            else:
                key = "min/%s/%s/%s" % (mclass, complaint, name)
            ctx.violation(key,
                          "%s copy of a %s (only feature: %s) in state %s: %s"
                          % (mode, name, spec.feature, short(before, 120), msg),
                          {"class": name, "feature": spec.feature, "mode": mode, "state": before})
        try:
            C = fn(O)
        except Exception as e:  # noqa: BLE001
            report("copy-raised/" + type(e).__name__, repr(e))
            continue
        del MLOG[:]
        ctx.ev()
        if type(C) is not type(O):
            report("class-differs", type(C).__name__)
            continue
        ctx.ev()
        sc = state(C, names=spec.names)
        if not same(sc, before):
            bad = [k for k in before if not same(before[k], sc.get(k))]
            report("value-differs/" + (bad[0] if bad else "?"), "original %s, copy %s" % (short(before, 100), short(sc, 100)))
            continue
        failed = run_steps(ctx, spec, mode, mclass, O, C, rng, report)
        ctx.sig("min", name, mclass, failed)
        if failed:
            continue
        ctx.ev()
        after = state(O, names=spec.names)
        if not same(after, before):
            report("original-changed", "original %s -> %s" % (short(before, 100), short(after, 100)))
            continue
        ctx.count("min_copies_live")


def calibrate_min(specs):
    """The expectation tables must hold on never-copied objects (else: harness defect)."""
    import random

    class _Ctx:
        def ev(self, n=1):
            pass

        def count(self, *a):
            pass
    for spec in specs:
        for i in range(3):
            rng = random.Random(i)
            o = spec.make(rng)
            got = []
            run_steps(_Ctx(), spec, "fresh", "fresh", spec.make(rng), o, rng, lambda c, m: got.append((c, m)))
            if got:
                raise RuntimeError("C14 minimal family: expectation does not hold on a never-copied %s: %r"
                                   % (spec.cls.__name__, got[:2]))
    del MLOG[:]


# --------------------------------------------------------------------------- awkward names
# Trait NAMES are part of the configuration space: HasTraits treats some spellings
# specially (the `<name>_items` event companions of containers, the trailing-underscore
# prefix rules, leading underscores, names resembling its own `trait_*` API), and the
# bookkeeping that decides what is pickled / cloned works on names.  Every name is
# combined with a value type and a listener flavour (none / declared / dynamic): a
# listener gives the object an *instance* trait of that name.
AWKWARD_NAMES = ("plain", "line_items", "n_items", "items", "_items", "_hidden", "trait_x", "name_",
                 "trait_items", "x_items_")
NAME_FLAVOURS = ("none", "observe", "otc", "depends_on", "prop_observe", "dyn_observe", "dyn_otc")


def _name_class(clsname, name, kind, flavour, paired):
    """Build one module-level (picklable) class; returns (cls, tag expected on a change or None)."""
    ns = {"__module__": __name__, "__qualname__": clsname}
    if paired:
        # `xs` and `xs_items` both declared: the container gives up its own items event
        ns["xs"] = List(Int, items=False)
    ns[name] = List(Int) if kind == "L" else Int(1)
    tag = None
    if flavour == "observe":
        tag = "o:" + name

        @observe(name + (".items" if kind == "L" else ""))
        def _o(self, event):
            _log(self, "o:" + name)
        ns["_o"] = _o
    elif flavour == "otc":
        tag = "l:" + name

        @on_trait_change(name + ("[]" if kind == "L" else ""))
        def _l(self):
            _log(self, "l:" + name)
        ns["_l"] = _l
    elif flavour in ("depends_on", "prop_observe"):
        if flavour == "depends_on":
            ns["p"] = Property(depends_on=name + ("[]" if kind == "L" else ""))
        else:
            ns["p"] = Property(observe=name + (".items" if kind == "L" else ""))

        @cached_property
        def _get_p(self):
            v = getattr(self, name)
            return sum(v) if kind == "L" else v * 2
        ns["_get_p"] = _get_p
    cls = type(HasTraits)(clsname, (HasTraits,), ns)
    globals()[clsname] = cls
    return cls, tag


def _dyn(owner, tag):
    def h(*args):
        _log(owner, tag)
    return h


def build_name_specs():
    S = []
    skipped = 0
    combos = [(nm, False) for nm in AWKWARD_NAMES] + [("xs_items", True)]
    for name, paired in combos:
        for kind in ("L", "I"):
            for flavour in NAME_FLAVOURS:
                clsname = "Nm_%s_%s_%s%s" % ("".join(ch if ch.isalnum() else "U" for ch in name), kind, flavour,
                                             "_paired" if paired else "")
                try:
                    cls, tag = _name_class(clsname, name, kind, flavour, paired)
                except Exception:  # noqa: BLE001 - this spelling cannot be declared with this listener
                    skipped += 1
                    continue

                def make(rng, cls=cls, name=name, kind=kind, flavour=flavour, paired=paired):
                    o = cls()
                    setattr(o, name, [rng.randint(0, 9) for _ in range(rng.randint(1, 3))] if kind == "L"
                            else rng.randint(2, 50))
                    if paired:
                        o.xs = [rng.randint(0, 9)]
                    if flavour == "dyn_observe":
                        o.observe(_dyn(o, "dyn"), name + (".items" if kind == "L" else ""))
                    elif flavour == "dyn_otc":
                        o.on_trait_change(_dyn(o, "dyn"), name + ("[]" if kind == "L" else ""))
                    return o

                def steps(C, rng, name=name, kind=kind, flavour=flavour, tag=tag):
                    exp = {tag: 1} if tag else {}
                    out = []
                    if kind == "L":
                        change = lambda: getattr(C, name).append(4)                   # noqa: E731
                        out.append(("check", "append(bad)", _rejects(lambda: getattr(C, name).append("bad"))))
                        want = lambda: sum(getattr(C, name))                          # noqa: E731
                    else:
                        change = lambda: setattr(C, name, getattr(C, name) + 1)       # noqa: E731
                        out.append(("check", "set(bad)", _rejects(lambda: setattr(C, name, "bad"))))
                        want = lambda: getattr(C, name) * 2                           # noqa: E731
                    if flavour in ("depends_on", "prop_observe"):
                        out.append(("check", "p fresh", _fresh_prop(C, change, want)))
                        out.append(("check", "p fresh again", _fresh_prop(C, change, want)))
                    else:
                        out.append(("notify", "change", change, exp))
                    return out
                names = [name] + (["xs"] if paired else [])
                spec = Spec(cls, "trait named %r (%s), listener: %s" % (name, "List(Int)" if kind == "L" else "Int",
                                                                        flavour), make, steps, names, "names")
                spec.keyclass = "name:%s,listener:%s" % (
                    "plain" if name == "plain" else "*_items" if name.endswith("_items") else
                    "items" if name == "items" else "*_" if name.endswith("_") else
                    "_*" if name.startswith("_") else "trait_*" if name.startswith("trait_") else "other",
                    "none" if flavour == "none" else "dynamic" if flavour.startswith("dyn") else "declared")
                # the combination must be usable at all on a never-copied object
                try:
                    import random
                    probe_rng = random.Random(0)
                    o = make(probe_rng)
                    got = []

                    class _C:
                        def ev(self, n=1):
                            pass

                        def count(self, *a):
                            pass
                    run_steps(_C(), spec, "fresh", "fresh", make(probe_rng), o, probe_rng, lambda c, m: got.append(c))
                    # (a never-copied object legitimately hears its own dynamic listener)
                    if [c for c in got if c != "unexpected-event/dyn"]:
                        raise RuntimeError(got)
                except Exception:  # noqa: BLE001
                    skipped += 1
                    continue
                S.append(spec)
    del MLOG[:]
    return S, skipped


def run_min(ctx):
    specs = build_specs()
    calibrate_min(specs)
    name_specs, skipped = build_name_specs()
    ctx.note("min_family_classes", len(specs))
    ctx.note("min_name_classes", len(name_specs))
    ctx.note("min_name_combinations_unusable", skipped)
    batch = 0
    for family, fspecs, rounds, per in (("feature", specs, ctx.scale(12, 240), 12),
                                        ("names", name_specs, ctx.scale(4, 60), 4)):
        for si, spec in enumerate(fspecs):
            for r0 in range(0, rounds, per):
                batch += 1
                if not ctx.mine(batch):
                    continue
                if not ctx.begin("min:%s:%d" % (spec.cls.__name__, r0), {"feature": spec.feature}):
                    continue
                try:
                    for r in range(r0, min(rounds, r0 + per)):
                        rng = ctx.rng("min", spec.cls.__name__, r)
                        check_min(ctx, spec, rng, COPY_MODES)
                        ctx.count("min_states")
                        if family == "names":
                            ctx.count("min_name_states")
                    if family == "names" and r0 == 0:
                        ctx.count("min_name_classes")
                    if r0 == 0 and si % 29 == 0:
                        ctx.sample({"sub": "minimal-family/" + family, "class": spec.cls.__name__,
                                    "feature": spec.feature, "modes": [m[0] for m in COPY_MODES]})
                finally:
                    del MLOG[:]
                    ctx.end()
