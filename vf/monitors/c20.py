"""C20 -- synchronised traits (sync_trait) converge and stop when unsynchronised.

Model: a directed graph over (object serial, trait name) nodes; a mutual link is
two directed edges, a one-way link one.  After every operation of a generated
history the real objects are compared with what the graph predicts:

* every strongly connected class is equal (lists element-wise);
* a real change of a node reaches every node the graph says it reaches
  (assignments stop at nodes that already hold the value, exactly like a trait
  assignment of the value already held is not an event); in-place list
  mutations are demanded of mutual partners always and of one-way targets only
  when they were in step with the source before the mutation;
* nodes the graph does not reach are untouched (after `remove=True`, after the
  partner was collected, upstream of a one-way link);
* every node's recorder is called at most once per operation, never when the
  node is not reached, never when the source itself emitted nothing;
* nothing is raised to the caller, no RecursionError anywhere, and a node that
  has nothing to forward (no outgoing link in the model) never produces an
  exception on the notification exception channels; weak-reference callbacks
  raise nothing (sys.unraisablehook) and a dropped partner really dies.

Mechanism keys (structural; first failing sub-check of a step decides):
  runaway-propagation/<op>            more than BUDGET notifications for one operation
  recursion/{raised,exception-channel}/<op>
  <ctx>/raised/<Exc>                  ctx = gc-partner | unlinked | no-outgoing (operated node has
  linked/<op>/raised/<Exc>            no outgoing link and lost its last one that way) or linked
  <op>/source-value-wrong             operated attribute does not hold what was written
  <ctx>/still-propagates/<op>         a node without outgoing link changed somebody else
  one-way/reverse-propagation/<op>    a one-way target changed its source
  linked/unrelated-node-changed/<op>
  multipath/list-mutation/{diverged,double-notified}   list nodes linked along redundant paths
  list-mutation/extended-slice/diverged                (F14)
  gc-partner/lost-update-after-resync (F10) the lagging node once lost a partner to collection
  <op>/diverged, <op>/mutual-class-unequal, link/not-equalised, link/value-from-nowhere
  <ctx>/exception-channel/<Exc>       traits' own handler of a node that has nothing to forward
                                      raised (F10: gc-partner/.../KeyError; on an extended-slice
                                      mutation the same stale handler trips over F14 first:
                                      gc-partner/.../TypeError); unlink|drop/exception-channel/<Exc>
  ping-pong/<op>, spurious-notification/<op>, <op>/unraisable/<Exc>, drop/partner-kept-alive
<op> = assign | assign-list | list-mutation/{item,simple-slice,reversed-slice,extended-slice,bulk}
       | link | link-oneway | unlink | drop | redefine.
  redef/add-trait/<key>, redef/remove-add/<key>   the same sub-checks in a history that re-defined
                                      an attribute at run time (strata redef / redefrm, see
                                      _c20_redef.py); redef/remove-add/forwarding-lost = a change
                                      of, or passing through, a removed-and-re-added attribute
                                      does not reach its partners (open finding)

See DESIGN.md section 4 / C20.
"""
import gc
import operator
import sys
import weakref

from traits.api import (HasTraits, Int, Str, List, Any, Range, String, TraitError,
                        push_exception_handler)

from vf.monitors import _c20_redef

try:
    from traits.api import ComparisonMode
except ImportError:  # pragma: no cover
    from traits.constants import ComparisonMode

try:
    from traits.observation.api import push_exception_handler as obs_push_exception_handler
except Exception:  # pragma: no cover - older layouts
    obs_push_exception_handler = None

META = {
    "level": "exploration",
    "rule": ("cases = random histories (24 ops quick / 28 thorough) over 2-3 objects with two Int, two "
             "Str and two List(Int) traits, the objects drawn from eight class flavours (plain "
             "lists, `_<name>_default` methods on both / one list, defaults supplied by a subclass "
             "for inherited lists, explicit default values, comparison_mode identity / none / "
             "equality; defaults left unmaterialised in half of the objects); ops = sync_trait mutual/one-way (same name or alias, "
             "several partners, occasional self-alias), remove=True (mutual or one direction, also "
             "of links that do not exist), scalar and list assignment (also of the value already "
             "held), every in-place list mutator incl. +=/*= through the attribute, reversed and "
             "extended slices and failing calls, dropping an object (half of them cyclic garbage) + "
             "gc.collect(), creating a fresh partner. Six strata (core / extended slices / partner "
             "collection / both / redundant list paths / heterogeneous partners: a hub attribute "
             "with two partners, some of them narrower traits - Range, String(maxlen), "
             "List(maxlen), List(Range) - that refuse some of the values, or one-way targets "
             "changed locally) so that an open finding in one stratum "
             "does not truncate the others. A seventh, ENUMERATED stratum (gcpoints) puts the collection "
             "of the partner(s) INSIDE one operation: 11 link shapes (one / several / chained victims, "
             "one-way either way, alias, victim at distance 2 or in the middle) x 16 operations "
             "(assignments, every kind of list mutation, sync_trait linking a further object, "
             "sync_trait(remove=True)) on the operated object or on the survivor; the victims are "
             "cyclic garbage, automatic collection is off, and the operation is re-run on a fresh twin "
             "with gc.collect() injected before the k-th statement executed inside the traits package "
             "(sys.monitoring LINE events) for EVERY k; judged: nothing raised, nothing on the "
             "exception channels, survivor equal, victims dead, follow-up changes forwarded in both "
             "directions (a lock left set shows there). Strata redef / redefrm (own histories on top): the "
             "DEFINITION of a synchronised attribute changes at run time between the link and later "
             "operations - HasTraits.add_trait over the linked name (class-level definitions and "
             "attributes that were themselves added to the instance at run time; same type, other List "
             "inner type / length bound / comparison mode, other scalar type: Range, CInt, CStr, "
             "String(maxlen), Any), in redefrm also remove_trait + add_trait of linked run-time "
             "attributes (value written back by the harness) - on the mutual side, the one-way source "
             "or the one-way target, repeatedly, mixed with every other operation incl. unlinking and "
             "partner collection; the link graph of the model is unchanged by a re-definition, so "
             "every later assignment and in-place mutation on either side must still converge, "
             "one-way targets still must not write back, removed links still must be silent. "
             "distinct_nontrivial counts distinct (op class, source "
             "context, reach size class, mutual-class size class, alias involved, outcome class, "
             "notified-node count class) signatures of steps in which something changed, was "
             "propagated, was raised or arrived on an exception channel."),
    "phases": [{"name": "main", "flavour": "P", "shards": 16}],
    "gates": {
        "quick": {"evaluations": 130000, "propagations_checked": 27000,
                  "mutual_list_mutations": 10000, "oneway_assignments": 2200,
                  "reverse_direction_checks": 5500, "ops_after_unlink": 6500,
                  "ops_after_partner_gc": 1400, "relinks": 2000, "partners_collected": 1900,
                  "three_object_propagations": 2300, "alias_propagations": 5400,
                  "recorder_calls_checked": 110000, "noop_steps": 30000,
                  "extended_slice_mutations": 600, "links_made": 24000,
                  "unlinks_effective": 6500,
                  "list_mutations_propagated_from_dyn": 4500,
                  "list_mutations_propagated_into_dyn": 5000,
                  "list_mutations_dyn_partner_only": 3000, "list_mutations_dyn_both_sides": 2000,
                  "list_mutations_propagated_from_sub": 1800,
                  "list_mutations_propagated_into_sub": 2000,
                  "list_mutations_propagated_from_static": 1300,
                  "list_mutations_propagated_into_static": 1500,
                  "list_mutations_propagated_from_always": 1500,
                  "list_mutations_propagated_into_always": 1700,
                  "always_notifying_assignments_propagated": 1000,
                  "equal_value_assignments_forwarded": 300,
                  "objects_with_unmaterialised_defaults": 9000,
                  "links_to_recycled_address": 800,
                  "histories_hetero": 900, "source_rejections": 1200,
                  "partner_rejections_assign": 350, "partner_rejections_assign-list": 140,
                  "partner_rejections_list-mutation": 120,
                  "weak_partner_served_before_updated_partner": 330,
                  "weak_before_updated_assign": 85, "weak_before_updated_assign-list": 30,
                  "weak_before_updated_list-mutation": 210,
                  "drifted_target_served_before_updated_partner": 190,
                  "drifted_target_before_updated_partner_extended_slice": 30,
                  "gcpoint_runs": 30000, "gcpoint_effective": 18000,
                  "gcpoint_followups_both_directions": 18000, "gcpoint_victims_died": 30000,
                  "gcpoint_links_made_during_collection": 300,
                  "gcpoint_unlinks_during_collection": 900,
                  "gcpoint_distinct_effective_lines": 1500,
                  "histories_redef": 900, "histories_redefrm": 280,
                  "redefinitions_add_trait": 2700, "redefinitions_remove_add": 600,
                  "redefinitions_add_over_class_definition": 1200,
                  "redefinitions_add_over_runtime_definition": 1500,
                  "redefinitions_list": 1900, "redefinitions_scalar": 1300,
                  "redefinitions_of_mutual": 1900, "redefinitions_of_oneway_source": 450,
                  "redefinitions_of_oneway_target": 430, "redefinitions_relation_same": 950,
                  "redefinitions_relation_inner": 1000, "redefinitions_relation_bounds": 250,
                  "redefinitions_relation_comparison": 180,
                  "redefinitions_relation_scalar-type": 850, "redefinitions_repeated": 750,
                  "list_mutations_propagated_from_redefined": 1200,
                  "list_mutations_propagated_into_redefined": 1350,
                  "list_assignments_propagated_from_redefined": 200,
                  "list_assignments_propagated_into_redefined": 240,
                  "scalar_assignments_propagated_from_redefined": 240,
                  "scalar_assignments_propagated_into_redefined": 280,
                  "oneway_propagations_from_redefined_source": 180,
                  "oneway_propagations_into_redefined_target": 200,
                  "propagations_checked_after_add_trait": 1800,
                  "propagations_checked_after_remove_add": 140,
                  "changes_of_redefined_after_unlink_or_partner_gc": 550},
        "thorough": {"evaluations": 1900000, "propagations_checked": 400000,
                     "mutual_list_mutations": 150000, "oneway_assignments": 34000,
                     "reverse_direction_checks": 88000, "ops_after_unlink": 100000,
                     "ops_after_partner_gc": 22000, "relinks": 33000, "partners_collected": 28000,
                     "three_object_propagations": 37000, "alias_propagations": 84000,
                     "recorder_calls_checked": 1600000, "noop_steps": 450000,
                     "extended_slice_mutations": 9000, "links_made": 330000,
                     "unlinks_effective": 96000,
                     "list_mutations_propagated_from_dyn": 56000,
                     "list_mutations_propagated_into_dyn": 62000,
                     "list_mutations_dyn_partner_only": 37000,
                     "list_mutations_dyn_both_sides": 25000,
                     "list_mutations_propagated_from_sub": 22000,
                     "list_mutations_propagated_into_sub": 25000,
                     "list_mutations_propagated_from_static": 16000,
                     "list_mutations_propagated_into_static": 18000,
                     "list_mutations_propagated_from_always": 18000,
                     "list_mutations_propagated_into_always": 21000,
                     "always_notifying_assignments_propagated": 12000,
                     "equal_value_assignments_forwarded": 4000,
                     "objects_with_unmaterialised_defaults": 110000,
                     "links_to_recycled_address": 10000,
                     "histories_hetero": 11000, "source_rejections": 15000,
                     "partner_rejections_assign": 4400, "partner_rejections_assign-list": 1750,
                     "partner_rejections_list-mutation": 1500,
                     "weak_partner_served_before_updated_partner": 4100,
                     "weak_before_updated_assign": 1050, "weak_before_updated_assign-list": 370,
                     "weak_before_updated_list-mutation": 2600,
                     "drifted_target_served_before_updated_partner": 2400,
                     "drifted_target_before_updated_partner_extended_slice": 370,
                     "gcpoint_runs": 30000, "gcpoint_effective": 18000,
                     "gcpoint_followups_both_directions": 18000, "gcpoint_victims_died": 30000,
                     "gcpoint_links_made_during_collection": 300,
                     "gcpoint_unlinks_during_collection": 900,
                     "gcpoint_distinct_effective_lines": 1500,
                     "histories_redef": 13500, "histories_redefrm": 4200,
                     "redefinitions_add_trait": 40500, "redefinitions_remove_add": 9000,
                     "redefinitions_add_over_class_definition": 18000,
                     "redefinitions_add_over_runtime_definition": 22500,
                     "redefinitions_list": 28500, "redefinitions_scalar": 19500,
                     "redefinitions_of_mutual": 28500, "redefinitions_of_oneway_source": 6750,
                     "redefinitions_of_oneway_target": 6450,
                     "redefinitions_relation_same": 14250,
                     "redefinitions_relation_inner": 15000,
                     "redefinitions_relation_bounds": 3750,
                     "redefinitions_relation_comparison": 2700,
                     "redefinitions_relation_scalar-type": 12750,
                     "redefinitions_repeated": 11250,
                     "list_mutations_propagated_from_redefined": 18000,
                     "list_mutations_propagated_into_redefined": 20250,
                     "list_assignments_propagated_from_redefined": 3000,
                     "list_assignments_propagated_into_redefined": 3600,
                     "scalar_assignments_propagated_from_redefined": 3600,
                     "scalar_assignments_propagated_into_redefined": 4200,
                     "oneway_propagations_from_redefined_source": 2700,
                     "oneway_propagations_into_redefined_target": 3000,
                     "propagations_checked_after_add_trait": 27000,
                     "propagations_checked_after_remove_add": 2100,
                     "changes_of_redefined_after_unlink_or_partner_gc": 8250},
    },
    "assumptions": [
        "the model (directed link graph + value semantics of assignment, slice semantics of a "
        "plain list for in-place mutation) is the specification",
        "re-entrant orders only (no threads): every interleaving the lock table can meet arises "
        "from the generated multi-partner histories",
        "in-place mutation of a one-way source is demanded of the target only when both were "
        "equal before the mutation (the statement speaks of assignments only)",
        "heterogeneous partners: a partner whose own trait refuses a forwarded value or list "
        "replay keeps its value and forwards nothing, every other partner must still follow; "
        "what a replay does to a partner that was out of step is unspecified; attributes are "
        "only linked when each accepts the other's current value (a refused equalising "
        "assignment raises out of sync_trait, which the statement does not cover)",
        "a re-definition of a linked attribute (add_trait over the name, remove_trait + add_trait) "
        "is neither of the two ways the statement gives for a link to end, so the link is "
        "required to survive it; only value-preserving re-definitions are drawn (the new "
        "definition accepts every value the histories write, a list stays a list), and the "
        "harness writes the value back after remove_trait + add_trait",
        "which side's value wins when a link is created is not specified by the statement; the "
        "oracle only requires mutual classes to be equal afterwards and unrelated nodes untouched",
    ],
}

INT_NAMES = ("v", "w")
STR_NAMES = ("s", "t")
LIST_NAMES = ("xs", "ys")
ALL_NAMES = INT_NAMES + STR_NAMES + LIST_NAMES
GROUP = {"v": "int", "w": "int", "s": "str", "t": "str", "xs": "list", "ys": "list"}
GROUP_NAMES = {"int": INT_NAMES, "str": STR_NAMES, "list": LIST_NAMES}
SLOTS = ("A", "B", "C")
STRS = ("", "a", "b", "ab")


class Root(HasTraits):
    uid = Int
    me = Any


class Base(Root):
    v = Int
    w = Int
    s = Str
    t = Str


class Node(Base):
    xs = List(Int)
    ys = List(Int)


class NodeDyn(Base):
    """Both lists get their default from a `_<name>_default` method of the defining class."""
    xs = List(Int)
    ys = List(Int)

    def _xs_default(self):
        return [1, 2]

    def _ys_default(self):
        return [3]


class NodeDynOne(Base):
    """Only `xs` has a dynamic default method."""
    xs = List(Int)
    ys = List(Int)

    def _xs_default(self):
        return [4, 0, 4]


class NodeSub(Node):
    """Dynamic defaults supplied by a subclass for inherited list traits."""

    def _xs_default(self):
        return [2]

    def _ys_default(self):
        return [5, 5]


class NodeSubOne(Node):
    def _ys_default(self):
        return [0, 1]


class NodeStatic(Base):
    """Explicit default values in the declaration."""
    xs = List(Int, [1, 2, 3])
    ys = List(Int, value=[0])


class NodeCmp(Base):
    """Every assignment notifies (identity / none comparison)."""
    xs = List(Int, comparison_mode=ComparisonMode.identity)
    ys = List(Int, comparison_mode=ComparisonMode.none)


class NodeCmpOne(Base):
    xs = List(Int, comparison_mode=ComparisonMode.equality)
    ys = List(Int, [2, 2], comparison_mode=ComparisonMode.identity)


class NodeNarrow(Node):
    """Narrower traits under the same names: some values a plain partner holds are rejected."""
    v = Range(0, 2)
    w = Range(1, 3)
    s = String(maxlen=1)
    xs = List(Int, maxlen=4)
    ys = List(Range(0, 4))


class NodeNarrow2(Node):
    v = Range(1, 3)
    w = Range(0, 2)
    t = String(maxlen=1)
    xs = List(Range(0, 4))
    ys = List(Int, maxlen=3)


class NodeRT(Base):
    """The two lists are defined on the instance at run time (add_trait), not by the class."""


class NodeRTAll(Root):
    """All six attributes are defined on the instance at run time."""


# what a narrow attribute accepts (whole value; lists: length and every item)
CONSTRAINTS = {
    "narrow": {"v": lambda x: 0 <= x <= 2, "w": lambda x: 1 <= x <= 3, "s": lambda x: len(x) <= 1,
               "xs": lambda x: len(x) <= 4, "ys": lambda x: all(0 <= i <= 4 for i in x)},
    "narrow2": {"v": lambda x: 1 <= x <= 3, "w": lambda x: 0 <= x <= 2, "t": lambda x: len(x) <= 1,
                "xs": lambda x: all(0 <= i <= 4 for i in x), "ys": lambda x: len(x) <= 3},
}


# flavour -> (class, list defaults, names with a dynamic default method, names whose every
#             assignment notifies, tag)
FLAVOURS = {
    "plain": (Node, {"xs": [], "ys": []}, (), (), "plain"),
    "dyn": (NodeDyn, {"xs": [1, 2], "ys": [3]}, ("xs", "ys"), (), "dyn"),
    "dyn1": (NodeDynOne, {"xs": [4, 0, 4], "ys": []}, ("xs",), (), "dyn"),
    "sub": (NodeSub, {"xs": [2], "ys": [5, 5]}, ("xs", "ys"), (), "sub"),
    "sub1": (NodeSubOne, {"xs": [], "ys": [0, 1]}, ("ys",), (), "sub"),
    "static": (NodeStatic, {"xs": [1, 2, 3], "ys": [0]}, (), (), "static"),
    "cmp": (NodeCmp, {"xs": [], "ys": []}, (), ("xs", "ys"), "cmp"),
    "cmp1": (NodeCmpOne, {"xs": [], "ys": [2, 2]}, (), ("ys",), "cmp"),
    "narrow": (NodeNarrow, {"xs": [], "ys": []}, (), (), "narrow"),
    "narrow2": (NodeNarrow2, {"xs": [], "ys": []}, (), (), "narrow"),
    "rt": (NodeRT, {"xs": [], "ys": []}, (), (), "rt"),
    "rtall": (NodeRTAll, {"xs": [], "ys": []}, (), (), "rt"),
}
# names a flavour defines with add_trait after construction
RUNTIME_NAMES = {"rt": LIST_NAMES, "rtall": ALL_NAMES}
# re-definition strata: class-level and run-time definitions side by side (equality comparison
# only: the re-definition itself may switch a list to identity comparison)
REDEF_WEIGHTS = (("plain", 24), ("dyn", 8), ("sub", 6), ("static", 8), ("rt", 27), ("rtall", 27))
REDEFRM_WEIGHTS = (("rt", 42), ("rtall", 46), ("plain", 12))
# heterogeneous-partner stratum: narrow and plain objects side by side
HETERO_WEIGHTS = (("narrow", 30), ("narrow2", 25), ("plain", 25), ("dyn", 10), ("static", 10))
FLAVOUR_WEIGHTS = (("plain", 26), ("dyn", 14), ("dyn1", 10), ("sub", 12), ("sub1", 8),
                   ("static", 10), ("cmp", 12), ("cmp1", 8))


# ---- process-wide observation points (installed once per child) -----------------
LOG = []          # (uid, base trait name) per recorder call
CHAN = []         # (uid | None, base trait name, exception class name)
UNRAISABLE = []   # exception class names seen by sys.unraisablehook


def _base(name):
    return name[:-6] if isinstance(name, str) and name.endswith("_items") else name


def _legacy_exc(obj, trait_name, old, new):
    e = sys.exc_info()[1]
    uid = None
    try:
        uid = obj.__dict__.get("uid") if isinstance(obj, Root) else None
    except Exception:
        pass
    CHAN.append((uid, _base(trait_name), type(e).__name__))


def _obs_exc(event):
    e = sys.exc_info()[1]
    uid = None
    name = getattr(event, "name", None)
    try:
        obj = getattr(event, "object", None)
        uid = obj.__dict__.get("uid") if isinstance(obj, Root) else None
    except Exception:
        pass
    CHAN.append((uid, _base(name), type(e).__name__))


def _unraisable(info):
    UNRAISABLE.append(getattr(info.exc_type, "__name__", "?"))


# Step budget.  traits' forwarders swallow every exception (bare `except:`), so a
# runaway propagation cannot be aborted by raising from a handler; once one operation
# has produced more than BUDGET notifications the recorder clamps the interpreter's
# recursion limit just above the current depth, which starves the runaway of stack
# (it then unwinds in linear time) and the step is reported.
BUDGET = 120
STATE = {"clamped": False, "limit": sys.getrecursionlimit()}


def _clamp():
    f = sys._getframe()
    d = 0
    while f is not None:
        d += 1
        f = f.f_back
    try:
        sys.setrecursionlimit(d + 6)
        STATE["clamped"] = True
    except (RecursionError, ValueError):
        pass


def _unclamp():
    if STATE["clamped"]:
        sys.setrecursionlimit(STATE["limit"])
        STATE["clamped"] = False


def make_recorder(uid):
    def rec(obj, name, old, new):
        LOG.append((uid, _base(name)))
        if len(LOG) > BUDGET:
            _clamp()
    return rec


# ---- list mutators -----------------------------------------------------------------
def mut_class(mop):
    m = mop[0]
    if m in ("delslice", "setslice"):
        k = mop[3]
        if k is None or k == 1:
            return "simple-slice"
        if k == -1:
            return "reversed-slice"
        return "extended-slice"
    if m in ("append", "insert", "pop", "remove", "delitem", "setitem"):
        return "item"
    return "bulk"


def apply_mut(lst, mop):
    """Interpret a mutator on `lst` (plain list = model, TraitList = real)."""
    m = mop[0]
    if m == "append":
        lst.append(mop[1])
    elif m == "insert":
        lst.insert(mop[1], mop[2])
    elif m == "extend":
        lst.extend(list(mop[1]))
    elif m in ("iadd", "iadd_attr"):
        lst.__iadd__(list(mop[1]))
    elif m in ("imul", "imul_attr"):
        lst.__imul__(mop[1])
    elif m == "pop":
        lst.pop(*mop[1:])
    elif m == "remove":
        lst.remove(mop[1])
    elif m == "delitem":
        del lst[mop[1]]
    elif m == "delslice":
        del lst[slice(mop[1], mop[2], mop[3])]
    elif m == "setitem":
        lst[mop[1]] = mop[2]
    elif m == "setslice":
        lst[slice(mop[1], mop[2], mop[3])] = list(mop[4])
    elif m == "sort":
        lst.sort(reverse=bool(mop[1]))
    elif m == "reverse":
        lst.reverse()
    elif m == "clear":
        lst.clear()
    else:
        raise AssertionError(mop)


def apply_real(obj, name, mop):
    m = mop[0]
    if m == "iadd_attr":        # obj.xs += items
        setattr(obj, name, operator.iadd(getattr(obj, name), list(mop[1])))
    elif m == "imul_attr":      # obj.xs *= k
        setattr(obj, name, operator.imul(getattr(obj, name), mop[1]))
    else:
        apply_mut(getattr(obj, name), mop)


def gen_mut(rng, cur, allow_ext):
    L = len(cur)

    def item():
        return rng.randrange(6)

    def items(lo, hi):
        return [item() for _ in range(rng.randint(lo, hi))]

    def idx_in():
        return rng.randrange(-L, L)

    def bound():
        return None if rng.random() < 0.25 else rng.randint(-L - 1, L + 1)

    for _ in range(20):
        c = rng.randrange(24 if allow_ext else 20)
        if L >= 9 and c in (0, 1, 2, 3, 4, 5):
            c = rng.choice((8, 10, 11, 12))
        if c == 0:
            return ("append", item())
        if c == 1:
            return ("insert", rng.randint(-L - 1, L + 1), item())
        if c == 2:
            return ("extend", items(0, 3))
        if c == 3:
            return ("iadd", items(0, 3))
        if c == 4:
            return ("iadd_attr", items(0, 3))
        if c == 5:
            k = rng.choice((0, 1, 2, 2, -1, 3))
            if L * max(k, 0) > 12:
                continue
            return (rng.choice(("imul", "imul_attr")), k)
        if c == 6:
            return ("pop",)                       # IndexError when empty
        if c == 7:
            if L == 0 or rng.random() < 0.1:
                return ("pop", rng.choice((L, -L - 1, L + 2)))   # IndexError
            return ("pop", idx_in())
        if c == 8:
            if L and rng.random() < 0.85:
                return ("remove", rng.choice(cur))
            return ("remove", 99)                 # ValueError
        if c == 9:
            if L == 0 or rng.random() < 0.1:
                return ("delitem", rng.choice((L, -L - 1)))      # IndexError
            return ("delitem", idx_in())
        if c in (10, 11):
            return ("delslice", bound(), bound(), rng.choice((None, None, 1)))
        if c == 12:
            if L == 0 or rng.random() < 0.1:
                return ("setitem", rng.choice((L, -L - 1)), item())   # IndexError
            i = idx_in()
            return ("setitem", i, cur[i] if rng.random() < 0.15 else item())
        if c in (13, 14):
            return ("setslice", bound(), bound(), rng.choice((None, None, 1)), items(0, 3))
        if c == 15:
            return ("sort", rng.random() < 0.4)
        if c == 16:
            return ("reverse",)
        if c == 17:
            return ("clear",) if rng.random() < 0.5 else ("setslice", None, None, None, items(0, 3))
        if c == 18:
            # reversed contiguous slice, lengths must match
            a, b = bound(), bound()
            n = len(range(L)[slice(a, b, -1)])
            if rng.random() < 0.5:
                return ("delslice", a, b, -1)
            return ("setslice", a, b, -1, [item() for _ in range(n)])
        if c == 19:
            return ("append", item())
        # ---- extended slices (|step| >= 2) ------------------------------------
        k = rng.choice((2, 2, 2, 3, -2, -3))
        a = rng.choice((None, 0, 0, 1, 1, 2, -1, -2)) if k > 0 else rng.choice((None, None, -1, -2, L - 1))
        b = None if rng.random() < 0.7 else rng.randint(-L - 1, L + 1)
        n = len(range(L)[slice(a, b, k)])
        if c in (20, 21):
            if rng.random() < 0.06:
                return ("setslice", a, b, k, [item() for _ in range(n + 1)])    # ValueError
            return ("setslice", a, b, k, [item() for _ in range(n)])
        return ("delslice", a, b, k)
    return ("append", item())


# ---- the world: real objects + model ---------------------------------------------------
class Stop(Exception):
    """History ends (first violation or harness give-up)."""


class World:
    def __init__(self, ctx, rng, stratum, lens):
        self.ctx = ctx
        self.rng = rng
        self.stratum = stratum
        self.lens = lens
        self.hetero = stratum == "hetero"
        self.redef = stratum in ("redef", "redefrm")
        self.allow_ext = stratum in ("ext", "all", "hetero") or self.redef
        self.allow_drop = stratum in ("gc", "all") or self.redef
        self.allow_cycle = stratum == "cyclic"
        self.obj = {}          # slot -> Node
        self.uid = {}          # slot -> serial
        self.slot_of = {}      # serial -> slot
        self.refs = {}         # serial -> weakref
        self.val = {}          # (serial, name) -> model value
        self.edges = set()     # ((serial, name), (serial, name))
        self.lost_out = {}     # node -> 'removed' | 'gc' (how the last outgoing link went away)
        self.sticky_gc = set()  # nodes that were ever orphaned by collection of a partner
        self.relinkable = set()  # nodes that lost every link at some point (for the relink counter)
        self.flavour = {}      # serial -> flavour name
        self.pending = []      # scripted follow-up operations (partner replacement)
        self.plan = []         # planned star links of the heterogeneous stratum
        self.order = {}        # edge -> registration rank (partners are served in this order)
        self.seq = 0
        self.fw = []           # (forwarder, target, status) of the model's last propagation
        self.dead_addresses = set()   # only to COUNT address recycling, never used in a key
        self.recycled = set()  # serials of objects living where a collected partner lived
        self.next_uid = 1
        self.trace = []
        self.runtime = set()   # nodes whose definition was added to the instance at run time
        self.redefined = {}    # node -> 'add' | 'readd' (latest re-definition of a live node)
        self.readded = set()   # nodes that went through remove_trait + add_trait
        self.always_now = set()  # nodes re-defined with a comparison mode that always notifies
        self.rec = {}          # serial -> recorder

    # -- graph helpers ---------------------------------------------------------
    def live_nodes(self):
        return [(u, n) for u in self.slot_of for n in ALL_NAMES]

    def out(self, n):
        return [t for (s, t) in self.edges if s == n]

    def outdeg(self, n):
        return sum(1 for (s, t) in self.edges if s == n)

    def reach(self, n):
        seen = set()
        stack = [n]
        while stack:
            x = stack.pop()
            for (s, t) in self.edges:
                if s == x and t not in seen and t != n:
                    seen.add(t)
                    stack.append(t)
        return seen

    def scc(self, n):
        """Mutual class of n: nodes connected to n through mutual links (both
        directions present between two nodes).  One-way cycles do not count: a
        one-way target may legitimately have drifted from its source."""
        comp = {n}
        stack = [n]
        while stack:
            x = stack.pop()
            for (s, t) in self.edges:
                if s == x and t not in comp and (t, s) in self.edges:
                    comp.add(t)
                    stack.append(t)
        return comp

    def upstream(self, n):
        return {m for m in self.live_nodes() if m != n and n in self.reach(m)}

    def mode(self, n):
        """'always' when every assignment to the node notifies (comparison_mode identity or
        none: a trait list is copied on assignment, so the new value is never the old object),
        'eq' when only a different value does."""
        if n in self.redefined:
            return "always" if n in self.always_now else "eq"
        return "always" if n[1] in FLAVOURS[self.flavour[n[0]]][3] else "eq"

    def tags(self, nodes):
        out = set()
        for m in nodes:
            if GROUP[m[1]] != "list":
                continue
            f = FLAVOURS[self.flavour[m[0]]]
            if m[1] in f[2]:
                out.add("dyn")
                if f[4] == "sub":
                    out.add("sub")
            if f[4] == "static":
                out.add("static")
            if self.mode(m) == "always":
                out.add("always")
            if m in self.redefined:
                out.add("redefined")
            elif m in self.runtime:
                out.add("runtime")
        return out

    def add_edge(self, e):
        if e not in self.edges:
            self.edges.add(e)
            self.seq += 1
            self.order[e] = self.seq

    def del_edge(self, e):
        self.edges.discard(e)
        self.order.pop(e, None)

    def narrow(self, n):
        c = CONSTRAINTS.get(self.flavour[n[0]])
        return bool(c) and n[1] in c

    def accepts(self, n, value):
        c = CONSTRAINTS.get(self.flavour[n[0]])
        p = c.get(n[1]) if c else None
        return True if p is None else bool(p(value))

    def outs(self, x):
        return sorted(self.out(x), key=lambda t: self.order.get((x, t), 0))

    def fires(self, m, old, value):
        return self.mode(m) == "always" or old != value

    def model_assign(self, exp, n, value, calls):
        """Assignment semantics on the expectation `exp` (in place): the value travels along
        the links, through every node whose own assignment notifies, and never into a node
        that is itself forwarding.  Returns the set of nodes that notified."""
        is_list = GROUP[n[1]] == "list"
        fired = set()
        old = exp[n]
        if not self.accepts(n, value):
            return fired
        exp[n] = list(value) if is_list else value
        if not self.fires(n, old, value):
            return fired
        calls[n] = calls.get(n, 0) + 1
        fired.add(n)
        locked = set()

        def prop(x):
            locked.add(x)
            for t in self.outs(x):
                if t in locked:
                    continue
                if not self.accepts(t, value):
                    # a partner that cannot take the value keeps its own and forwards nothing
                    self.fw.append((x, t, "rejected"))
                    continue
                o = exp[t]
                exp[t] = list(value) if is_list else value
                if self.fires(t, o, value):
                    self.fw.append((x, t, "updated"))
                    calls[t] = calls.get(t, 0) + 1
                    fired.add(t)
                    prop(t)
                else:
                    self.fw.append((x, t, "same"))
            locked.discard(x)
        prop(n)
        return fired

    def model_mutate(self, exp, n, old, new, adopt, calls):
        """In-place mutation semantics, path by path (heterogeneous stratum; list links form a
        forest there): a partner in step with its forwarder replays the event and ends up
        equal, unless its own trait refuses the result, in which case it keeps its items and
        forwards nothing; what the replay does to a partner that was out of step (a one-way
        target changed locally) is unspecified, for it and for everything behind it."""
        rejected = set()
        locked = set()

        def unspecified(t):
            stack = [t]
            while stack:
                y = stack.pop()
                if y in adopt or y in locked:
                    continue
                adopt.add(y)
                calls[y] = 1
                stack.extend(self.out(y))

        def prop(x):
            locked.add(x)
            for t in self.outs(x):
                if t in locked or t in adopt:
                    continue
                if self.val[t] != old:
                    self.fw.append((x, t, "adopt"))
                    unspecified(t)
                elif self.accepts(t, new):
                    exp[t] = list(new)
                    calls[t] = calls.get(t, 0) + 1
                    self.fw.append((x, t, "updated"))
                    prop(t)
                else:
                    rejected.add(t)
                    self.fw.append((x, t, "rejected"))
            locked.discard(x)
        prop(n)
        return rejected

    def model_assign_calls(self, exp, n, value):
        calls = {}
        self.model_assign(exp, n, value, calls)
        return calls

    def context(self, n):
        if self.outdeg(n):
            return "linked"
        how = self.lost_out.get(n)
        return {"gc": "gc-partner", "removed": "unlinked"}.get(how, "no-outgoing")

    def _und(self):
        return {frozenset(e) for e in self.edges if GROUP[e[0][1]] == "list" and e[0] != e[1]}

    def _component(self, n, und):
        comp = {n}
        stack = [n]
        while stack:
            x = stack.pop()
            for e in und:
                if x in e:
                    for y in e:
                        if y not in comp:
                            comp.add(y)
                            stack.append(y)
        return comp

    def multipath(self, n):
        """True when the undirected list-link graph around n has a cycle
        (some node is reached along two different paths)."""
        if GROUP[n[1]] != "list":
            return False
        und = self._und()
        comp = self._component(n, und)
        ne = sum(1 for e in und if e <= comp)
        return ne >= len(comp)

    def would_cycle(self, a, b):
        und = self._und()
        if frozenset((a, b)) in und:
            return False
        return b in self._component(a, und)

    # -- real-side helpers ---------------------------------------------------------
    def actual(self, n):
        o = self.obj[self.slot_of[n[0]]]
        x = getattr(o, n[1])
        return list(x) if GROUP[n[1]] == "list" else x

    def actual_all(self):
        return {n: self.actual(n) for n in self.live_nodes()}

    def label(self, n):
        return "%s.%s" % (self.slot_of.get(n[0], "#%d" % n[0]), n[1])

    def witness(self, extra=None):
        w = {"stratum": self.stratum, "lens": self.lens, "ops": list(self.trace),
             "links": sorted("%s->%s" % (self.label(s), self.label(t)) for s, t in self.edges),
             "model": {self.label(n): v for n, v in sorted(self.val.items())}}
        try:
            w["actual"] = {self.label(n): v for n, v in sorted(self.actual_all().items())}
        except Exception as e:  # noqa: BLE001
            w["actual"] = "unreadable: %r" % (e,)
        if extra:
            w.update(extra)
        return w

    def fail(self, key, what, extra=None):
        msg = "%s; op=%r after %d ops; stratum=%s lens=%s" % (
            what, self.trace[-1] if self.trace else None, len(self.trace) - 1, self.stratum, self.lens)
        self.ctx.violation(self.redef_key(key), msg, self.witness(extra))
        raise Stop()

    def redef_key(self, key):
        """A violation in a history that re-defined an attribute names the kind of
        re-definition; the one mechanism of the open finding of stratum "redefrm" (a change of,
        or passing through, a removed-and-re-added attribute is not forwarded) gets one key."""
        if not self.redefined and not self.readded:
            return key
        if not self.readded:
            return "redef/add-trait/" + key
        op = self.trace[-1] if self.trace else None
        lost = (key.endswith(("/diverged", "/mutual-class-unequal"))
                or key in ("gc-partner/lost-update-after-resync", "link/not-equalised"))
        if lost and op and op[0] in ("set", "mut", "link") and op[1] in self.uid:
            # the operated attribute; for a link both endpoints receive an equalising
            # assignment that has to travel on through their other partners
            ends = {(self.uid[op[1]], op[2])}
            if op[0] == "link" and op[3] in self.uid:
                ends.add((self.uid[op[3]], op[4]))
            through = set(ends)
            for e in ends:
                through |= self.reach(e)
            if any(m in self.readded and self.outdeg(m) for m in through):
                return "redef/remove-add/forwarding-lost"
        return "redef/remove-add/" + key

    # -- generic judgement -----------------------------------------------------------
    def judge(self, opclass, src, raised, expected_exc, exp, adopt, may_call, reach,
              src_ctx, link_endpoints=None, rejected=()):
        """Compare the real world with the expectation after one operation.

        src: operated node or None; raised: (class, text) or None; exp: expected value
        per live node; adopt: nodes whose value is unspecified; may_call: nodes whose
        recorder may have been called (at most once), or {node: allowed calls}."""
        if not isinstance(may_call, dict):
            may_call = {m: 1 for m in may_call}
        ctx = self.ctx
        ctx.ev()
        if STATE["clamped"] or len(LOG) > BUDGET:
            n = len(LOG)
            _unclamp()
            self.fail("runaway-propagation/" + opclass,
                      "one operation produced %d notifications (step budget %d): unbounded "
                      "ping-pong between linked attributes" % (n, BUDGET))
        no_out = src is not None and self.outdeg(src) == 0
        multi = src is not None and opclass.startswith("list-mutation") and self.multipath(src)
        prefix = src_ctx if no_out else "linked/" + opclass
        # 1. what reached the caller
        if raised is not None:
            cls = raised[0]
            if issubclass(cls, RecursionError):
                self.fail("recursion/raised/" + opclass, "RecursionError raised to the caller: %s" % raised[1])
            if expected_exc is None or not issubclass(cls, expected_exc):
                self.fail("%s/raised/%s" % (prefix, cls.__name__),
                          "%s raised to the caller (%s): %s" % (cls.__name__, src_ctx, raised[1]))
        elif expected_exc is not None:
            # a plain list refuses the call, the trait list does not: C05's business;
            # resynchronise the model and go on
            ctx.count("model_refused_real_accepted")
            self.val = self.actual_all()
            return
        if any(c[2] == "RecursionError" for c in CHAN):
            self.fail("recursion/exception-channel/" + opclass,
                      "RecursionError inside a notification handler", {"channel": list(CHAN)})
        # 2. values
        act = self.actual_all()
        bad = [m for m in sorted(act) if m not in adopt and act[m] != exp[m]]
        ctx.count("node_comparisons", len(act) - len(adopt))
        if bad:
            desc = ", ".join("%s=%r expected %r" % (self.label(m), act[m], exp[m]) for m in bad[:4])
            if src is not None and src in bad:
                self.fail(opclass + "/source-value-wrong", "operated attribute holds the wrong value: " + desc)
            outside = [m for m in bad if m not in reach]
            if outside:
                if no_out:
                    self.fail("%s/still-propagates/%s" % (src_ctx, opclass),
                              "change of %s (%s, no outgoing link) altered %s"
                              % (self.label(src) if src else "-", src_ctx, desc))
                up = self.upstream(src) if src is not None else set()
                if any(m in up for m in outside):
                    self.fail("one-way/reverse-propagation/" + opclass,
                              "change of a one-way target altered its source: " + desc)
                self.fail("linked/unrelated-node-changed/" + opclass, "unrelated attribute altered: " + desc)
            if link_endpoints is not None:
                self.fail("link/value-from-nowhere", "after linking: " + desc)
            if any(m in rejected for m in bad):
                self.fail(opclass + "/rejecting-partner-changed",
                          "a partner whose trait refuses the change did not keep its value: " + desc)
            if multi:
                self.fail("multipath/list-mutation/diverged",
                          "in-place mutation applied more than once along redundant link paths: " + desc,
                          {"channel": list(CHAN)})
            if opclass == "list-mutation/extended-slice":
                self.fail("list-mutation/extended-slice/diverged",
                          "extended-slice mutation not reflected in the partner: " + desc,
                          {"channel": list(CHAN)})
            if any(m in self.sticky_gc for m in bad):
                self.fail("gc-partner/lost-update-after-resync",
                          "attribute that once lost a partner to garbage collection no longer "
                          "receives updates from its new partner: " + desc, {"channel": list(CHAN)})
            self.fail(opclass + "/diverged", "linked attributes differ: " + desc, {"channel": list(CHAN)})
        # 2b. every mutual class is equal (also over adopted nodes)
        for m in sorted(act):
            cls = self.scc(m)
            if len(cls) > 1 and self.hetero and any(self.narrow(k) for k in cls):
                continue        # a narrower member may legitimately have refused a change
            if len(cls) > 1:
                ctx.count("mutual_class_checks")
                for k in cls:
                    if act[k] != act[m]:
                        key = ("multipath/list-mutation/diverged" if multi else
                               "gc-partner/lost-update-after-resync"
                               if (cls & self.sticky_gc) else
                               "link/not-equalised" if link_endpoints is not None else
                               opclass + "/mutual-class-unequal")
                        self.fail(key, "mutually linked %s=%r and %s=%r differ"
                                  % (self.label(m), act[m], self.label(k), act[k]))
        if link_endpoints is not None:
            A, B = link_endpoints
            for m in sorted(adopt):
                if act[m] != self.val[m] and act[m] != A and act[m] != B:
                    self.fail("link/value-from-nowhere",
                              "%s=%r is neither its old value nor an endpoint's" % (self.label(m), act[m]))
        # 3. exception channels: a node with nothing to forward must stay silent
        for (uid, name, exc) in CHAN:
            ctx.count("channel_exceptions_seen")
            if self.lens == "values":
                ctx.count("channel_exceptions_not_judged_by_lens")
                continue
            m = (uid, name)
            if uid is None or uid not in self.slot_of or name not in GROUP:
                self.fail("unattributed/exception-channel/" + exc,
                          "%s on the exception channel from %r.%r" % (exc, uid, name), {"channel": list(CHAN)})
            if opclass in ("unlink", "drop"):
                self.fail("%s/exception-channel/%s" % (opclass, exc),
                          "%s on the exception channel during %s" % (exc, opclass), {"channel": list(CHAN)})
            if self.outdeg(m) == 0:
                self.fail("%s/exception-channel/%s" % (self.context(m), exc),
                          "%s inside traits' own handler of %s, which has no outgoing link (%s)"
                          % (exc, self.label(m), self.context(m)), {"channel": list(CHAN)})
            ctx.count("channel_exceptions_while_linked")
        # 4. recorders: at most one call per node, none where nothing can arrive
        calls = {}
        for c in LOG:
            calls[c] = calls.get(c, 0) + 1
        ctx.count("recorder_calls_checked", len(LOG))
        for m, c in sorted(calls.items()):
            if m[0] not in self.slot_of:
                continue
            if c > max(may_call.get(m, 0), 1):
                self.fail("multipath/list-mutation/double-notified" if multi else "ping-pong/" + opclass,
                          "recorder of %s called %d times for one operation" % (self.label(m), c),
                          {"calls": sorted((self.label(k), v) for k, v in calls.items() if k[0] in self.slot_of)})
            if m not in may_call:
                self.fail("spurious-notification/" + opclass,
                          "recorder of %s called although nothing can have changed it" % self.label(m))
        if src is not None and calls and not calls.get(src) and link_endpoints is None:
            self.fail("spurious-notification/" + opclass,
                      "partners notified although %s itself emitted nothing" % self.label(src))
        # 5. weak-reference callbacks and finalisers
        if UNRAISABLE:
            ctx.count("unraisable_seen", len(UNRAISABLE))
            if self.lens != "values":
                self.fail("%s/unraisable/%s" % (opclass.split("/")[0], UNRAISABLE[0]),
                          "exception in a weakref callback / finaliser: %r" % (UNRAISABLE,))
        self.val = act
        self.last_calls = calls

    # -- operations --------------------------------------------------------------------
    def do_fresh(self, op):
        _, slot, selfref, init, flavour, lazy = op
        if self.redef:
            # what add_trait does to a default nobody has read yet is not this property's
            # business: every value is materialised before anything is re-defined
            lazy = False
        uid = self.next_uid
        self.next_uid += 1
        cls, defaults = FLAVOURS[flavour][0], FLAVOURS[flavour][1]
        self.flavour[uid] = flavour
        rt_names = RUNTIME_NAMES.get(flavour, ())
        o = cls(uid=uid, **{k: (list(v) if isinstance(v, list) else v) for k, v in init.items()
                            if k not in rt_names})
        for name in rt_names:
            # the attribute is defined on the instance, after construction
            o.add_trait(name, _c20_redef.ORIGINAL[GROUP[name]]())
            self.runtime.add((uid, name))
            if name in init:
                setattr(o, name, list(init[name]) if isinstance(init[name], list) else init[name])
        if selfref:
            o.me = o           # cyclic garbage: only gc.collect() can reclaim it
        if id(o) in self.dead_addresses:
            self.recycled.add(uid)
            self.ctx.count("objects_at_recycled_address")
        rec = self.rec[uid] = make_recorder(uid)
        for name in ALL_NAMES:
            o.on_trait_change(rec, name)
        for name in LIST_NAMES:
            o.on_trait_change(rec, name + "_items")
        self.obj[slot] = o
        self.uid[slot] = uid
        self.slot_of[uid] = slot
        self.refs[uid] = weakref.ref(o)
        for name in ALL_NAMES:
            if lazy and name in defaults and name not in init:
                # the default is not materialised here: the first reader is sync_trait
                # or the first operation of the history
                self.val[(uid, name)] = list(defaults[name])
            else:
                self.val[(uid, name)] = self.actual((uid, name))
        if LOG:
            self.fail("fresh/default-notified", "materialising defaults notified %r" % (LOG[:4],))
        self.ctx.count("objects_" + FLAVOURS[flavour][4])
        if lazy:
            self.ctx.count("objects_with_unmaterialised_defaults")

    def do_set(self, op):
        _, slot, name, value = op
        n = (self.uid[slot], name)
        o = self.obj[slot]
        is_list = GROUP[name] == "list"
        opclass = "assign-list" if is_list else "assign"
        old = self.val[n]
        src_ctx = self.context(n)
        reach = self.reach(n)
        raised = None
        try:
            setattr(o, name, list(value) if is_list else value)
        except Exception as e:  # noqa: BLE001
            raised = (type(e), str(e)[:200])
        exp = dict(self.val)
        calls = {}
        self.fw = []
        expected_exc = None if self.accepts(n, value) else TraitError
        fired = self.model_assign(exp, n, value, calls)
        changed = {m for m in exp if exp[m] != self.val[m]}
        if expected_exc is None:
            calls.setdefault(n, 1)
        else:
            self.ctx.count("source_rejections")
        self.judge(opclass, n, raised, expected_exc, exp, set(), calls, reach, src_ctx,
                   rejected={t for (_, t, st) in self.fw if st == "rejected"})
        self.account(opclass, n, src_ctx, reach, changed, old != value, raised, fired)

    def do_mut(self, op):
        _, slot, name, mop = op
        n = (self.uid[slot], name)
        o = self.obj[slot]
        opclass = "list-mutation/" + mut_class(mop)
        old = self.val[n]
        new = list(old)
        expected_exc = None
        try:
            apply_mut(new, mop)
        except (IndexError, ValueError) as e:
            expected_exc = type(e)
            new = list(old)
        src_ctx = self.context(n)
        reach = self.reach(n)
        raised = None
        try:
            apply_real(o, name, mop)
        except Exception as e:  # noqa: BLE001
            raised = (type(e), str(e)[:200])
        self.fw = []
        if self.hetero:
            return self.do_mut_hetero(n, opclass, old, new, expected_exc, raised, reach, src_ctx)
        exp = dict(self.val)
        exp[n] = new
        adopt = set()
        may_call = set()
        changed = set()
        if expected_exc is None:
            may_call = reach | {n}
            scc = self.scc(n)
            insync = all(self.val[m] == old for m in reach)
            for m in reach:
                if m in scc or insync:
                    exp[m] = list(new)
                    if new != old:
                        changed.add(m)
                else:
                    adopt.add(m)
            if new != old:
                changed.add(n)
            may_call = {m: 1 for m in may_call}
            if mop[0] in ("iadd_attr", "imul_attr") and self.mode(n) == "always":
                # `obj.xs += items` is an in-place mutation followed by an assignment of the
                # (copied) list, and on this trait every assignment notifies
                if adopt:
                    adopt |= reach - scc
                    may_call = {m: 2 for m in may_call}
                else:
                    for m, c in self.model_assign_calls(exp, n, new).items():
                        may_call[m] = may_call.get(m, 0) + c
        self.judge(opclass, n, raised, expected_exc, exp, adopt, may_call, reach, src_ctx)
        self.account(opclass, n, src_ctx, reach, changed, new != old, raised)

    def do_mut_hetero(self, n, opclass, old, new, expected_exc, raised, reach, src_ctx):
        if self.narrow(n) and (expected_exc is not None or not self.accepts(n, new)):
            # the trait list validates before it indexes: either complaint is fine
            expected_exc = (IndexError, ValueError, TraitError)
            new = list(old)
            self.ctx.count("source_rejections")
        exp = dict(self.val)
        exp[n] = new
        adopt = set()
        calls = {}
        rejected = set()
        if expected_exc is None:
            calls[n] = 1
            rejected = self.model_mutate(exp, n, old, new, adopt, calls)
        changed = {m for m in exp if m not in adopt and exp[m] != self.val[m]}
        self.judge(opclass, n, raised, expected_exc, exp, adopt, calls, reach, src_ctx,
                   rejected=rejected)
        self.account(opclass, n, src_ctx, reach, changed, new != old, raised)

    def do_link(self, op):
        _, sa, na, sb, nb, mutual, explicit_alias = op
        a = (self.uid[sa], na)
        b = (self.uid[sb], nb)
        oa, ob = self.obj[sa], self.obj[sb]
        A, B = self.val[a], self.val[b]
        was_loose = [x for x in (a, b) if x in self.relinkable
                     and not any(x in e for e in self.edges)]
        raised = None
        try:
            kw = {"mutual": mutual}
            if nb != na or explicit_alias:
                kw["alias"] = nb
            oa.sync_trait(na, ob, **kw)
        except Exception as e:  # noqa: BLE001
            raised = (type(e), str(e)[:200])
        # how often each node may notify: replay the two equalising assignments on a copy
        sim = dict(self.val)
        calls = {}
        self.fw = []
        if (a, b) not in self.edges:
            self.add_edge((a, b))
            self.model_assign(sim, b, sim[a], calls)
        if mutual and (b, a) not in self.edges:
            self.add_edge((b, a))
            self.model_assign(sim, a, sim[b], calls)
        affected = {a, b} | self.reach(a) | self.reach(b)
        opclass = "link" if mutual else "link-oneway"
        self.judge(opclass, None, raised, None, dict(self.val), affected,
                   {m: max(1, calls.get(m, 0)) for m in affected}, affected,
                   "linked", link_endpoints=(A, B))
        if GROUP[na] == "list":
            for tag in self.tags({a, b}):
                self.ctx.count("list_links_" + tag)
        if a[0] in self.recycled or b[0] in self.recycled:
            self.ctx.count("links_to_recycled_address")
        self.ctx.count("links_made")
        if was_loose:
            self.ctx.count("relinks")
        if len(self.scc(a)) > 1 or not mutual:
            self.ctx.sig(opclass, GROUP[na], min(len(affected), 4), na != nb, sa == sb,
                         bool(was_loose), A == B, bool(self.last_calls))

    def do_unlink(self, op):
        _, sa, na, sb, nb, mutual, explicit_alias = op
        a = (self.uid[sa], na)
        b = (self.uid[sb], nb)
        oa, ob = self.obj[sa], self.obj[sb]
        raised = None
        try:
            kw = {"mutual": mutual, "remove": True}
            if nb != na or explicit_alias:
                kw["alias"] = nb
            oa.sync_trait(na, ob, **kw)
        except Exception as e:  # noqa: BLE001
            raised = (type(e), str(e)[:200])
        gone = 0
        for e in [(a, b)] + ([(b, a)] if mutual else []):
            if e in self.edges:
                self.del_edge(e)
                gone += 1
                if self.outdeg(e[0]) == 0:
                    self.lost_out[e[0]] = "removed"
        for x in (a, b):
            if gone and not any(x in e for e in self.edges):
                self.relinkable.add(x)
        self.judge("unlink", None, raised, None, dict(self.val), set(), set(), set(), "linked")
        self.ctx.count("unlinks_effective" if gone else "unlinks_of_nothing")
        self.ctx.sig("unlink", GROUP[na], gone, mutual, na != nb)

    def do_drop(self, op):
        _, slot = op
        uid = self.uid.pop(slot)
        o = self.obj.pop(slot)
        del self.slot_of[uid]
        r = self.refs.pop(uid)
        had_out = {s for (s, t) in self.edges if t[0] == uid and s[0] != uid}
        had_any = had_out | {t for (s, t) in self.edges if s[0] == uid and t[0] != uid}
        for e in sorted(self.edges):
            if e[0][0] == uid or e[1][0] == uid:
                self.del_edge(e)
        for n in [k for k in self.val if k[0] == uid]:
            del self.val[n]
        del self.flavour[uid]
        if had_any:
            self.dead_addresses.add(id(o))
        raised = None
        try:
            del o
            gc.collect()
        except Exception as e:  # noqa: BLE001
            raised = (type(e), str(e)[:200])
        orphaned = 0
        for n in sorted(had_any):
            if n in had_out and self.outdeg(n) == 0:
                self.lost_out[n] = "gc"
                self.sticky_gc.add(n)
                orphaned += 1
            if not any(n in e for e in self.edges):
                self.relinkable.add(n)
        if r() is not None:
            self.fail("drop/partner-kept-alive",
                      "dropped object #%d is still alive after gc.collect()" % uid)
        self.ctx.count("partners_collected" if had_any else "unlinked_objects_collected")
        self.judge("drop", None, raised, None, dict(self.val), set(), set(), set(), "linked")
        self.ctx.sig("drop", min(orphaned, 3), min(len(had_any), 3))

    def do_redef(self, op):
        """Re-definition of an attribute at run time.  The link graph of the model does not
        change: the statement knows no way for a link to end but remove=True and the collection
        of the partner.  Nothing may change value, nobody is notified."""
        _, slot, name, spec, how = op
        uid = self.uid[slot]
        n = (uid, name)
        o = self.obj[slot]
        g = GROUP[name]
        old = self.val[n]
        role = _c20_redef.role(self, n)
        level = "runtime" if n in self.runtime else "class"
        again = n in self.redefined
        raised = None
        try:
            if how == "readd":
                o.remove_trait(name)
            o.add_trait(name, _c20_redef.make(g, spec))
            if how == "readd":
                # remove_trait drops the value and every handler with the definition: the
                # harness writes the value back and re-attaches its own recorder
                setattr(o, name, list(old) if g == "list" else old)
                o.on_trait_change(self.rec[uid], name)
                if g == "list":
                    o.on_trait_change(self.rec[uid], name + "_items")
        except Exception as e:  # noqa: BLE001
            raised = (type(e), str(e)[:200])
        self.redefined[n] = how
        if how == "readd":
            self.readded.add(n)
        self.runtime.add(n)
        self.always_now.discard(n)
        if _c20_redef.always(g, spec):
            self.always_now.add(n)
        self.judge("redefine", None, raised, None, dict(self.val), set(),
                   {n: 1} if how == "readd" else {}, set(), "linked")
        ctx = self.ctx
        ctx.count("redefinitions")
        ctx.count("redefinitions_add_trait" if how == "add" else "redefinitions_remove_add")
        ctx.count("redefinitions_%s_over_%s_definition" % (how, level))
        ctx.count("redefinitions_" + ("list" if g == "list" else "scalar"))
        ctx.count("redefinitions_relation_" + _c20_redef.relation(g, spec))
        ctx.count("redefinitions_of_" + role.replace("-", "_"))
        if again:
            ctx.count("redefinitions_repeated")
        ctx.sig("redefine", how, level, g, spec, role, again)

    # -- counters / signatures --------------------------------------------------------
    def account(self, opclass, n, src_ctx, reach, changed, really, raised, fired=()):
        ctx = self.ctx
        calls = self.last_calls
        others = changed - {n}
        src_tags = self.tags({n})
        oth_tags = self.tags(others | (set(fired) - {n}))
        if opclass.startswith("list-mutation") and really and others:
            for tag in src_tags:
                ctx.count("list_mutations_propagated_from_" + tag)
            for tag in oth_tags:
                ctx.count("list_mutations_propagated_into_" + tag)
            if "dyn" in oth_tags and "dyn" not in src_tags:
                ctx.count("list_mutations_dyn_partner_only")
            if "dyn" in oth_tags and "dyn" in src_tags:
                ctx.count("list_mutations_dyn_both_sides")
        if self.redefined and really and others:
            kind = ("list_mutations" if opclass.startswith("list-mutation") else
                    "list_assignments" if opclass == "assign-list" else "scalar_assignments")
            hows = set()
            if n in self.redefined:
                ctx.count(kind + "_propagated_from_redefined")
                hows.add(self.redefined[n])
                scc_n = self.scc(n)
                if any(t not in scc_n for t in self.out(n)):
                    ctx.count("oneway_propagations_from_redefined_source")
            into = [m for m in others if m in self.redefined]
            if into:
                ctx.count(kind + "_propagated_into_redefined")
                hows.update(self.redefined[m] for m in into)
                if any(m not in self.scc(n) for m in into):
                    ctx.count("oneway_propagations_into_redefined_target")
            for h in hows:
                ctx.count("propagations_checked_after_" + ("add_trait" if h == "add" else "remove_add"))
        if self.redefined and src_ctx in ("unlinked", "gc-partner") and really and n in self.redefined:
            ctx.count("changes_of_redefined_after_unlink_or_partner_gc")
        if opclass == "assign-list" and len(fired) > 1 and "always" in (src_tags | oth_tags):
            ctx.count("always_notifying_assignments_propagated")
            if not really:
                ctx.count("equal_value_assignments_propagated")
        if opclass == "assign-list" and not really and n in fired and self.outdeg(n):
            ctx.count("equal_value_assignments_forwarded")
        if self.hetero and self.fw:
            kind = opclass.split("/")[0]
            by_fw = {}
            for (x, t, st) in self.fw:
                by_fw.setdefault(x, []).append((self.order.get((x, t), 0), st))
                if st == "rejected":
                    ctx.count("partner_rejections_" + kind)
                    src_tags = src_tags | {"hetero-reject"}
            for x, lst in by_fw.items():
                weak = [o for (o, st) in lst if st in ("rejected", "adopt")]
                upd = [o for (o, st) in lst if st == "updated"]
                if weak and upd:
                    if min(weak) < max(upd):
                        ctx.count("weak_partner_served_before_updated_partner")
                        ctx.count("weak_before_updated_" + kind)
                        src_tags = src_tags | {"weak-first"}
                    if max(weak) > min(upd):
                        ctx.count("weak_partner_served_after_updated_partner")
                    if x != n:
                        ctx.count("weak_partner_behind_forwarding_hub")
                rej = [o for (o, st) in lst if st == "rejected"]
                drift = [o for (o, st) in lst if st == "adopt"]
                if drift and upd and min(drift) < max(upd):
                    ctx.count("drifted_target_served_before_updated_partner")
                    if opclass == "list-mutation/extended-slice":
                        ctx.count("drifted_target_before_updated_partner_extended_slice")
        if not really:
            ctx.count("noop_steps")
        if others:
            ctx.count("propagations_checked", len(others))
            if len({m[0] for m in others} | {n[0]}) >= 3:
                ctx.count("three_object_propagations")
            if any(m[1] != n[1] for m in others):
                ctx.count("alias_propagations")
        scc = self.scc(n)
        if really:
            if opclass.startswith("list-mutation") and len(scc) > 1:
                ctx.count("mutual_list_mutations")
            if opclass.startswith("assign") and any(t not in scc for t in self.out(n)):
                ctx.count("oneway_assignments")
            ups = self.upstream(n) - scc - reach
            if ups:
                ctx.count("reverse_direction_checks")
            if src_ctx == "unlinked":
                ctx.count("ops_after_unlink")
            elif src_ctx == "gc-partner":
                ctx.count("ops_after_partner_gc")
            if opclass == "list-mutation/extended-slice":
                ctx.count("extended_slice_mutations")
        if really or others or raised or CHAN:
            ctx.sig(opclass, src_ctx, min(len(reach), 3), min(len(scc), 3),
                    any(m[1] != n[1] for m in reach), bool(self.upstream(n) - scc),
                    "raise" if raised else "chg" if really else "same",
                    min(len(calls), 3), bool(CHAN), self.multipath(n),
                    tuple(sorted(src_tags)), tuple(sorted(oth_tags)))


# ---- history generation -------------------------------------------------------------------
def init_values(rng):
    d = {}
    if rng.random() < 0.7:
        d["v"] = rng.randrange(4)
    if rng.random() < 0.3:
        d["w"] = rng.randrange(4)
    if rng.random() < 0.5:
        d["s"] = rng.choice(STRS)
    if rng.random() < 0.45:
        d["xs"] = [rng.randrange(6) for _ in range(rng.randint(0, 4))]
    if rng.random() < 0.25:
        d["ys"] = [rng.randrange(6) for _ in range(rng.randint(0, 3))]
    return d


def hetero_init_values(rng):
    """Start values every narrow flavour accepts, so that the planned links can be made."""
    d = {}
    d["v"] = rng.choice((1, 2))
    d["w"] = rng.choice((1, 2))
    if rng.random() < 0.5:
        d["s"] = rng.choice(("", "a", "b"))
    if rng.random() < 0.6:
        d["xs"] = [rng.randrange(5) for _ in range(rng.randint(0, 3))]
    if rng.random() < 0.4:
        d["ys"] = [rng.randrange(5) for _ in range(rng.randint(0, 3))]
    return d


def hetero_fresh_op(rng, slot):
    return ("fresh", slot, rng.random() < 0.3, hetero_init_values(rng),
            pick_flavour(rng, False, HETERO_WEIGHTS), rng.random() < 0.5)


def hetero_plan(rng):
    """A star: one hub attribute with both other objects as partners (mutual or hub -> partner),
    for one to three trait groups; the order in which the partners are registered is random."""
    hub = rng.choice(SLOTS)
    plan = []
    groups = [g for g in ("int", "str", "list") if rng.random() < 0.7] or [rng.choice(("int", "list"))]
    rng.shuffle(groups)
    for g in groups:
        hname = rng.choice(GROUP_NAMES[g])
        others = [x for x in SLOTS if x != hub]
        rng.shuffle(others)
        for p in others:
            pname = hname if rng.random() < 0.6 else rng.choice(GROUP_NAMES[g])
            plan.append(("link", hub, hname, p, pname, rng.random() < 0.6, rng.random() < 0.3))
    return plan


def pick_flavour(rng, eq_only, weights=None):
    pool = [(f, k) for f, k in (weights or FLAVOUR_WEIGHTS) if not (eq_only and FLAVOURS[f][3])]
    x = rng.randrange(sum(k for _, k in pool))
    for f, k in pool:
        x -= k
        if x < 0:
            return f
    return "plain"


def fresh_op(rng, slot, eq_only):
    # list traits whose every assignment notifies stay out of the redundant-path stratum:
    # there the open finding (F32) would resurface under assignment keys as well
    return ("fresh", slot, rng.random() < 0.5, init_values(rng), pick_flavour(rng, eq_only),
            rng.random() < 0.5)


def redef_fresh_op(rng, slot, stratum):
    return ("fresh", slot, rng.random() < 0.4, init_values(rng),
            pick_flavour(rng, True, REDEFRM_WEIGHTS if stratum == "redefrm" else REDEF_WEIGHTS), False)


def gen_value(rng, name, cur, p_equal=0.15, maxlen=4):
    g = GROUP[name]
    if g == "int":
        return rng.randrange(4)
    if g == "str":
        return rng.choice(STRS)
    if rng.random() < p_equal:
        return list(cur)
    return [rng.randrange(6) for _ in range(rng.randint(0, maxlen))]


def pick_node(rng, w, group=None, prefer_linked=0.75):
    nodes = [n for n in w.live_nodes() if group is None or GROUP[n[1]] == group]
    if w.redefined and rng.random() < 0.35:
        # a re-defined attribute that is linked, or one of its partners
        near = set()
        for (s, t) in w.edges:
            if s in w.redefined or t in w.redefined:
                near.update((s, t))
        near = sorted(near & set(nodes))
        if near:
            return rng.choice(near)
    if w.hetero and rng.random() < 0.45:
        hubs = [n for n in nodes if w.outdeg(n) >= 2]
        if hubs:
            return rng.choice(sorted(hubs))
    if rng.random() < prefer_linked:
        linked = [n for n in nodes if any(n in e for e in w.edges)]
        loose = [n for n in nodes if n in w.relinkable or n in w.lost_out]
        pool = linked if (linked and (not loose or rng.random() < 0.7)) else loose
        if pool:
            return rng.choice(sorted(pool))
    return rng.choice(sorted(nodes))


def link_acceptable(w, a, b):
    """sync_trait equalises the two attributes with a plain assignment when the link is made;
    a value the other side refuses would raise out of sync_trait, which the statement does not
    cover: only attributes that accept each other's current value are linked."""
    return w.accepts(b, w.val[a]) and w.accepts(a, w.val[b])


def gen_link(rng, w, group=None):
    for _ in range(12):
        g = group or rng.choice(("int", "str", "list", "list", "list", "int"))
        slots = sorted(w.obj)
        sa = rng.choice(slots)
        na = rng.choice(GROUP_NAMES[g]) if rng.random() < 0.35 else GROUP_NAMES[g][0]
        if len(slots) == 1 or rng.random() < 0.04:
            sb = sa
            nb = [x for x in GROUP_NAMES[g] if x != na][0]
        else:
            sb = rng.choice([s for s in slots if s != sa])
            r = rng.random()
            nb = na if r < 0.7 else rng.choice(GROUP_NAMES[g])
        a, b = (w.uid[sa], na), (w.uid[sb], nb)
        if a == b:
            continue
        if w.hetero and not link_acceptable(w, a, b):
            continue
        if g == "list":
            cyc = w.would_cycle(a, b)
            if cyc and not w.allow_cycle:
                continue
            if w.allow_cycle and not cyc and rng.random() < 0.5 and len(w._und()) >= 2:
                continue
        return ("link", sa, na, sb, nb, rng.random() < 0.7, rng.random() < 0.3)
    return None


def gen_unlink(rng, w):
    if w.edges and rng.random() < 0.88:
        s, t = rng.choice(sorted(w.edges))
        if rng.random() < 0.3:
            s, t = t, s          # ask from the other side
        return ("unlink", w.slot_of[s[0]], s[1], w.slot_of[t[0]], t[1],
                rng.random() < 0.7, rng.random() < 0.3)
    # removal of a link that does not exist
    a = pick_node(rng, w, prefer_linked=0.3)
    cands = [n for n in w.live_nodes() if GROUP[n[1]] == GROUP[a[1]] and n != a]
    b = rng.choice(sorted(cands))
    return ("unlink", w.slot_of[a[0]], a[1], w.slot_of[b[0]], b[1], rng.random() < 0.7, False)


def gen_op(rng, w, step):
    free = [s for s in SLOTS if s not in w.obj]
    if len(w.obj) < 2:
        if w.redef:
            return redef_fresh_op(rng, free[0], w.stratum)
        return fresh_op(rng, free[0], w.allow_cycle)
    if w.redef and w.edges and rng.random() < (0.11 if w.redefined else 0.5):
        op = _c20_redef.gen(rng, w, GROUP)
        if op:
            return op
    while w.plan:
        op = w.plan.pop(0)
        if op[1] in w.obj and op[3] in w.obj:
            a, b = (w.uid[op[1]], op[2]), (w.uid[op[3]], op[4])
            if a != b and link_acceptable(w, a, b) and not (GROUP[op[2]] == "list" and w.would_cycle(a, b)):
                return op
    r = rng.random()
    if step < 3 and not w.edges:
        r = 0.0
    if r < 0.13:
        op = gen_link(rng, w, "list" if (w.allow_cycle and rng.random() < 0.8) else None)
        if op:
            return op
        r = 0.5
    if r < 0.20:
        return gen_unlink(rng, w)
    if w.allow_drop and r < 0.26 and len(w.obj) >= 2:
        # prefer dropping an object somebody is linked to
        linked_slots = sorted({w.slot_of[t[0]] for (s, t) in w.edges if s[0] != t[0]})
        slot = rng.choice(linked_slots) if linked_slots and rng.random() < 0.85 else rng.choice(sorted(w.obj))
        uid = w.uid[slot]
        partners = sorted((s, t) for (s, t) in w.edges if t[0] == uid and s[0] != uid)
        if partners and rng.random() < 0.5:
            # replace the collected partner at once by a fresh object of the same class
            # (which usually lands at the same address) and link it the same way
            s, t = rng.choice(partners)
            w.pending = [("fresh", slot, rng.random() < 0.3, init_values(rng), w.flavour[uid],
                          rng.random() < 0.5),
                         ("link", w.slot_of[s[0]], s[1], slot, t[1], rng.random() < 0.7,
                          rng.random() < 0.3)]
        return ("drop", slot)
    if free and r < (0.32 if w.allow_drop else 0.215):
        if w.redef:
            return redef_fresh_op(rng, free[0], w.stratum)
        return hetero_fresh_op(rng, free[0]) if w.hetero else fresh_op(rng, free[0], w.allow_cycle)
    if r < 0.52:
        n = pick_node(rng, w, rng.choice(("int", "int", "str")))
        return ("set", w.slot_of[n[0]], n[1], gen_value(rng, n[1], w.val[n]))
    if r < 0.62:
        n = pick_node(rng, w, "list")
        # where every assignment notifies, the value already held must travel too
        return ("set", w.slot_of[n[0]], n[1],
                gen_value(rng, n[1], w.val[n], 0.4 if w.mode(n) == "always" else 0.15,
                          5 if w.hetero else 4))
    n = pick_node(rng, w, "list")
    return ("mut", w.slot_of[n[0]], n[1], gen_mut(rng, w.val[n], w.allow_ext))


def cyclic_prelude(rng):
    """Three lists linked along a redundant path (triangle, diamond, alias square)."""
    shape = rng.randrange(3)
    mutual = rng.random() < 0.6
    if shape == 0:
        return [("link", "A", "xs", "B", "xs", mutual, False), ("link", "B", "xs", "C", "xs", mutual, False),
                ("link", "A", "xs", "C", "xs", mutual, False)]
    if shape == 1:
        return [("link", "A", "xs", "B", "xs", mutual, False), ("link", "A", "xs", "C", "xs", mutual, False),
                ("link", "B", "xs", "C", "xs", mutual, False)]
    return [("link", "A", "xs", "B", "xs", True, False), ("link", "A", "ys", "B", "ys", True, False),
            ("link", "A", "xs", "B", "ys", True, False), ("link", "A", "ys", "B", "xs", mutual, False)]


def run_history(ctx, h, stratum, lens, nops):
    rng = ctx.rng("hist", h)      # h: history number, or ("rd", number) in the re-definition strata
    w = World(ctx, rng, stratum, lens)
    w.last_calls = {}
    nobj = 3 if (stratum in ("cyclic", "hetero") or rng.random() < 0.6) else 2
    if stratum == "hetero":
        script = [hetero_fresh_op(rng, SLOTS[i]) for i in range(nobj)]
        w.plan = hetero_plan(rng)
    elif w.redef:
        script = [redef_fresh_op(rng, SLOTS[i], stratum) for i in range(nobj)]
    else:
        script = [fresh_op(rng, SLOTS[i], stratum == "cyclic") for i in range(nobj)]
    if stratum == "cyclic" and rng.random() < 0.7:
        script += cyclic_prelude(rng)
    step = 0
    try:
        while step < nops:
            op = script.pop(0) if script else w.pending.pop(0) if w.pending else gen_op(rng, w, step)
            w.trace.append(op)
            _unclamp()
            del LOG[:], CHAN[:], UNRAISABLE[:]
            kind = op[0]
            if kind == "fresh":
                w.do_fresh(op)
                continue            # not an oracle step
            step += 1
            ctx.count("history_ops")
            getattr(w, "do_" + kind)(op)
    except Stop:
        ctx.count("histories_stopped_at_violation")
    finally:
        _unclamp()
        trace = w.trace
        w.obj.clear()
        del LOG[:], CHAN[:], UNRAISABLE[:]
    return trace


STRATA = (("core", 34), ("ext", 12), ("gc", 24), ("all", 10), ("cyclic", 8), ("hetero", 12))


def stratum_of(h):
    x = (h * 37) % 100
    acc = 0
    for name, wgt in STRATA:
        acc += wgt
        if x < acc:
            return name
    return "core"


def run(ctx):
    push_exception_handler(_legacy_exc, reraise_exceptions=False, main=True)
    if obs_push_exception_handler is not None:
        obs_push_exception_handler(_obs_exc)
    sys.unraisablehook = _unraisable
    gc.collect()
    gc.freeze()
    # stratum "gcpoints": the partner is collected at every statement of an operation
    from vf.monitors import _c20_gcpoints
    _c20_gcpoints.run(ctx)
    nh = ctx.scale(24000, 300000)
    nops = ctx.scale(24, 28)
    sampled = 0
    for h in range(nh):
        if not ctx.mine(h):
            continue
        stratum = stratum_of(h)
        # in the collection stratum half of the histories judge values only, so that the
        # consequences of a swallowed handler exception (a stuck lock) surface as such
        lens = "values" if (stratum == "gc" and ctx.rng("lens", h).random() < 0.5) else "full"
        if not ctx.begin("h:%d" % h, {"stratum": stratum, "lens": lens}):
            continue
        try:
            trace = run_history(ctx, h, stratum, lens, nops)
            ctx.count("histories_" + stratum)
            if sampled < 4 and len(trace) > 8:
                sampled += 1
                ctx.sample({"stratum": stratum, "lens": lens, "history": trace[:9]})
        finally:
            ctx.end()
    # strata "redef" / "redefrm": the definition of a linked attribute changes at run time.
    # Own histories on top of the budget above (own case ids and random streams), three of
    # four re-define with add_trait only; remove_trait + add_trait (open finding) stays apart.
    nr = ctx.scale(2400, 36000)
    for i in range(nr):
        if not ctx.mine(i):
            continue
        stratum = "redefrm" if ctx.rng("rd-stratum", i).random() < 0.25 else "redef"
        if not ctx.begin("rd:%d" % i, {"stratum": stratum, "lens": "full"}):
            continue
        try:
            trace = run_history(ctx, ("rd", i), stratum, "full", nops)
            ctx.count("histories_" + stratum)
            if sampled < 6 and len(trace) > 8:
                sampled += 1
                ctx.sample({"stratum": stratum, "lens": "full", "history": trace[:10]}, cap=6)
        finally:
            ctx.end()
