"""C17 helper: holder objects that carry instance-level traits.

"Supports/AdaptsTo traits apply exactly this to assigned values" is a statement
about every object that has such a trait, whatever happened to the object
before the assignment.  The main workload of c17 assigns to a pristine holder
(only class traits).  This module builds the other kind: holders for which the
trait of the assigned name exists per instance, or whose class hooks listeners
up per instance, reached through every public mechanism I know of:

group listener          obj.observe / obj.on_trait_change on the name, the same
                        from a parent object through an extended name
                        ("child.name"), observe("*"), anytrait
                        on_trait_change, sync_trait to a peer
group listener-removed  the same, removed again before the assignment
group add_trait         obj.add_trait(name, <the same definition again>),
                        optionally followed by a listener
group class-level       @observe / @on_trait_change decorated methods, static
                        _name_changed methods, Property(observe= / depends_on=)
group subclass          a subclass overriding the traits with the same
                        definitions (plain or decorated base), a subclass only
                        inheriting from a decorated base
group copy              copy.copy / copy.deepcopy / clone_traits / pickle
                        round trip of a holder prepared by one of the above
                        (optionally already holding an AdaptsTo value), a
                        listener optionally registered on the copy

Only the construction lives here; the judgement of an assignment is c17's
check_trait_route, the same one that judged the pristine holder a moment
before.  Nothing here looks at library internals: every step is a documented
HasTraits call.
"""
import copy
import pickle
import sys
import types

from traits.api import Any, HasTraits, Instance, Int, Property, observe, on_trait_change

MODNAME = "_c17_holder_classes"

GROUPS = ("listener", "listener-removed", "add_trait", "class-level", "subclass", "copy")

LISTENERS = ("observe", "on_trait_change", "observe-from-parent", "on_trait_change-from-parent",
             "observe-all-traits", "on_trait_change-anytrait", "sync_trait")
REMOVED = ("observe-removed", "on_trait_change-removed", "observe-from-parent-removed",
           "on_trait_change-from-parent-removed", "sync_trait-removed")
CLASS_LEVEL = ("class-observe-decorator", "class-on_trait_change-decorator",
               "class-static-changed-method", "class-property-observe", "class-property-depends_on")
SUBCLASS = ("subclass-overriding-trait", "subclass-overriding-trait-of-decorated-class",
            "subclass-inheriting-decorated-class")
COPIES = ("copy.copy", "copy.deepcopy", "clone_traits", "pickle")


class _Parent(HasTraits):
    child = Instance(HasTraits)


class _Peer(HasTraits):
    v = Any()


def _on_event(event):
    pass


def _on_change():
    pass


def module():
    m = sys.modules.get(MODNAME)
    if m is None:
        m = sys.modules[MODNAME] = types.ModuleType(MODNAME)
    return m


def draw_recipe(rng, group=None):
    """A recipe is structural: {group, cls, inst, copy, post, prefilled}."""
    group = group or rng.choice(GROUPS)
    r = {"group": group, "cls": "plain", "inst": None, "copy": None, "post": None, "prefilled": False}
    if group == "listener":
        r["inst"] = rng.choice(LISTENERS)
        if rng.random() < 0.2:
            r["cls"] = rng.choice(CLASS_LEVEL + SUBCLASS)
    elif group == "listener-removed":
        r["inst"] = rng.choice(REMOVED)
    elif group == "add_trait":
        r["inst"] = "add_trait"
        if rng.random() < 0.5:
            r["post"] = rng.choice(LISTENERS + REMOVED)
    elif group == "class-level":
        r["cls"] = rng.choice(CLASS_LEVEL)
    elif group == "subclass":
        r["cls"] = rng.choice(SUBCLASS)
        if rng.random() < 0.3:
            r["inst"] = rng.choice(LISTENERS)
    else:
        r["inst"] = rng.choice(LISTENERS + REMOVED + ("add_trait",))
        if rng.random() < 0.3:
            r["cls"] = rng.choice(CLASS_LEVEL + SUBCLASS)
        r["copy"] = rng.choice(COPIES)
        r["prefilled"] = rng.random() < 0.5
        if rng.random() < 0.5:
            r["post"] = rng.choice(LISTENERS)
    return r


def mechanism(recipe):
    """The step that defines the recipe's group (used in the mechanism key)."""
    g = recipe["group"]
    if g in ("listener", "listener-removed", "add_trait"):
        return recipe["inst"]
    if g in ("class-level", "subclass"):
        return recipe["cls"]
    return "copy-by-" + recipe["copy"]


def label(recipe):
    parts = [recipe["cls"], recipe["inst"]]
    if recipe["copy"]:
        parts += ["prefilled" if recipe["prefilled"] else None, recipe["copy"]]
    parts.append(recipe["post"])
    return " > ".join(p for p in parts if p)


# --------------------------------------------------------------------------
def build_class(kind, cname, make_ns, created, flip=False):
    """A holder class for one target whose traits are make_ns() (fresh trait
    objects per call), decorated according to `kind`."""
    mod = module()

    def new(name, bases, ns):
        ns = dict(ns, __module__=MODNAME)
        cls = type(HasTraits)(name, bases, ns)
        setattr(mod, name, cls)
        created.append(name)
        return cls

    def decorated(which, names):
        ns = {}
        if which == "observe":
            def _c17_seen(self, event):
                pass
            ns["_c17_seen"] = observe(list(names))(_c17_seen)
        else:
            def _c17_changed(self):
                pass
            ns["_c17_changed"] = on_trait_change(",".join(names))(_c17_changed)
        return ns

    ns = make_ns()
    names = sorted(ns)
    if kind == "plain":
        return new(cname, (HasTraits,), ns)
    if kind == "class-observe-decorator":
        return new(cname, (HasTraits,), dict(ns, **decorated("observe", names)))
    if kind == "class-on_trait_change-decorator":
        return new(cname, (HasTraits,), dict(ns, **decorated("on_trait_change", names)))
    if kind == "class-static-changed-method":
        for n in names:
            def changed(self, new_value):
                pass
            changed.__name__ = "_%s_changed" % n
            ns[changed.__name__] = changed
        return new(cname, (HasTraits,), ns)
    if kind == "class-property-observe":
        ns["c17_prop"] = Property(Int, observe=list(names))
        ns["_get_c17_prop"] = lambda self: 0
        return new(cname, (HasTraits,), ns)
    if kind == "class-property-depends_on":
        ns["c17_prop"] = Property(Int, depends_on=",".join(names))
        ns["_get_c17_prop"] = lambda self: 0
        return new(cname, (HasTraits,), ns)
    if kind == "subclass-overriding-trait":
        base = new(cname + "B", (HasTraits,), ns)
        return new(cname, (base,), make_ns())
    if kind in ("subclass-overriding-trait-of-decorated-class", "subclass-inheriting-decorated-class"):
        which = "observe" if flip else "on_trait_change"
        base = new(cname + "B", (HasTraits,), dict(ns, **decorated(which, names)))
        return new(cname, (base,), make_ns() if kind.startswith("subclass-overriding") else {})
    raise AssertionError(kind)


def apply_step(holder, mech, name, make_ns, keep, once):
    """One instance-level step for trait `name` of `holder`."""
    if mech == "observe":
        holder.observe(_on_event, name)
    elif mech == "observe-removed":
        holder.observe(_on_event, name)
        holder.observe(_on_event, name, remove=True)
    elif mech == "on_trait_change":
        holder.on_trait_change(_on_change, name)
    elif mech == "on_trait_change-removed":
        holder.on_trait_change(_on_change, name)
        holder.on_trait_change(_on_change, name, remove=True)
    elif mech in ("observe-from-parent", "observe-from-parent-removed"):
        p = _Parent(child=holder)
        p.observe(_on_event, "child." + name)
        if mech.endswith("removed"):
            p.observe(_on_event, "child." + name, remove=True)
        keep.append(p)
    elif mech in ("on_trait_change-from-parent", "on_trait_change-from-parent-removed"):
        p = _Parent(child=holder)
        p.on_trait_change(_on_change, "child." + name)
        if mech.endswith("removed"):
            p.on_trait_change(_on_change, "child." + name, remove=True)
        keep.append(p)
    elif mech == "observe-all-traits":
        if "observe-all" not in once:
            once.add("observe-all")
            holder.observe(_on_event, "*")
    elif mech == "on_trait_change-anytrait":
        if "anytrait" not in once:
            once.add("anytrait")
            holder.on_trait_change(_on_change)
    elif mech in ("sync_trait", "sync_trait-removed"):
        peer = _Peer()
        holder.sync_trait(name, peer, "v", mutual=False)
        if mech.endswith("removed"):
            holder.sync_trait(name, peer, "v", mutual=False, remove=True)
        keep.append(peer)
    elif mech == "add_trait":
        holder.add_trait(name, make_ns()[name])
    else:
        raise AssertionError(mech)


def make_copy(how, src, proto):
    if how == "copy.copy":
        return copy.copy(src)
    if how == "copy.deepcopy":
        return copy.deepcopy(src)
    if how == "clone_traits":
        return src.clone_traits()
    if how == "pickle":
        return pickle.loads(pickle.dumps(src, proto))
    raise AssertionError(how)


class Variant:
    """One holder built by a recipe for one target; instance-level steps are
    applied to a trait name right before its first assignment."""

    def __init__(self, recipe, holder_class, make_ns):
        self.recipe = recipe
        self.make_ns = make_ns
        self.keep = []
        self.once = set()
        self.done = set()
        self.holder = holder_class()
        self.copied = recipe["copy"] is None
        self.copy_failed = None

    def names(self):
        return sorted(self.make_ns())

    def finish_copy(self, prefill, proto):
        """Copy recipes: prepare the source for all its names, optionally give
        it a value through `prefill(holder)`, then replace it by the copy.
        -> False when the copy could not be made (not a C17 matter)."""
        r = self.recipe
        src = self.holder
        for n in self.names():
            apply_step(src, r["inst"], n, self.make_ns, self.keep, self.once)
        if r["prefilled"] and prefill is not None:
            prefill(src)
        self.once = set()
        try:
            self.holder = make_copy(r["copy"], src, proto)
        except Exception as e:  # noqa: BLE001 - e.g. a value that does not survive the round trip
            self.copy_failed = type(e).__name__
            return False
        self.keep.append(src)
        self.copied = True
        return True

    def prepare(self, name):
        if name in self.done:
            return
        self.done.add(name)
        r = self.recipe
        if r["copy"] is None and r["inst"]:
            apply_step(self.holder, r["inst"], name, self.make_ns, self.keep, self.once)
        if r["post"]:
            apply_step(self.holder, r["post"], name, self.make_ns, self.keep, self.once)


def cleanup(created):
    mod = sys.modules.get(MODNAME)
    if mod is not None:
        for n in created:
            mod.__dict__.pop(n, None)
    del created[:]
