"""C14 sub-check A, two further families of module-level classes.

lazy  -- classes whose dynamic defaults (`_x_default` methods, factories) depend on
         state that does not travel with a copy (a transient trait, a module counter,
         uuid4).  A random subset of those traits is left UNREAD before the copy; value
         equality is judged after the round trip by reading original and copy (a fresh
         original per copy mode, so that no earlier comparison materialises anything).

graph -- object graphs of 1..8 nested HasTraits nodes (siblings in a List(Instance),
         chains through two Instance traits) whose nodes carry mutable values in traits
         WITHOUT `copy` metadata (Any holding list / dict, Dict(Str, Any) with list
         values) next to List(Int); cloned with every copy mode incl. traits='all';
         independence is judged at every depth for the modes that promise it, then the
         copy is mutated everywhere and the original must be unchanged.
"""
import itertools
import random
import uuid

from traits.api import (
    HasTraits, TraitError, Undefined, Any, Int, Float, Str, List, Dict, Instance, ReadOnly, Constant, UUID,
)

from vf.reference import plainify
from vf.util import same, short
from vf.monitors import _c14_objs as A

# --------------------------------------------------------------------------- lazy defaults
_COUNTER = itertools.count(1000)


class DynTarget(HasTraits):
    v = Int


class Dyn(HasTraits):
    scale = Int(1, transient=True)
    mood = Str("calm", transient=True)
    name = Str("nm")
    limit = Float
    serial = Int
    stamp = Str
    tags = List(Str)
    table = Dict(Str, Int)
    made = Any
    target = Instance(DynTarget)
    plain = Int(4)

    def _limit_default(self):
        return 10.0 * self.scale

    def _serial_default(self):
        return next(_COUNTER)

    def _stamp_default(self):
        return uuid.uuid4().hex

    def _tags_default(self):
        return [self.name, self.mood]

    def _table_default(self):
        return {self.name: self.scale}

    def _made_default(self):
        return (self.mood, next(_COUNTER))

    def _target_default(self):
        return DynTarget(v=7 * self.scale)


class DynParent(HasTraits):
    label = Str
    kid = Instance(Dyn)
    kids = List(Instance(Dyn))


DYN_LAZY = ("limit", "serial", "stamp", "tags", "table", "made", "target")
DYN_PERSISTENT = ("name",) + DYN_LAZY + ("plain",)


def dyn_make(rng):
    """A Dyn in a random state in which a random subset of the dynamic defaults has
    never been read.  Returns (object, names left unread)."""
    o = Dyn()
    o.scale = rng.randint(2, 9)
    if rng.random() < 0.7:
        o.mood = rng.choice(["wild", "tame", "odd"])
    if rng.random() < 0.6:
        o.name = rng.choice(["a", "bb", "ccc"])
    for nm in DYN_LAZY:
        r = rng.random()
        if r < 0.25:
            getattr(o, nm)                      # read: materialised before the copy
        elif r < 0.35:
            setattr(o, nm, {"limit": 2.5, "serial": 5, "stamp": "s", "tags": ["t"], "table": {"k": 1},
                            "made": ("m", 1), "target": DynTarget(v=3)}[nm])
    if rng.random() < 0.3:
        o.scale = rng.randint(2, 9)             # transient state changes again after some reads
    return o, [nm for nm in DYN_LAZY if nm not in o.__dict__]


def dyn_value(o, nm):
    try:
        v = getattr(o, nm)
    except Exception as e:  # noqa: BLE001
        return ("exc", type(e).__name__)
    if isinstance(v, DynTarget):
        return ("ok", ("DynTarget", v.v))
    return ("ok", plainify(v))


def check_lazy(ctx, seed_key, modes):
    """One random state per copy mode (same history, fresh object)."""
    for mode, mclass, fn in modes:
        for nested in (False, True):
            if nested and mode not in ("pickle2", "pickle5", "deepcopy", "clone-deep"):
                continue
            rng = random.Random(seed_key)
            o, unread = dyn_make(rng)
            root = o
            if nested:
                o2, unread2 = dyn_make(rng)
                root = DynParent(label="p", kid=o, kids=[o2])
            ctx.count("lazy_copies")
            try:
                c_root = fn(root)
            except Exception as e:  # noqa: BLE001
                ctx.violation("lazy/%s/copy-raised/%s" % (mclass, type(e).__name__),
                              "%s of a Dyn with unread defaults %r raised %r" % (mode, unread, e), {"mode": mode})
                continue
            pairs = [(o, c_root.kid if nested else c_root, unread)]
            if nested:
                pairs.append((o2, c_root.kids[0], unread2))
            bad = None
            for orig, cp, unr in pairs:
                if type(cp) is not Dyn:
                    bad = ("class", "class", type(cp).__name__)
                    break
                names = list(DYN_PERSISTENT)
                if rng.random() < 0.5:
                    names.reverse()
                first_copy = rng.random() < 0.5
                for nm in names:
                    ctx.ev()
                    if first_copy:
                        vc, vo = dyn_value(cp, nm), dyn_value(orig, nm)
                    else:
                        vo, vc = dyn_value(orig, nm), dyn_value(cp, nm)
                    if nm in unr:
                        ctx.count("lazy_unread_compared")
                    else:
                        ctx.count("lazy_read_compared")
                    if not same(vo, vc):
                        bad = (nm, "unread" if nm in unr else "read",
                               "original %s, copy %s" % (short(vo, 60), short(vc, 60)))
                        break
                if bad:
                    break
                # transient state is back at its default in the copy
                ctx.ev()
                if cp.scale != 1 or cp.mood != "calm":
                    bad = ("scale/mood", "transient", "copy has scale=%r mood=%r" % (cp.scale, cp.mood))
                    break
            ctx.sig("lazy", mclass, nested, len(unread), bad[0] if bad else None)
            if bad:
                key = ("lazy/%s/transient-not-default" % mclass) if bad[1] == "transient" else \
                      ("lazy/%s/value-differs/%s-before-copy" % (mclass, bad[1]))
                ctx.violation(key, "%s of a Dyn%s whose dynamic defaults %r had not been read before the copy: "
                              "%s: %s" % (mode, " nested in a parent" if nested else "", unread, bad[0], bad[2]),
                              {"mode": mode, "trait": bad[0], "unread": unread, "nested": nested})
            else:
                ctx.count("lazy_copies_equal")


# --------------------------------------------------------------------------- nested graphs
class GNode(HasTraits):
    label = Str
    payload = Dict(Str, Any)
    notes = Any
    scores = List(Int)
    children = List(Instance("GNode"))
    left = Instance("GNode")
    right = Instance("GNode")


A.EXTRA_PERSISTENT[GNode] = ("label", "payload", "notes", "scores", "children", "left", "right")
A.EXTRA_PERSISTENT[DynTarget] = ("v",)

GRAPH_MODES = A.COPY_MODES + [
    ("clone-all-deep", "clone-all-deep", lambda o: o.clone_traits(traits="all", copy="deep")),
    ("clone-all-none", "clone-all-none", lambda o: o.clone_traits(traits="all")),
]
STRICT = ("pickle", "clone-deep", "clone-all-deep")


def _mutable(rng):
    c = rng.randrange(6)
    if c == 0:
        return [rng.randint(0, 9), rng.randint(0, 9)]
    if c == 1:
        return {"z": [rng.randint(0, 9)]}
    if c == 2:
        return [[1], [2]]
    if c == 3:
        return ([rng.randint(0, 9)], 2)
    if c == 4:
        return {"a": {"b": [1]}}
    return [rng.randint(0, 9)]


def gnode(rng, label):
    n = GNode(label=label, scores=[rng.randint(0, 9) for _ in range(rng.randint(0, 3))])
    for k in range(rng.randint(0, 2)):
        n.payload["k%d" % k] = _mutable(rng) if rng.random() < 0.8 else rng.randint(0, 9)
    r = rng.random()
    n.notes = _mutable(rng) if r < 0.75 else (None if r < 0.85 else "text")
    return n


def make_graph(rng):
    """A random tree: siblings in `children`, chains through left/right.  Returns
    (root, number of nodes, shape label)."""
    total = rng.choice([1, 2, 3, 3, 4, 5, 6, 8])
    root = gnode(rng, "n0")
    nodes = [root]
    shape = rng.choice(["siblings", "chain", "mixed"])
    while len(nodes) < total:
        child = gnode(rng, "n%d" % len(nodes))
        if shape == "siblings":
            parent = nodes[0] if rng.random() < 0.7 else rng.choice(nodes)
            parent.children.append(child)
        elif shape == "chain":
            parent = nodes[-1]
            setattr(parent, rng.choice(["left", "right"]), child)
        else:
            parent = rng.choice(nodes)
            slot = rng.choice(["children", "left", "right"])
            if slot == "children" or getattr(parent, slot) is not None:
                parent.children.append(child)
            else:
                setattr(parent, slot, child)
        nodes.append(child)
    return root, len(nodes), shape


def mutate_everywhere(root, strict):
    """Mutate every mutable value reachable from the copy (only the always-fresh typed
    lists when the mode does not promise independence).  Returns a complaint or None."""
    conts, nodes = A.reach_all(root)
    for n in nodes.values():
        if not isinstance(n, GNode):
            continue
        try:
            n.scores.append("bad")
            return "invalid-item-accepted"
        except TraitError:
            pass
        n.scores.append(41)
        if type(n.scores[-1]) is not int:
            return "valid-item-mishandled"
        n.label = n.label + "'"
    if strict:
        for c in conts.values():
            if type(c) is list:
                c.append(99)
            elif type(c) is dict:
                c["added"] = 99
            elif type(c) is set:
                c.add(99)
        for n in nodes.values():
            if isinstance(n, GNode):
                n.payload["fresh"] = [1]
    return None


def check_graph(ctx, rng, modes):
    O, nnodes, shape = make_graph(rng)
    ctx.count("graph_states")
    if nnodes >= 3:
        ctx.count("graph_states_3plus_nodes")
    for mode, mclass, fn in modes:
        ctx.count("graph_copies")
        before = A.snapshot(O)
        oconts, onodes = A.reach_all(O)
        try:
            C = fn(O)
        except Exception as e:  # noqa: BLE001
            ctx.violation("graph/%s/copy-raised/%s" % (mclass, type(e).__name__),
                          "%s of a %d-node %s graph raised %r" % (mode, nnodes, shape, e), {"mode": mode})
            continue
        ctx.ev()
        memo = {}
        r = A.veq(O, C, memo)
        ctx.count("graph_nodes_compared", len(memo))
        ctx.ev(max(1, len(memo)) * 7)
        if type(C) is not GNode or r:
            ctx.violation("graph/%s/value-differs" % mclass,
                          "%s of a %d-node %s graph: %s" % (mode, nnodes, shape, r), {"mode": mode})
            continue
        bad = A.shared_containers(C, mclass, oconts, onodes)
        ctx.ev()
        ctx.count("graph_sharing_checked")
        strict = mclass in STRICT
        if strict:
            ctx.count("graph_deep_independence_checked")
            if nnodes >= 3:
                ctx.count("graph_deep_independence_checked_3plus")
        ctx.sig("graph", mclass, min(nnodes, 4), shape, bool(bad))
        if bad:
            path, meta, what = bad[0]
            depth = path.count(".") - 1
            ctx.violation("obj/%s/shared-container/copy=%s" % (mclass, meta),
                          "%s of a %d-node %s graph: the copy shares a mutable %s with the original at %s (nesting "
                          "depth %d; copy metadata of the trait: %r; %d shared in all)"
                          % (mode, nnodes, shape, what, path, depth, meta, len(bad)),
                          {"mode": mode, "path": path, "nodes": nnodes, "shape": shape,
                           "all": [b[0] for b in bad[:8]]})
            continue
        ctx.ev()
        complaint = mutate_everywhere(C, strict)
        if complaint:
            ctx.violation("graph/%s/%s" % (mclass, complaint), "%s of a %d-node %s graph: %s"
                          % (mode, nnodes, shape, complaint), {"mode": mode})
            continue
        ctx.ev()
        d = A.snapshot_diff(before, O)
        if d and (strict or mclass == "deepcopy"):
            ctx.violation("graph/%s/original-changed" % mclass,
                          "%s of a %d-node %s graph: mutating the copy changed the original: %s"
                          % (mode, nnodes, shape, d), {"mode": mode})
            continue
        if d:
            # a mode that may share by reference: only the typed lists and labels were touched
            ctx.violation("graph/%s/original-changed-by-typed-mutation" % mclass,
                          "%s: %s" % (mode, d), {"mode": mode})
            continue
        ctx.count("graph_copies_independent" if strict else "graph_copies_ok")


# --------------------------------------------------------------------------- write-restricted kinds
# Traits that carry a value without ever being assigned by the user (or that accept one
# assignment only): a copy has to get that value past the write restriction.
class RoDeclared(HasTraits):
    n = Int
    ro = ReadOnly(5)


class RoMethod(HasTraits):
    n = Int
    ro = ReadOnly

    def _ro_default(self):
        return 5 + self.n * 0


class RoAssigned(HasTraits):
    n = Int
    ro = ReadOnly


class RoUnassigned(HasTraits):
    n = Int
    ro = ReadOnly


class RConst(HasTraits):
    n = Int
    ro = Constant(5)


class RConstList(HasTraits):
    n = Int
    ro = Constant([1, 2])


class RUuid(HasTraits):
    n = Int
    ro = UUID


class RUuidInit(HasTraits):
    n = Int
    ro = UUID(can_init=True)


class RUuidInitAuto(HasTraits):
    n = Int
    ro = UUID(can_init=True)


RESTRICTED = [(RoDeclared, "ReadOnly.with-default"), (RoMethod, "ReadOnly.with-default"),
              (RoAssigned, "ReadOnly.assigned"), (RoUnassigned, "ReadOnly.unassigned"),
              (RConst, "Constant"), (RConstList, "Constant"), (RUuid, "UUID"),
              (RUuidInit, "UUID.can_init"), (RUuidInitAuto, "UUID.can_init")]


def restricted_make(cls, rng, read):
    if cls is RUuidInit:
        o = cls(n=rng.randint(0, 9), ro=uuid.UUID(int=rng.randint(1, 10 ** 6)))
    else:
        o = cls(n=rng.randint(0, 9))
    if cls is RoAssigned:
        o.ro = rng.randint(1, 99)
    if read:
        getattr(o, "ro")
    return o


def check_restricted(ctx, cls, kind, seed_key, modes):
    for mode, mclass, fn in modes:
        fam = "pickle" if mclass == "pickle" else "clone"      # deepcopy and clone_traits share copy_traits
        for read in (True, False):
            rng = random.Random("%s/%s/%s" % (seed_key, mode, read))
            o = restricted_make(cls, rng, read)
            ctx.count("restricted_copies")
            ctx.ev()
            state = "read" if read else "unread"
            try:
                c = fn(o)
            except Exception as e:  # noqa: BLE001
                ctx.sig("restricted", kind, fam, state, "raises")
                ctx.violation("restricted/%s/restore-raises/%s" % (fam, kind),
                              "%s of a %s whose %s value was %s before the copy raised %s: %s"
                              % (mode, cls.__name__, kind, state, type(e).__name__, short(e, 160)),
                              {"mode": mode, "class": cls.__name__, "read_before_copy": read})
                continue
            complaint = None
            ctx.ev()
            vo, vc = getattr(o, "ro"), getattr(c, "ro")
            if type(c) is not cls:
                complaint = "class-differs"
            elif c.n != o.n:
                complaint = "value-differs-other-trait"
            elif not same(plainify(vo), plainify(vc)):
                complaint = "value-differs"
            if complaint is None:
                # the restriction itself is live on the copy
                ctx.ev()
                if vc is Undefined:
                    try:
                        c.ro = 3
                    except Exception as e:  # noqa: BLE001
                        complaint = "first-write-rejected"
                    vc = c.ro
                if complaint is None:
                    try:
                        c.ro = uuid.UUID(int=3) if isinstance(vc, uuid.UUID) else 77
                        complaint = "write-accepted"
                    except TraitError:
                        if not same(plainify(c.ro), plainify(vc)):
                            complaint = "changed-by-rejected-write"
                    except Exception as e:  # noqa: BLE001
                        complaint = "wrong-exception-" + type(e).__name__
            if complaint is None and not same(plainify(getattr(o, "ro")), plainify(vo)):
                complaint = "original-changed"
            ctx.sig("restricted", kind, fam, state, complaint)
            if complaint:
                ctx.violation("restricted/%s/%s/%s" % (fam, complaint, kind),
                              "%s of a %s (%s value %s before the copy): %s: original %s, copy %s"
                              % (mode, cls.__name__, kind, state, complaint, short(vo, 50), short(vc, 50)),
                              {"mode": mode, "class": cls.__name__, "read_before_copy": read})
            else:
                ctx.count("restricted_copies_ok")


# --------------------------------------------------------------------------- driver
def run_more(ctx):
    nl = ctx.scale(96, 2400)
    per = 8
    for b in range(0, nl, per):
        if not ctx.mine(b // per + 3):
            continue
        if not ctx.begin("lazy:%d" % b):
            continue
        try:
            for i in range(b, min(nl, b + per)):
                check_lazy(ctx, "%s/lazy/%d" % (ctx.seed, i), A.COPY_MODES)
                ctx.count("lazy_states")
            if b == 0:
                ctx.sample({"sub": "lazy-defaults", "class": "Dyn", "unread": dyn_make(random.Random(1))[1],
                            "modes": [m[0] for m in A.COPY_MODES]})
        finally:
            ctx.end()
    nr = ctx.scale(6, 120)
    for ci, (cls, kind) in enumerate(RESTRICTED):
        if not ctx.mine(ci + 11):
            continue
        if not ctx.begin("restricted:%s" % cls.__name__, {"kind": kind}):
            continue
        try:
            for i in range(nr):
                check_restricted(ctx, cls, kind, "%s/restricted/%s/%d" % (ctx.seed, cls.__name__, i), A.COPY_MODES)
                ctx.count("restricted_states")
        finally:
            ctx.end()
    ng = ctx.scale(160, 4000)
    for b in range(0, ng, per):
        if not ctx.mine(b // per + 7):
            continue
        if not ctx.begin("graph:%d" % b):
            continue
        try:
            for i in range(b, min(ng, b + per)):
                check_graph(ctx, ctx.rng("graph", i), GRAPH_MODES)
            if b == 0:
                ctx.sample({"sub": "nested-graphs", "class": "GNode", "modes": [m[0] for m in GRAPH_MODES]})
        finally:
            ctx.end()
