"""Value lattice for the C03 differential (DESIGN.md section 3.1).

`lattice()` returns a list of `(id, class_label, value)`:

* `id` is a stable, unique, printable name; witnesses refer to values by id so
  that NaNs, numpy scalars and hostile protocol objects replay exactly;
* `class_label` is the coarse *value class* used in mechanism keys (about 70
  classes; never a concrete random value);
* `value` is the object.  No protocol method raises TraitError itself (a
  rejection and a propagated exception would be indistinguishable).  Values
  are stateless with respect to validation
  (no iterators/generators), their `__repr__` is never hostile (the library's
  error path calls `repr(value)`), and every hostile special method is
  deterministic.

The module is self-contained (imports only the stdlib, numpy and `traits.api`
for the harness `HasTraits` classes) so it can be moved to a shared place.
"""
import collections
import collections.abc
import datetime
import decimal
import enum
import fractions
import functools
import math
import struct
import sys
import types
import typing

import numpy as np

from traits.api import HasTraits, Undefined, Uninitialized

#: finite bounds used by the float-Range option grid; every bound b contributes
#: b, nextafter(b, -inf), nextafter(b, +inf) to the lattice
BOUNDS = (-2.5, 0.0, 1.0, 1.0e6)


# --------------------------------------------------------------------------
# harness classes (module level so that reprs / pickles are stable)
class I(int):
    pass


class F(float):
    pass


class C(complex):
    pass


class S(str):
    pass


class B(bytes):
    pass


class T(tuple):
    pass


class L(list):
    pass


class D(dict):
    pass


NT = collections.namedtuple("NT", "a b")
NT3 = collections.namedtuple("NT3", "a b c")


class Color(enum.Enum):
    RED = 1


class Num(enum.IntEnum):
    ONE = 1
    TWO = 2


class Word(str, enum.Enum):
    """str-mixin enumeration: the members are str instances equal to plain strings."""
    A = "a"
    YES = "yes"
    AB = "ab"


if hasattr(enum, "StrEnum"):
    class Level(enum.StrEnum):
        NO = "no"
        TWELVE = "12"
else:                                                        # Python < 3.11
    class Level(str, enum.Enum):
        NO = "no"
        TWELVE = "12"


class Token(object):
    """An object with its own __eq__: equal to its spelling in any letter case."""

    def __init__(self, text):
        self.text = text

    def __eq__(self, other):
        if isinstance(other, Token):
            other = other.text
        if isinstance(other, str):
            return self.text.lower() == other.lower()
        return NotImplemented

    def __hash__(self):
        return hash(self.text.lower())

    def __repr__(self):
        return "Token(%r)" % (self.text,)


# ---- classes whose isinstance() verdict depends on the individual object, not
# ---- on type(value) alone
@typing.runtime_checkable
class Labelled(typing.Protocol):
    """Runtime-checkable protocol with a data member."""
    vf_label: str


class Thing(object):
    """Only some instances carry the protocol's data member."""

    def __init__(self, label=None):
        if label is not None:
            self.vf_label = label

    def __repr__(self):
        return "Thing(%s)" % ", ".join("%s=%r" % kv for kv in sorted(self.__dict__.items()))


class OpenMeta(type):
    def __instancecheck__(cls, instance):
        return getattr(instance, "is_open", False) is True


class Open(metaclass=OpenMeta):
    """isinstance(x, Open) is decided per object by the metaclass."""


class Door(object):
    def __init__(self, is_open):
        self.is_open = is_open

    def __repr__(self):
        return "Door(%r)" % (self.is_open,)


class Masq(object):
    """Reports a class of its choice through __class__ (what mock objects built
    with a spec do); isinstance() honours it, type() does not."""

    def __init__(self, cls):
        object.__setattr__(self, "_masq", cls)

    @property
    def __class__(self):
        return object.__getattribute__(self, "_masq")

    def __repr__(self):
        return "Masq(%s)" % object.__getattribute__(self, "_masq").__name__


def _payload(v):
    """Protocol payload: an exception instance is raised, anything else is
    returned."""
    if isinstance(v, BaseException):
        raise type(v)(*v.args)
    return v


class _Proto(object):
    __slots__ = ("v",)

    def __init__(self, v):
        self.v = v

    def __repr__(self):
        v = self.v
        return "%s(%s)" % (type(self).__name__,
                           type(v).__name__ + "()" if isinstance(v, BaseException) else repr(v))


class Idx(_Proto):
    __slots__ = ()

    def __index__(self):
        return _payload(self.v)


class Flt(_Proto):
    __slots__ = ()

    def __float__(self):
        return _payload(self.v)


class Cpx(_Proto):
    __slots__ = ()

    def __complex__(self):
        return _payload(self.v)


class IntOnly(_Proto):
    """__int__ without __index__ (accepted by int(), not by operator.index)."""
    __slots__ = ()

    def __int__(self):
        return _payload(self.v)


class Boo(_Proto):
    __slots__ = ()

    def __bool__(self):
        return _payload(self.v)


class Stx(_Proto):
    """hostile __str__ (the repr stays friendly)."""
    __slots__ = ()

    def __str__(self):
        return _payload(self.v)


class Byt(_Proto):
    __slots__ = ()

    def __bytes__(self):
        return _payload(self.v)


class IdxFlt(object):
    """Both protocols, with different answers."""

    def __init__(self, i, f):
        self.i, self.f = i, f

    def __index__(self):
        return _payload(self.i)

    def __float__(self):
        return _payload(self.f)

    def __repr__(self):
        return "IdxFlt(%r, %r)" % (self.i, self.f)


class FltCpx(object):
    def __init__(self, f, c):
        self.f, self.c = f, c

    def __float__(self):
        return _payload(self.f)

    def __complex__(self):
        return _payload(self.c)

    def __repr__(self):
        return "FltCpx(%r, %r)" % (self.f, self.c)


class BadEq(object):
    def __eq__(self, other):
        raise RuntimeError("eq")

    __hash__ = object.__hash__

    def __repr__(self):
        return "BadEq()"


class EqArr(object):
    """__eq__ returns an array (truth value ambiguous)."""

    def __eq__(self, other):
        return np.array([True, False])

    __hash__ = object.__hash__

    def __repr__(self):
        return "EqArr()"


class EqTrue(object):
    def __eq__(self, other):
        return True

    def __hash__(self):
        return 12345

    def __repr__(self):
        return "EqTrue()"


class Unhash(object):
    __hash__ = None

    def __eq__(self, other):
        return False

    def __repr__(self):
        return "Unhash()"


class HashRaises(object):
    def __hash__(self):
        raise RuntimeError("hash")

    def __eq__(self, other):
        return False

    def __repr__(self):
        return "HashRaises()"


class HashEq(object):
    """Hashes and compares like the wrapped value."""

    def __init__(self, v):
        self.v = v

    def __hash__(self):
        return hash(self.v)

    def __eq__(self, other):
        return self.v == other

    def __repr__(self):
        return "HashEq(%r)" % (self.v,)


class CallableObj(object):
    def __call__(self, *a):
        return 0

    def __repr__(self):
        return "CallableObj()"


class NotCallable(object):
    __call__ = None

    def __repr__(self):
        return "NotCallable()"


class ModuleSub(types.ModuleType):
    pass


class Meta(type):
    pass


class WithMeta(metaclass=Meta):
    pass


class X(HasTraits):
    """Target class of the Instance specs."""


class Y(X):
    pass


class Z(HasTraits):
    """Unrelated HasTraits class."""


class Holder(HasTraits):
    """Class of the object the validators are called for (`This` looks at it)."""


class HolderSub(Holder):
    pass


class Src(object):
    """Adaptable to X through the harness' private AdaptationManager."""

    def __repr__(self):
        return "Src()"


class SrcSub(Src):
    def __repr__(self):
        return "SrcSub()"


class Src2(object):
    """Not adaptable under the harness' standard manager; the manager-swap
    stratum registers an adapter for it with the replacement manager only."""

    def __repr__(self):
        return "Src2()"


class XAdapter(X):
    """Adapter Src -> X.  Two adapters of the same adaptee are equal, so the
    results of the two code paths can be compared."""

    def __init__(self, adaptee=None, **kw):
        super().__init__(**kw)
        self.__dict__["adaptee"] = adaptee

    def __eq__(self, other):
        return type(other) is XAdapter and other.__dict__.get("adaptee") is self.__dict__.get("adaptee")

    def __hash__(self):
        return 7

    def __repr__(self):
        return "XAdapter(%r)" % (self.__dict__.get("adaptee"),)


def plain_function():
    pass


def _nan_with_payload():
    return struct.unpack("<d", struct.pack("<Q", 0x7FF8000000000123))[0]


_CACHE = None


def lattice():
    """The list of (id, class_label, value); built once per process."""
    global _CACHE
    if _CACHE is None:
        _CACHE = _build()
    return _CACHE


def by_id():
    return {i: (c, v) for i, c, v in lattice()}


def _build():
    out = []
    seen = set()

    def add(vid, cls, v):
        assert vid not in seen, vid
        seen.add(vid)
        out.append((vid, cls, v))

    nan = float("nan")
    inf = float("inf")

    add("none", "none", None)
    add("true", "bool", True)
    add("false", "bool", False)

    # ---- ints -------------------------------------------------------------
    for n in (0, 1, -1, 2, -2, 3, 7, 10, 255, -129):
        add("int:%d" % n, "int", n)
    for name, n in (("2^31-1", 2 ** 31 - 1), ("2^31", 2 ** 31), ("2^31+1", 2 ** 31 + 1),
                    ("-2^31-1", -2 ** 31 - 1), ("2^53+1", 2 ** 53 + 1),
                    ("2^63-1", 2 ** 63 - 1), ("2^63", 2 ** 63), ("2^63+1", 2 ** 63 + 1),
                    ("-2^63", -2 ** 63), ("-2^63-1", -2 ** 63 - 1), ("2^64", 2 ** 64),
                    ("1e30", 10 ** 30), ("-1e30", -10 ** 30)):
        add("int:" + name, "int.big", n)
    add("int:1e400", "int.huge", 10 ** 400)
    add("int:-1e400", "int.huge", -10 ** 400)

    # ---- floats -----------------------------------------------------------
    for x in (0.0, -0.0, 1.0, -1.0, 0.5, 1.5, -2.5, 2.0, 3.0, 1e6, 1e308, -1e308, 5e-324,
              2.0 ** 53, 0.1):
        add("float:%r" % x, "float", x)
    for b in BOUNDS:
        for d, tag in ((-inf, "-"), (inf, "+")):
            x = math.nextafter(b, d)
            add("float:next(%r)%s" % (b, tag), "float", x)
    add("float:inf", "float.inf", inf)
    add("float:-inf", "float.inf", -inf)
    add("nan#1", "nan", nan)
    add("nan#2", "nan", -float("nan"))
    add("nan#3", "nan", _nan_with_payload())
    add("nan:math", "nan", math.nan)

    # ---- complex ----------------------------------------------------------
    for name, z in (("0j", 0j), ("1j", 1j), ("1+0j", complex(1, 0)), ("1.5-2j", complex(1.5, -2)),
                    ("nan+0j", complex(nan, 0)), ("0+infj", complex(0, inf)),
                    ("-0-0j", complex(-0.0, -0.0))):
        add("complex:" + name, "complex", z)

    # ---- str / bytes ------------------------------------------------------
    strs = ["", "a", "ab", "abc", "12", " 1 ", "yes", "y", "Ye", "no", "1.5", "1e3", "nan",
            "inf", "-inf", "True", "1j", "0x10", "1_0", "x" * 100, "é", "日本",
            "\x00", "٣"]
    for s in strs:
        add("str:%s" % ascii(s if len(s) < 20 else "x*100"), "str", s)
    add("str:twin(ab)", "str", "".join(["a", "b"]))
    add("str:twin(yes)", "str", "".join(["y", "es"]))
    for b in (b"", b"a", b"ab", b"12", b"\xff", b"yes"):
        add("bytes:%r" % b, "bytes", b)
    add("bytearray:a", "bytearray", bytearray(b"a"))
    add("bytearray:", "bytearray", bytearray())
    add("memoryview:a", "memoryview", memoryview(b"a"))

    # ---- subclasses of builtins ------------------------------------------
    add("I(3)", "int.subclass", I(3))
    add("I(0)", "int.subclass", I(0))
    add("I(2^64)", "int.subclass", I(2 ** 64))
    add("Num.ONE", "int.subclass", Num.ONE)
    add("F(0.5)", "float.subclass", F(0.5))
    add("F(1.0)", "float.subclass", F(1.0))
    add("F(inf)", "float.subclass", F(inf))
    add("F(nan)", "nan", F(nan))
    add("C(1j)", "complex.subclass", C(1j))
    add("S(a)", "str.subclass", S("a"))
    add("S()", "str.subclass", S(""))
    add("S(yes)", "str.subclass", S("yes"))
    add("S(12)", "str.subclass", S("12"))
    add("B(a)", "bytes.subclass", B(b"a"))
    add("T(1,2)", "tuple.subclass", T((1, 2)))
    add("T()", "tuple.subclass", T(()))
    add("T(1,a)", "tuple.subclass", T((1, "a")))
    add("T(1)", "tuple.subclass", T((1,)))
    add("T(0.5,1)", "tuple.subclass", T((0.5, 1)))
    add("NT(1,2)", "tuple.subclass", NT(1, 2))
    add("NT(1,a)", "tuple.subclass", NT(1, "a"))
    add("NT(a,b)", "tuple.subclass", NT("a", "b"))
    add("NT(0.5,1)", "tuple.subclass", NT(0.5, 1))
    add("NT(True,2)", "tuple.subclass", NT(True, 2))
    add("NT3(a,b,c)", "tuple.subclass", NT3("a", "b", "c"))
    add("NT((1,2),a)", "tuple.subclass", NT((1, 2), "a"))
    add("L(1,2)", "list.subclass", L([1, 2]))
    add("D()", "dict.subclass", D())
    add("Color.RED", "enum", Color.RED)
    # str-mixin enumeration members / enum.StrEnum members (equal to plain strings)
    add("Word.A", "str.subclass", Word.A)
    add("Word.YES", "str.subclass", Word.YES)
    add("Level.NO", "str.subclass", Level.NO)

    # ---- numpy scalars ----------------------------------------------------
    for name, v in (("int8(1)", np.int8(1)), ("int8(-128)", np.int8(-128)), ("int8(127)", np.int8(127)),
                    ("uint8(255)", np.uint8(255)), ("int16(7)", np.int16(7)), ("int32(5)", np.int32(5)),
                    ("int32(0)", np.int32(0)), ("int32(max)", np.int32(2 ** 31 - 1)),
                    ("int64(-1)", np.int64(-1)), ("int64(2)", np.int64(2)),
                    ("int64(max)", np.int64(2 ** 63 - 1)), ("uint32(max)", np.uint32(2 ** 32 - 1)),
                    ("uint64(max)", np.uint64(2 ** 64 - 1)), ("uint64(0)", np.uint64(0)),
                    ("intp(3)", np.intp(3))):
        add("np." + name, "np.int", v)
    for name, v in (("float16(0.5)", np.float16(0.5)), ("float16(inf)", np.float16(inf)),
                    ("float32(0.5)", np.float32(0.5)), ("float32(1.0)", np.float32(1.0)),
                    ("float32(0.1)", np.float32(0.1)), ("float32(inf)", np.float32(inf)),
                    ("float64(0.5)", np.float64(0.5)), ("float64(0.0)", np.float64(0.0)),
                    ("float64(1.0)", np.float64(1.0)), ("float64(-inf)", np.float64(-inf)),
                    ("float64(2.0)", np.float64(2.0)), ("longdouble(0.5)", np.longdouble(0.5))):
        add("np." + name, "np.float", v)
    for name, v in (("float16(nan)", np.float16(nan)), ("float32(nan)", np.float32(nan)),
                    ("float64(nan)", np.float64(nan)), ("longdouble(nan)", np.longdouble(nan))):
        add("np." + name, "nan", v)
    add("np.bool(True)", "np.bool", np.bool_(True))
    add("np.bool(False)", "np.bool", np.bool_(False))
    add("np.complex64(1j)", "np.complex", np.complex64(1j))
    add("np.complex128(1+2j)", "np.complex", np.complex128(1 + 2j))
    add("np.complex128(nan)", "nan", np.complex128(complex(nan, 0)))   # float() of it is NaN
    add("np.str(a)", "np.str", np.str_("a"))
    add("np.str(yes)", "np.str", np.str_("yes"))
    add("np.str(12)", "np.str", np.str_("12"))
    add("np.bytes(a)", "np.bytes", np.bytes_(b"a"))
    add("np.datetime64", "np.datetime", np.datetime64("2020-01-01"))
    add("np.timedelta64", "np.datetime", np.timedelta64(1, "s"))

    # ---- numpy arrays -----------------------------------------------------
    for name, v in (("0d(1)", np.array(1)), ("0d(0.5)", np.array(0.5)), ("0d(True)", np.array(True)),
                    ("0d(a)", np.array("a")), ("0d(1j)", np.array(1j)),
                    ("0d(obj)", np.array(None, dtype=object))):
        add("np.array:" + name, "np.array0d", v)
    add("np.array:0d(nan)", "nan", np.array(nan))
    for name, v in (("[1]", np.array([1])), ("[0.5]", np.array([0.5])), ("[[1]]", np.array([[1]])),
                    ("[True]", np.array([True]))):
        add("np.array:" + name, "np.array1", v)
    for name, v in (("[1,2]", np.array([1, 2])), ("[0.5,nan]", np.array([0.5, nan])),
                    ("[[1,2],[3,4]]", np.array([[1, 2], [3, 4]])), ("[]", np.array([])),
                    ("[a,b]", np.array(["a", "b"])), ("[T,F]", np.array([True, False])),
                    ("obj[1,2]", np.array([1, 2], dtype=object)), ("zeros(2,0)", np.zeros((2, 0))),
                    ("[1j,2]", np.array([1j, 2])), ("uint8[1,2]", np.array([1, 2], dtype=np.uint8))):
        add("np.array:" + name, "np.array", v)

    # ---- protocol objects -------------------------------------------------
    def proto(prefix, klass, ok, badtype, subclass_ret):
        for v in ok:
            add("%s(%r)" % (prefix, v), "proto.%s.ok" % prefix.lower(), klass(v))
        for v in subclass_ret:
            add("%s(%s)" % (prefix, type(v).__name__ + ":" + repr(v)),
                "proto.%s.subclass" % prefix.lower(), klass(v))
        for v in badtype:
            add("%s(%r)" % (prefix, v), "proto.%s.badtype" % prefix.lower(), klass(v))
        add("%s(TypeError)" % prefix, "proto.%s.raises.TypeError" % prefix.lower(), klass(TypeError("t")))
        for e in (ValueError("v"), RuntimeError("r"), OverflowError("o"), ZeroDivisionError("z"),
                  AttributeError("a")):
            add("%s(%s)" % (prefix, type(e).__name__), "proto.%s.raises.other" % prefix.lower(), klass(e))

    proto("Idx", Idx, ok=(3, 0, -1, 2 ** 70, 1), badtype=("x", 1.5, None), subclass_ret=(True, I(5)))
    proto("Flt", Flt, ok=(0.5, 1.0, inf, -0.0, 1e6), badtype=(1, "x", None), subclass_ret=(F(0.5),))
    add("Flt(nan)", "nan", Flt(nan))
    proto("Cpx", Cpx, ok=(1j, complex(0.5, 0)), badtype=(1.0, "x"), subclass_ret=(C(1j),))
    proto("IntOnly", IntOnly, ok=(5, 0), badtype=("x",), subclass_ret=(True,))
    for v in (True, False):
        add("Boo(%r)" % v, "proto.bool.ok", Boo(v))
    add("Boo(1)", "proto.bool.badtype", Boo(1))
    add("Boo(ValueError)", "proto.bool.raises", Boo(ValueError("v")))
    add("Boo(TypeError)", "proto.bool.raises", Boo(TypeError("t")))
    add("Stx('s')", "proto.str.ok", Stx("s"))
    add("Stx('12')", "proto.str.ok", Stx("12"))
    add("Stx(1)", "proto.str.badtype", Stx(1))
    add("Stx(ValueError)", "proto.str.raises", Stx(ValueError("v")))
    add("Stx(TypeError)", "proto.str.raises", Stx(TypeError("t")))
    add("Byt(b'b')", "proto.bytes.ok", Byt(b"b"))
    add("Byt('s')", "proto.bytes.badtype", Byt("s"))
    add("Byt(RuntimeError)", "proto.bytes.raises", Byt(RuntimeError("r")))
    add("IdxFlt(3,0.5)", "proto.mixed", IdxFlt(3, 0.5))
    add("IdxFlt(3,TypeError)", "proto.mixed", IdxFlt(3, TypeError("t")))
    add("IdxFlt(TypeError,0.5)", "proto.mixed", IdxFlt(TypeError("t"), 0.5))
    add("IdxFlt(1,ValueError)", "proto.mixed", IdxFlt(1, ValueError("v")))
    add("FltCpx(0.5,1j)", "proto.mixed", FltCpx(0.5, 1j))
    add("FltCpx(0.5,TypeError)", "proto.mixed", FltCpx(0.5, TypeError("t")))
    add("Decimal(0.5)", "number.other", decimal.Decimal("0.5"))
    add("Decimal(2)", "number.other", decimal.Decimal(2))
    add("Decimal(NaN)", "nan", decimal.Decimal("NaN"))
    add("Decimal(sNaN)", "number.other", decimal.Decimal("sNaN"))
    add("Fraction(1,2)", "number.other", fractions.Fraction(1, 2))
    add("Fraction(3)", "number.other", fractions.Fraction(3))

    # ---- equality / hashing -----------------------------------------------
    add("BadEq", "eq.raises", BadEq())
    add("EqArr", "eq.array", EqArr())
    add("EqTrue", "eq.true", EqTrue())
    add("Unhash", "unhashable", Unhash())
    add("HashRaises", "hash.raises", HashRaises())
    add("HashEq(yes)", "eq.proxy", HashEq("yes"))
    add("HashEq(1)", "eq.proxy", HashEq(1))
    add("Token(Yes)", "eq.proxy", Token("Yes"))
    add("Token(maybe)", "eq.proxy", Token("maybe"))

    # ---- containers -------------------------------------------------------
    for name, v in (("()", ()), ("(1,)", (1,)), ("(1,2)", (1, 2)), ("(1,'a')", (1, "a")),
                    ("('a',1)", ("a", 1)), ("(1,2,3)", (1, 2, 3)), ("(1.0,2)", (1.0, 2)),
                    ("(True,'a')", (True, "a")), ("(None,None)", (None, None)),
                    ("((1,2),'a')", ((1, 2), "a")), ("(1,(2,3))", (1, (2, 3))),
                    ("(0.5,1)", (0.5, 1)), ("('a','b','c')", ("a", "b", "c")),
                    ("('a','b')", ("a", "b")), ("(2,)", (2,)), ("('1','2')", ("1", "2"))):
        add("tuple:" + name, "tuple", v)
    add("tuple:(nan,1)", "tuple", (nan, 1))
    add("tuple:(I(1),2)", "tuple", (I(1), 2))
    add("tuple:(np.int32(1),'a')", "tuple", (np.int32(1), "a"))
    add("tuple:(NT(1,2),'a')", "tuple", (NT(1, 2), "a"))
    add("tuple:([1],[2])", "tuple", ([1], [2]))
    add("tuple:(Idx(ValueError),1)", "tuple", (Idx(ValueError("v")), 1))
    for name, v in (("[]", []), ("[1,2]", [1, 2]), ("[1,'a']", [1, "a"]), ("[[1]]", [[1]])):
        add("list:" + name, "list", v)
    add("set:{1}", "set", {1})
    add("set:{}", "set", set())
    add("frozenset:{1}", "frozenset", frozenset({1}))
    add("dict:{}", "dict", {})
    add("dict:{a:1}", "dict", {"a": 1})
    add("dict:{1:2}", "dict", {1: 2})
    add("range(3)", "range", range(3))
    add("slice(1,2)", "slice", slice(1, 2))

    # ---- classes, callables, modules --------------------------------------
    for name, v in (("int", int), ("float", float), ("str", str), ("tuple", tuple), ("type", type),
                    ("object", object), ("X", X), ("Y", Y), ("Holder", Holder), ("I", I),
                    ("WithMeta", WithMeta), ("Color", Color)):
        add("class:" + name, "class", v)
    add("function", "function", plain_function)
    add("lambda", "function", (lambda: 0))
    add("builtin:len", "builtin", len)
    add("builtin:method", "builtin", [].append)
    add("boundmethod", "method", X().trait_get)
    add("unboundmethod", "function", X.trait_get)
    add("partial", "callable.object", functools.partial(plain_function))
    add("CallableObj", "callable.object", CallableObj())
    add("NotCallable", "object", NotCallable())
    add("staticmethod", "callable.object", staticmethod(plain_function))
    add("module:sys", "module", sys)
    add("module:types", "module", types)
    add("module:math", "module", math)
    add("module:sub", "module.subclass", ModuleSub("m"))

    # ---- datetime ---------------------------------------------------------
    add("date", "datetime", datetime.date(2020, 1, 2))
    add("datetime", "datetime", datetime.datetime(2020, 1, 2, 3, 4, 5))
    add("time", "datetime", datetime.time(1, 2, 3))
    add("timedelta", "datetime", datetime.timedelta(seconds=1))

    # ---- HasTraits instances ----------------------------------------------
    add("X()", "hastraits", X())
    add("X()#2", "hastraits", X())
    add("Y()", "hastraits", Y())
    add("Z()", "hastraits", Z())
    add("Holder()", "hastraits.holder", Holder())
    add("HolderSub()", "hastraits.holder", HolderSub())
    add("Src()", "adaptable", Src())
    add("SrcSub()", "adaptable", SrcSub())
    add("Src2()", "adaptable.alt", Src2())
    add("XAdapter()", "hastraits", XAdapter(Src()))

    # ---- objects whose isinstance() verdict is individual ---------------------
    add("Thing(a)", "duck.member-present", Thing("a"))
    add("Thing(b)", "duck.member-present", Thing("b"))
    add("Thing()", "duck.member-absent", Thing())
    add("Thing()#2", "duck.member-absent", Thing())
    add("Door(open)", "duck.flag-on", Door(True))
    add("Door(open)#2", "duck.flag-on", Door(True))
    add("Door(shut)", "duck.flag-off", Door(False))
    add("Masq(X)", "class-masquerade", Masq(X))
    add("Masq(X)#2", "class-masquerade", Masq(X))
    add("Masq(int)", "class-masquerade", Masq(int))
    add("Masq(Holder)", "class-masquerade", Masq(Holder))

    # ---- singletons -------------------------------------------------------
    add("object()", "object", object())
    add("Ellipsis", "singleton", Ellipsis)
    add("NotImplemented", "singleton", NotImplemented)
    add("Undefined", "singleton", Undefined)
    add("Uninitialized", "singleton", Uninitialized)
    return out
