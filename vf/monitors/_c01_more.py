"""C01 private helper: two further strata of the domain check.

* stratum ``arrays``: the ndarray *value family* the shared lattice does not reach (arrays in the
  non-native byte order obtained three ways, declared non-native dtypes, strided / transposed /
  broadcast / read-only views, zero-size and 0-d arrays, ndarray subclasses, structured / string /
  datetime dtypes, ragged and nested sequences) against the Array / CArray / ArrayOrNone option grid
  (dtype x casting rule x shape rule, direct and as a member of Tuple / List / Union / Either / Dict).
  The reference is a *domain predicate on what is readable*: an ndarray whose dtype IS the declared
  dtype (byte order included), whose shape obeys the shape rule and whose content is the documented
  ``astype`` conversion.

* stratum ``deferred``: assignment THROUGH a deferring trait (DelegatesTo, PrototypedFrom, Delegate
  with and without modify; same name / renamed / prefix* naming; one hop and two hops).  The domain
  is the one of the trait that governs the delegated-to attribute *on that delegate object*: the
  class trait, an instance trait (add_trait) shadowing it, an instance-only trait, a subclass
  override, a listener-made clone, a delegate swapped in after the first read, a shadow added and
  removed again.

Nothing here reads the library's source or keys on library-internal names.
"""
import sys
import warnings

import numpy as np

from traits.api import (
    HasTraits, TraitError, MetaHasTraits, Int, Float, Str, Bool, CInt, Range, Enum, Tuple, Union,
    Either, String, Instance, List, Dict, Array, ArrayOrNone, CArray, Any, DelegatesTo,
    PrototypedFrom, Delegate,
)

from vf.lattice import lattice, Plain, PlainSub
from vf import reference as rf
from vf.reference import R, REJ, ACC
from vf.util import same, short


class Raised:
    pass


def attempt(fn):
    try:
        fn()
        return ("ok", None)
    except TraitError as e:
        return ("TE", e)
    except Exception as e:
        return ("EXC", e)


# =============================================================================================
# stratum "arrays"
# =============================================================================================
SWAP = ">" if sys.byteorder == "little" else "<"
NATIVE = "<" if sys.byteorder == "little" else ">"


class MyArr(np.ndarray):
    pass


def array_values():
    """(id, class, value) -- rebuilt on every call."""
    V = []

    def add(i, c, v):
        V.append((i, c, v))
    nan = float("nan")
    base = [
        ("f8", np.array([1.5, -2.25, 1e300])),
        ("f4", np.array([0.5, 2.0], dtype="f4")),
        ("f2", np.array([0.5, 2.0], dtype="f2")),
        ("i8", np.array([2 ** 40, -1, 3], dtype="i8")),
        ("i4", np.arange(5, dtype="i4")),
        ("i2", np.array([7, 8], dtype="i2")),
        ("u2", np.array([1, 65535], dtype="u2")),
        ("u8", np.array([2 ** 63, 1], dtype="u8")),
        ("c16", np.array([1 + 2j, 0.5])),
        ("c8", np.array([1j], dtype="c8")),
        ("U3", np.array(["abc", "d"])),
        ("U1num", np.array(["1", "2"])),
        ("M8[s]", np.array(["2020-01-01T00:00:01"], dtype="M8[s]")),
        ("m8[s]", np.array([5, 7], dtype="m8[s]")),
        ("f8nan", np.array([0.5, nan, float("inf")])),
        ("f8x2", np.array([[1.0, 2.0], [3.0, 4.0], [5.0, 6.0]])),
        ("f8x3", np.array([[1.0, 2.0, 3.0], [4.0, 5.0, 6.0]])),
        ("i4x2", np.array([[1, 2], [3, 4]], dtype="i4")),
        ("f4x1", np.array([[1.0], [2.0]], dtype="f4")),
    ]
    for code, a in base:
        nd = "-%dd" % a.ndim if a.ndim != 1 else ""
        add("native:" + code, "np-native" + nd, a)
        dt = a.dtype.newbyteorder(SWAP)
        if dt == a.dtype:
            continue
        # the same numbers in the other byte order, obtained the three usual ways
        add("swapped-astype:" + code, "np-nonnative" + nd, a.astype(dt))
        add("swapped-view:" + code, "np-nonnative" + nd, a.byteswap().view(dt))
        add("swapped-frombuffer:" + code, "np-nonnative-readonly" + nd,
            np.frombuffer(a.astype(dt).tobytes(), dtype=dt).reshape(a.shape))
    # explicitly spelled native order is the declared dtype itself
    add("native-spelled:=f8", "np-native", np.array([1.0, 2.0], dtype="=f8"))
    add("native-spelled:%sf8" % NATIVE, "np-native", np.array([1.0, 2.0], dtype=NATIVE + "f8"))
    add("native-spelled:%si4" % NATIVE, "np-native", np.array([1, 2], dtype=NATIVE + "i4"))
    # single-byte and order-free dtypes
    add("i1", "np-native", np.array([1, -2, 3], dtype="i1"))
    add("u1", "np-native", np.array([1, 255], dtype="u1"))
    add("bool", "np-bool-array", np.array([True, False]))
    add("S2", "np-bytes-array", np.array([b"ab", b"c"]))
    add("object-nums", "np-object-array", np.array([1, 2.5], dtype=object))
    add("object-mixed", "np-object-array", np.array([1, "a", None], dtype=object))
    add("longdouble", "np-native", np.array([1.5, 2.5], dtype=np.longdouble))
    # views: strided, reversed, transposed, Fortran order, broadcast (zero strides, read-only),
    # explicit read-only, diagonal, a slice of a swapped array
    big = np.arange(12, dtype="f8")
    add("view:strided", "np-view", big[::2])
    add("view:reversed", "np-view", big[::-1][:4])
    add("view:offset", "np-view", big[3:6])
    m = np.arange(6, dtype="f8").reshape(3, 2)
    add("view:transposed", "np-view-2d", m.T)
    add("view:fortran", "np-view-2d", np.asfortranarray(m))
    add("view:column", "np-view", m[:, 1])
    add("view:broadcast", "np-view-2d", np.broadcast_to(np.array([1.0, 2.0]), (3, 2)))
    ro = np.array([1.0, 2.0, 3.0])
    ro.flags.writeable = False
    add("view:readonly", "np-readonly", ro)
    add("view:diagonal", "np-readonly", np.eye(3).diagonal())
    add("view:strided-i4", "np-view", np.arange(10, dtype="i4")[1::3])
    sw = np.arange(12, dtype="f8").astype(SWAP + "f8")
    add("view:strided-swapped", "np-nonnative-view", sw[::2])
    add("view:transposed-swapped", "np-nonnative-view-2d", sw.reshape(6, 2).T[:, :3].T)
    # zero-size and 0-d, native and not
    add("zero:(0,)", "np-zerosize", np.zeros(0))
    add("zero:(0,)i4", "np-zerosize", np.zeros(0, dtype="i4"))
    add("zero:(0,2)", "np-zerosize-2d", np.zeros((0, 2)))
    add("zero:(2,0)", "np-zerosize-2d", np.zeros((2, 0)))
    add("zero:(0,)swapped", "np-nonnative-zerosize", np.zeros(0, dtype=SWAP + "f8"))
    add("zero:(0,2)swapped", "np-nonnative-zerosize-2d", np.zeros((0, 2), dtype=SWAP + "i4"))
    add("0d:f8", "np-0d", np.array(2.5))
    add("0d:i4", "np-0d", np.array(3, dtype="i4"))
    add("0d:swapped", "np-nonnative-0d", np.array(2.5, dtype=SWAP + "f8"))
    # ndarray subclasses
    add("sub:MyArr-f8", "np-subclass", np.array([1.0, 2.0]).view(MyArr))
    add("sub:MyArr-i4", "np-subclass", np.array([1, 2], dtype="i4").view(MyArr))
    add("sub:MyArr-swapped", "np-nonnative-subclass", np.array([1.0, 2.0], dtype=SWAP + "f8").view(MyArr))
    add("sub:masked", "np-subclass", np.ma.array([1.0, 2.0, 3.0], mask=[0, 1, 0]))
    add("sub:recarray", "np-subclass", np.rec.array([(1, 2.0)], dtype=[("a", "i4"), ("b", "f8")]))
    # structured dtypes, one with a field in the other byte order
    sn = np.dtype([("a", NATIVE + "i4"), ("b", NATIVE + "f8")])
    ss = np.dtype([("a", SWAP + "i4"), ("b", NATIVE + "f8")])
    add("struct:native", "np-structured", np.array([(1, 2.0), (3, 4.0)], dtype=sn))
    add("struct:swapped-field", "np-nonnative-structured", np.array([(1, 2.0), (3, 4.0)], dtype=sn).astype(ss))
    # sequences
    for nm, v in (("[]", []), ("()", ()), ("[1,2,3]", [1, 2, 3]), ("(1.5,2.5)", (1.5, 2.5)),
                  ("[[1,2],[3,4]]", [[1, 2], [3, 4]]), ("[[1.,2.],[3.,4.],[5.,6.]]", [[1.0, 2.0], [3.0, 4.0], [5.0, 6.0]]),
                  ("((1,2),(3,4))", ((1, 2), (3, 4))), ("[[1,2],[3]]", [[1, 2], [3]]),
                  ("['1.5','2']", ["1.5", "2"]), ("['a','b']", ["a", "b"]), ("[None]", [None]),
                  ("[1,'a']", [1, "a"]), ("[nan,1]", [nan, 1]), ("[2**70]", [2 ** 70]), ("[True,False]", [True, False]),
                  ("[1+2j]", [1 + 2j]), ("[[]]", [[]]), ("[[1],[2]]", [[1], [2]])):
        add("seq:" + nm, "seq", v)
    add("seq:[swapped,swapped]", "seq-of-arrays", [np.array([1.0, 2.0], dtype=SWAP + "f8"),
                                                   np.array([3.0, 4.0], dtype=SWAP + "f8")])
    add("seq:(native,swapped)", "seq-of-arrays", (np.array([1.0, 2.0], dtype="f4"),
                                                  np.array([3.0, 4.0], dtype=SWAP + "f4")))
    add("seq:(swapped,native)", "seq-of-arrays", (np.array([1.0, 2.0], dtype=SWAP + "f4"),
                                                  np.array([3.0, 4.0], dtype="f4")))
    add("seq:[swapped-i4]", "seq-of-arrays", [np.array([1, 2], dtype=SWAP + "i4")])
    add("dict:{'a':swapped}", "dict-of-arrays", {"a": np.array([1.0, 2.0], dtype=SWAP + "f8")})
    # non-arrays that look like arrays
    import array as _array
    add("array.array('d')", "array-module", _array.array("d", [1.0, 2.0]))
    add("memoryview(f8)", "memoryview", memoryview(np.array([1.0, 2.0])))
    add("np.float64(1.5)", "np-float", np.float64(1.5))
    add("None", "none", None)
    add("int:3", "int", 3)
    add("str:'ab'", "str", "ab")
    add("range(3)", "range", range(3))
    return V


def _shape_ok(shape, vshape):
    if shape is None:
        return True
    if len(shape) != len(vshape):
        return False
    for d, s_ in zip(vshape, shape):
        if s_ is None:
            continue
        if isinstance(s_, int):
            if d != s_:
                return False
        elif d < s_[0] or (s_[1] is not None and d > s_[1]):
            return False
    return True


def _content_equal(s, conv):
    if s.dtype != conv.dtype or s.shape != conv.shape:
        return False
    if s.dtype.hasobject:
        return all(x is y or same(x, y) for x, y in zip(s.ravel().tolist(), conv.ravel().tolist()))
    return np.ascontiguousarray(s).tobytes() == np.ascontiguousarray(conv).tobytes()


def ref_array_full(dtype, shape, casting="unsafe", allow_none=False):
    """Domain of Array/CArray/ArrayOrNone(dtype, shape, casting=...), from the class docstrings:
    ndarrays pass the casting rule or are rejected, lists/tuples are cast "just like numpy's array
    does", every readable value is an ndarray OF the declared dtype obeying the shape rule."""
    dtype = None if dtype is None else np.dtype(dtype)

    def f(v):
        if v is None:
            return ACC(None) if allow_none else REJ
        if not isinstance(v, np.ndarray):
            if not isinstance(v, (list, tuple)):
                return REJ
            try:
                a = np.asarray(v, dtype) if dtype is not None else np.asarray(v)
            except Exception:
                return REJ
        else:
            a = v
        exact = True
        if dtype is not None and a.dtype != dtype:
            if not np.can_cast(a.dtype, dtype, casting):
                return REJ
            try:
                conv = a.astype(dtype)
            except Exception:
                return REJ
            # a value-changing cast (float -> int of nan, str -> float ...) is judged on dtype and
            # shape only; a value-preserving one on the content too
            exact = bool(np.can_cast(a.dtype, dtype, "same_kind"))
        else:
            conv = a
        if not _shape_ok(shape, conv.shape):
            return REJ
        want = dtype if dtype is not None else a.dtype

        def matcher(s):
            if not isinstance(s, np.ndarray):
                return False
            if s.dtype != want or s.dtype.isnative != want.isnative:
                return False
            if s.shape != conv.shape or not _shape_ok(shape, s.shape):
                return False
            return _content_equal(s, conv) if exact else True
        return R([], False, (), matcher)
    return f


ARR_DTYPES = (None, "f8", "f4", "i4", "i8", "i2", "c16", "bool", "U3", "object", "M8[s]",
              SWAP + "f8", SWAP + "i4", "struct")
ARR_CASTINGS = ("unsafe", "no", "equiv", "safe", "same_kind")
ARR_SHAPES = (None, (None,), (None, 2), ((1, 3),), (2, (1, None)), (0,), (), ((0, None), (0, 2)))
ARR_FACTORIES = (("Array", Array, False), ("CArray", CArray, False), ("ArrayOrNone", ArrayOrNone, True))


def _dtype_obj(code):
    if code is None:
        return None
    if code == "struct":
        return np.dtype([("a", NATIVE + "i4"), ("b", NATIVE + "f8")])
    return np.dtype(code)


def _arr_kind(fname, dcode, casting):
    if dcode is None:
        d = "nodtype"
    elif dcode.startswith(SWAP):
        d = "nonnative-dtype"
    else:
        d = "dtype"
    return "%s[%s,%s]" % (fname, d, casting)


def array_specs(rng, n_direct, n_nested):
    """-> list of (name, kind, thunk, ref).  A covering part (every dtype with every casting rule,
    every shape rule, every factory at least once) followed by random grid points and nestings."""
    out = []

    def direct(fname, fac, an, dcode, casting, shape):
        dt = _dtype_obj(dcode)
        nm = "%s(%s,%r,%s)" % (fname, dcode, shape, casting)
        kw = {"shape": shape}
        if casting != "unsafe":
            kw["casting"] = casting
        return (nm, _arr_kind(fname, dcode, casting),
                lambda fac=fac, dt=dt, kw=kw: fac(dtype=dt, **kw),
                ref_array_full(dt, shape, casting, an))
    k = 0
    for dcode in ARR_DTYPES:
        for casting in ARR_CASTINGS:
            fname, fac, an = ARR_FACTORIES[k % 3]
            shape = ARR_SHAPES[k % len(ARR_SHAPES)] if k % 2 else None
            k += 1
            out.append(direct(fname, fac, an, dcode, casting, shape))
    grid = [(f, d, c, s) for f in ARR_FACTORIES for d in ARR_DTYPES for c in ARR_CASTINGS for s in ARR_SHAPES]
    if n_direct >= len(grid):
        picks = grid
    else:
        picks = rng.sample(grid, n_direct)
    for (fname, fac, an), dcode, casting, shape in picks:
        out.append(direct(fname, fac, an, dcode, casting, shape))
    simple = [d for d in ARR_DTYPES if d not in ("struct",)]
    for i in range(n_nested):
        c = i % 6
        ms = []
        for _ in range(2):
            fname, fac, an = rng.choice(ARR_FACTORIES[:2])
            ms.append(direct(fname, fac, an, rng.choice(simple), rng.choice(ARR_CASTINGS),
                             rng.choice((None, None, (None,)))))
        a, b = ms
        if c == 0:
            out.append(("Tuple(%s,%s)" % (a[0], b[0]), "nest:Tuple:" + a[1],
                        lambda a=a, b=b: Tuple(a[2](), b[2]()), rf.ref_tuple(a[3], b[3])))
        elif c == 1:
            out.append(("List(%s)" % a[0], "nest:List:" + a[1],
                        lambda a=a: List(a[2]()), rf.ref_list(a[3])))
        elif c == 2:
            out.append(("Union(None,%s)" % a[0], "nest:Union:" + a[1],
                        lambda a=a: Union(None, a[2]()), rf.ref_union(rf.ref_none, a[3])))
        elif c == 3:
            out.append(("Either(%s,Int)" % a[0], "nest:Either:" + a[1],
                        lambda a=a: Either(a[2](), Int), rf.ref_union(a[3], rf.ref_int)))
        elif c == 4:
            out.append(("Dict(Str,%s)" % a[0], "nest:Dict:" + a[1],
                        lambda a=a: Dict(Str, a[2]()), rf.ref_dict(rf.ref_isinstance(str), a[3])))
        else:
            out.append(("Tuple(Int,%s)" % a[0], "nest:Tuple:" + a[1],
                        lambda a=a: Tuple(Int, a[2]()), rf.ref_tuple(rf.ref_int, a[3])))
    return out


def nested_array_values():
    """Composite values around arrays for the nested specs (built from the array family)."""
    V = []
    arrs = [(i, c, v) for (i, c, v) in array_values() if isinstance(v, np.ndarray)]
    for i, c, v in arrs:
        if c.startswith("np-nonnative") or c in ("np-native", "np-view", "np-zerosize", "np-subclass"):
            V.append(("tuple:(%s,%s)" % (i, i), "tuple-of-arrays:" + c, (v, v.copy())))
            V.append(("tuple:(1,%s)" % i, "tuple-int-array:" + c, (1, v)))
            V.append(("list:[%s]" % i, "list-of-arrays:" + c, [v]))
            V.append(("dict:{'k':%s}" % i, "dict-of-arrays:" + c, {"k": v}))
    return V


def run_arrays(ctx, judge, base_index):
    """judge = c01.judge.  Returns the next free sharding index."""
    rng = ctx.rng("arrays")
    specs = array_specs(rng, ctx.scale(8, 800), ctx.scale(10, 300))
    idx = base_index
    with warnings.catch_warnings(), np.errstate(all="ignore"):
        warnings.simplefilter("ignore")
        for si, (name, kind, thunk, ref) in enumerate(specs):
            idx += 1
            if not ctx.mine(idx):
                continue
            if not ctx.begin("arrays:%d:%s" % (si, name[:90])):
                continue
            try:
                try:
                    made = thunk()
                    K = MetaHasTraits("A%d" % si, (HasTraits,), {"x": made, "other": Int(3)})
                except Exception:
                    ctx.count("spec_construction_failed")
                    continue
                ctx.count("array_specs")
                vals = array_values()
                if kind.startswith("nest:"):
                    vals = vals + nested_array_values()
                if ctx.quick:
                    vals = ctx.rng("arrvals", si).sample(vals, 48)
                nbad = 0
                for vid, vclass, v in vals:
                    try:
                        r = ref(v)
                    except Exception:
                        ctx.count("reference_crashes")
                        continue
                    ctx.count("array_judgements")
                    c = judge(ctx, name, kind, K, ref, vid, vclass, v)
                    if c:
                        nbad += 1
                        if nbad >= 6:
                            break
                        continue
                    nonnat = "nonnative" in vclass or "of-arrays" in vclass
                    if r.acceptable():
                        ctx.count("array_accepted")
                        if nonnat:
                            ctx.count("array_nonnative_accepted")
                        if "view" in vclass or "readonly" in vclass:
                            ctx.count("array_view_accepted")
                        if "zerosize" in vclass or "0d" in vclass:
                            ctx.count("array_degenerate_accepted")
                    else:
                        ctx.count("array_rejected")
                        if nonnat:
                            ctx.count("array_nonnative_rejected")
                if si % 29 == 0:
                    ctx.sample({"stratum": "arrays", "spec": name, "values": len(vals), "routes": 3})
            finally:
                ctx.end()
    return idx


# =============================================================================================
# stratum "deferred"
# =============================================================================================
DEFER_KINDS = ("DelegatesTo", "PrototypedFrom", "Delegate", "Delegate(modify)")
NAMINGS = ("same", "renamed", "prefix*")
GOVERNINGS = ("class", "instance-shadow", "instance-only", "subclass-override", "listener-clone",
              "swapped", "shadow-removed", "chain", "chain-shadow", "chain-mixed-shadow")


def _defer(kind, delegate_name, prefix):
    kw = {"prefix": prefix} if prefix else {}
    if kind == "DelegatesTo":
        return DelegatesTo(delegate_name, **kw)
    if kind == "PrototypedFrom":
        return PrototypedFrom(delegate_name, **kw)
    if kind == "Delegate":
        return Delegate(delegate_name, **kw)
    return Delegate(delegate_name, modify=True, **kw)


def _modifies(kind):
    return kind in ("DelegatesTo", "Delegate(modify)")


def _opposite(kind):
    return {"DelegatesTo": "PrototypedFrom", "PrototypedFrom": "DelegatesTo",
            "Delegate": "Delegate(modify)", "Delegate(modify)": "Delegate"}[kind]


def defer_pairs():
    """Ordered pairs of specs with different domains: (name, kind, thunk, ref) x 2."""
    P = [
        (("Range(0,100)", "Range.int", lambda: Range(0, 100), rf.ref_range_int(0, 100)),
         ("Range(0,10)", "Range.int", lambda: Range(0, 10), rf.ref_range_int(0, 10))),
        (("Float", "Float", lambda: Float(), rf.ref_float),
         ("Range(0.0,1.0)", "Range.float", lambda: Range(0.0, 1.0), rf.ref_range_float(0.0, 1.0, False, False))),
        (("Int", "Int", lambda: Int(), rf.ref_int),
         ("Str", "Str", lambda: Str(), rf.ref_isinstance(str))),
        (("Str", "Str", lambda: Str(), rf.ref_isinstance(str)),
         ("String(1,3)", "String", lambda: String("a", minlen=1, maxlen=3), rf.ref_string(1, 3, ""))),
        (("Enum(1,2,3)", "Enum", lambda: Enum(1, 2, 3), rf.ref_enum((1, 2, 3))),
         ("Enum(3,4,'a')", "Enum", lambda: Enum(3, 4, "a"), rf.ref_enum((3, 4, "a")))),
        (("Instance(Plain)", "Instance", lambda: Instance(Plain), rf.ref_instance(Plain, True)),
         ("Instance(PlainSub)", "Instance", lambda: Instance(PlainSub), rf.ref_instance(PlainSub, True))),
        (("Instance(Plain)", "Instance", lambda: Instance(Plain), rf.ref_instance(Plain, True)),
         ("Instance(Plain,nn)", "Instance", lambda: Instance(Plain, args=(), allow_none=False),
          rf.ref_instance(Plain, False))),
        (("Any", "Any", lambda: Any(), ref_any_identity),
         ("Int", "Int", lambda: Int(), rf.ref_int)),
        (("CInt", "CInt", lambda: CInt(), rf.ref_cast(int, (ValueError, TypeError))),
         ("Int", "Int", lambda: Int(), rf.ref_int)),
        (("Tuple(Int,Int)", "Tuple", lambda: Tuple(Int, Int), rf.ref_tuple(rf.ref_int, rf.ref_int)),
         ("Tuple(Int,Str)", "Tuple", lambda: Tuple(Int, Str), rf.ref_tuple(rf.ref_int, rf.ref_isinstance(str)))),
        (("Bool", "Bool", lambda: Bool(), rf.ref_bool),
         ("Int", "Int", lambda: Int(), rf.ref_int)),
        (("Float", "Float", lambda: Float(), rf.ref_float),
         ("Int", "Int", lambda: Int(), rf.ref_int)),
        (("Array(f8)", "Array", lambda: Array(dtype="f8"), ref_array_full("f8", None)),
         ("Array(i4,safe)", "Array", lambda: Array(dtype="i4", casting="safe"), ref_array_full("i4", None, "safe"))),
        (("Union(Int,Str)", "Union", lambda: Union(Int, Str), rf.ref_union(rf.ref_int, rf.ref_isinstance(str))),
         ("Union(None,Float)", "Union", lambda: Union(None, Float), rf.ref_union(rf.ref_none, rf.ref_float))),
    ]
    out = []
    for a, b in P:
        out.append((a, b))
        out.append((b, a))
    return out


def ref_any_identity(v):
    """Any: every value is in the domain and is stored as it is."""
    return R([], False, (), lambda s: s is v)


def _noop_handler():
    pass


class Rig:
    """One (defer kind, naming, governing, class spec A, other spec B) arrangement."""

    def __init__(self, serial, dk, naming, gov, A, B):
        self.dk, self.naming, self.gov = dk, naming, gov
        self.A, self.B = A, B
        self.xname = "x"
        self.tname, prefix = {"same": ("x", ""), "renamed": ("t", "t"), "prefix*": ("px", "p*")}[naming]
        tname = self.tname
        body = {"other": Int(3)}
        if gov != "instance-only":
            body[tname] = A[2]()
        self.D = MetaHasTraits("D%d" % serial, (HasTraits,), body)
        if gov == "subclass-override":
            self.D2 = MetaHasTraits("DS%d" % serial, (self.D,), {tname: B[2]()})
        self.chain = gov.startswith("chain")
        self.K = MetaHasTraits("K%d" % serial, (HasTraits,), {
            "d": Instance(HasTraits), "x": _defer(dk if not gov == "chain-mixed-shadow" else _opposite(dk), "d", prefix),
            "other": Int(3)})
        if self.chain:
            self.M = MetaHasTraits("M%d" % serial, (HasTraits,), {
                "m": Instance(HasTraits), "x": _defer(dk, "m", ""), "other": Int(3)})
        self.governing = B if gov in ("instance-shadow", "instance-only", "subclass-override", "swapped",
                                      "chain-shadow", "chain-mixed-shadow") else A
        self.modifies = _modifies(dk)
        self.names = ("'x'", "'%s'" % tname)

    def _delegate(self):
        gov = self.gov
        if gov == "subclass-override":
            return self.D2()
        d = self.D()
        if gov in ("instance-shadow", "instance-only", "swapped", "chain-shadow", "chain-mixed-shadow"):
            d.add_trait(self.tname, self.B[2]())
        elif gov == "listener-clone":
            d.on_trait_change(_noop_handler, self.tname)
        elif gov == "shadow-removed":
            d.add_trait(self.tname, self.B[2]())
            d.remove_trait(self.tname)
        return d

    def fresh(self):
        """-> (assigned object, [watched (object, attribute) pairs], final delegate)."""
        d = self._delegate()
        if self.gov == "swapped":
            k = self.K(d=self.D())
            try:
                k.x
            except Exception:
                pass
            k.d = d
        else:
            k = self.K(d=d)
        if self.chain:
            o = self.M(m=k)
            watch = [(o, "x"), (o, "other"), (k, "x"), (k, "other"), (d, self.tname), (d, "other")]
        else:
            o = k
            watch = [(o, "x"), (o, "other"), (d, self.tname), (d, "other")]
        return o, watch, d

    def ctor(self, v):
        d = self._delegate()
        if self.chain:
            k = self.K(d=d)
            watch = [(k, "x"), (k, "other"), (d, self.tname), (d, "other")]
            snap = _snapshot(watch)
            return (lambda: self.M(m=k, x=v)), watch, snap, d
        watch = [(d, self.tname), (d, "other")]
        snap = _snapshot(watch)
        return (lambda: self.K(d=d, x=v)), watch, snap, d


def _snapshot(watch):
    out = []
    for o, a in watch:
        try:
            out.append(getattr(o, a))
        except Exception:
            out.append(Raised)
    return out, [set(o.__dict__) for o, _ in watch]


def _unchanged(watch, snap):
    vals, keys = snap
    for (o, a), b, ks in zip(watch, vals, keys):
        if b is Raised:
            continue
        try:
            now = getattr(o, a)
        except Exception:
            return "unreadable-after-failure"
        if now is not b and not same(now, b):
            return "attribute-changed-on-failure" if a != "other" else "other-attribute-changed-on-failure"
        if set(o.__dict__) != ks:
            return "dict-keys-changed-on-failure"
    return None


def judge_deferred(ctx, rig, name, kind, ref, vid, vclass, v):
    try:
        r = ref(v)
    except Exception:
        ctx.count("reference_crashes")
        return None
    for route in ("setattr", "trait_set", "ctor"):
        ctx.ev()
        ctx.count("deferred_evaluations")
        holder = []
        if route == "ctor":
            build, watch, snap, d = rig.ctor(v)

            def go():
                holder.append(build())
            out = attempt(go)
            o = holder[0] if holder else None
        else:
            o, watch, d = rig.fresh()
            snap = _snapshot(watch)
            if route == "setattr":
                out = attempt(lambda: setattr(o, "x", v))
            else:
                out = attempt(lambda: o.trait_set(x=v))
        outcome = out[0]
        complaint = None
        stored = None
        if outcome == "ok":
            try:
                stored = o.x
            except Exception:
                stored = Raised
                complaint = "unreadable-after-accept"
            if complaint is None:
                if not r.acceptable():
                    complaint = "accepted-outside-domain"
                elif not r.matches(stored):
                    complaint = "stored-not-documented-conversion"
                else:
                    # whatever is now readable from the delegated-to attribute is in ITS domain too
                    i = [j for j, (wo, wa) in enumerate(watch) if wo is d and wa == rig.tname][0]
                    before = snap[0][i]
                    try:
                        dt = getattr(d, rig.tname)
                    except Exception:
                        dt = Raised
                    if rig.modifies:
                        if dt is Raised or not r.matches(dt):
                            complaint = "delegate-attribute-not-the-stored-value"
                    elif not (dt is before or same(dt, before) or r.matches(dt)):
                        complaint = "delegate-attribute-outside-domain"
                    if complaint is None:
                        ctx.count("deferred_accepted")
        elif outcome == "TE":
            if r.acceptable() and not r.rej:
                complaint = "rejected-inside-domain"
            else:
                ctx.count("deferred_rejected")
                msg = str(out[1])
                if not any(n in msg for n in rig.names):
                    complaint = "traiterror-does-not-name-attribute"
        else:
            et = type(out[1])
            if et in r.passes or (et is OverflowError and r.passes) or (
                    r.passes and any(issubclass(et, p) for p in r.passes)):
                ctx.count("passthrough_seen")
            else:
                complaint = "foreign-exception:" + et.__name__
        if complaint is None and outcome != "ok":
            ctx.count("no_effect_checked")
            complaint = _unchanged(watch, snap)
        ctx.sig(kind, vclass, outcome if outcome != "EXC" else "EXC:" + type(out[1]).__name__)
        if complaint:
            key = "%s/%s/%s" % (complaint, kind, vclass)
            ctx.violation(key, "%s: %s <- %s (%s) via %s: outcome %s %s; reference (the trait governing the "
                          "delegated-to attribute on that delegate: %s) allows %r"
                          % (complaint, name, vid, short(v, 60), route, outcome,
                             short(stored, 80) if outcome == "ok" else short(out[1], 160),
                             rig.governing[0], r),
                          {"spec": name, "value_id": vid, "route": route, "outcome": outcome,
                           "reference": repr(r), "defer": rig.dk, "naming": rig.naming,
                           "governing": rig.gov, "class_trait": rig.A[0], "other_trait": rig.B[0]})
            return complaint
    return None


def _discriminating(vals, refA, refB):
    """Split lattice values into those on which the two domains disagree and the rest."""
    dis, rest = [], []
    for item in vals:
        v = item[2]
        try:
            ra, rb = refA(v), refB(v)
        except Exception:
            rest.append(item)
            continue
        differ = ra.acceptable() != rb.acceptable()
        if not differ and ra.accepts and rb.accepts:
            differ = not same(ra.accepts[0], rb.accepts[0])
        (dis if differ else rest).append(item)
    return dis, rest


def run_deferred(ctx, base_index):
    pairs = defer_pairs()
    cells = [(dk, nm, gov) for gov in GOVERNINGS for dk in DEFER_KINDS for nm in NAMINGS]
    # pairs per cell: 1 quick, 12 thorough (a fraction when replayed at a reduced budget)
    per_cell = 1 if ctx.quick else max(1, int(12 * min(1.0, getattr(ctx, "factor", 1.0))))
    idx = base_index
    serial = 0
    for ci, (dk, naming, gov) in enumerate(cells):
        rng = ctx.rng("deferred", ci)
        chosen = pairs if per_cell >= len(pairs) else rng.sample(pairs, per_cell)
        for (A, B) in chosen:
            idx += 1
            serial += 1
            if not ctx.mine(idx):
                continue
            name = "%s[%s]->%s:%s/%s" % (dk, naming, gov, A[0], B[0])
            if not ctx.begin("deferred:%d:%s" % (serial, name)):
                continue
            try:
                try:
                    rig = Rig(serial, dk, naming, gov, A, B)
                    rig.fresh()
                except Exception:
                    ctx.count("spec_construction_failed")
                    continue
                ctx.count("deferred_specs")
                G = rig.governing
                kind = "defer:%s:%s:%s" % (dk, gov, G[1])
                vals = lattice()
                if G[1] == "Array" or A[1] == "Array":
                    vals = vals + array_values()
                dis, rest = _discriminating(vals, A[3], B[3])
                if ctx.quick:
                    if len(dis) > 24:
                        dis = rng.sample(dis, 24)
                    rest = rng.sample(rest, min(len(rest), 12))
                disids = set(id(it) for it in dis)
                nbad = 0
                with warnings.catch_warnings(), np.errstate(all="ignore"):
                    warnings.simplefilter("ignore")
                    for item in dis + rest:
                        vid, vclass, v = item
                        ctx.count("deferred_judgements")
                        if id(item) in disids:
                            ctx.count("deferred_discriminating")
                            if G is B:
                                ctx.count("deferred_discriminating_nonclass")
                        if judge_deferred(ctx, rig, name, kind, G[3], vid, vclass, v):
                            nbad += 1
                            if nbad >= 6:
                                break
                if serial % 41 == 0:
                    ctx.sample({"stratum": "deferred", "spec": name, "values": len(dis) + len(rest), "routes": 3})
            finally:
                ctx.end()
    return idx
