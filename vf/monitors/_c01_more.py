"""C01 private helper: three further strata of the domain check.

* stratum ``arrays``: the ndarray *value family* the shared lattice does not reach (arrays in the
  non-native byte order obtained three ways, declared non-native dtypes, strided / transposed /
  broadcast / read-only views, zero-size and 0-d arrays, ndarray subclasses, structured / string /
  datetime dtypes, ragged and nested sequences) against the Array / CArray / ArrayOrNone option grid
  (dtype x casting rule x shape rule, direct and as a member of Tuple / List / Union / Either / Dict).
  The reference is a *domain predicate on what is readable*: an ndarray whose dtype IS the declared
  dtype (byte order included), whose shape obeys the shape rule and whose content is the documented
  ``astype`` conversion.

* stratum ``deferred``: assignment THROUGH a deferring trait (DelegatesTo, PrototypedFrom, Delegate
  with and without modify; same name / renamed / prefix* naming; one hop and two hops).  The domain
  is the one of the trait that governs the delegated-to attribute *on that delegate object*: the
  class trait, an instance trait (add_trait) shadowing it, an instance-only trait, a subclass
  override, a listener-made clone, a delegate swapped in after the first read, a shadow added and
  removed again.

* stratum ``deepconv`` (end of the file): converting members two or more trait levels deep (Tuple in
  Tuple / Union / Either / List / Dict / Set, ValidatedTuple) against values built from the
  declaration that need an equal-valued conversion exactly at the inner level; the readback is
  compared exact-type-first at every depth.

Nothing here reads the library's source or keys on library-internal names.
"""
import sys
import warnings

import numpy as np

from traits.api import (
    HasTraits, TraitError, MetaHasTraits, Int, Float, Str, Bool, CInt, Range, Enum, Tuple, Union,
    Either, String, Instance, List, Dict, Array, ArrayOrNone, CArray, Any, DelegatesTo,
    PrototypedFrom, Delegate,
)

from vf.lattice import lattice, Plain, PlainSub
from vf import reference as rf
from vf.reference import R, REJ, ACC
from vf.util import same, short


class Raised:
    pass


def attempt(fn):
    try:
        fn()
        return ("ok", None)
    except TraitError as e:
        return ("TE", e)
    except Exception as e:
        return ("EXC", e)


# =============================================================================================
# stratum "arrays"
# =============================================================================================
SWAP = ">" if sys.byteorder == "little" else "<"
NATIVE = "<" if sys.byteorder == "little" else ">"


class MyArr(np.ndarray):
    pass


def array_values():
    """(id, class, value) -- rebuilt on every call."""
    V = []

    def add(i, c, v):
        V.append((i, c, v))
    nan = float("nan")
    base = [
        ("f8", np.array([1.5, -2.25, 1e300])),
        ("f4", np.array([0.5, 2.0], dtype="f4")),
        ("f2", np.array([0.5, 2.0], dtype="f2")),
        ("i8", np.array([2 ** 40, -1, 3], dtype="i8")),
        ("i4", np.arange(5, dtype="i4")),
        ("i2", np.array([7, 8], dtype="i2")),
        ("u2", np.array([1, 65535], dtype="u2")),
        ("u8", np.array([2 ** 63, 1], dtype="u8")),
        ("c16", np.array([1 + 2j, 0.5])),
        ("c8", np.array([1j], dtype="c8")),
        ("U3", np.array(["abc", "d"])),
        ("U1num", np.array(["1", "2"])),
        ("M8[s]", np.array(["2020-01-01T00:00:01"], dtype="M8[s]")),
        ("m8[s]", np.array([5, 7], dtype="m8[s]")),
        ("f8nan", np.array([0.5, nan, float("inf")])),
        ("f8x2", np.array([[1.0, 2.0], [3.0, 4.0], [5.0, 6.0]])),
        ("f8x3", np.array([[1.0, 2.0, 3.0], [4.0, 5.0, 6.0]])),
        ("i4x2", np.array([[1, 2], [3, 4]], dtype="i4")),
        ("f4x1", np.array([[1.0], [2.0]], dtype="f4")),
    ]
    for code, a in base:
        nd = "-%dd" % a.ndim if a.ndim != 1 else ""
        add("native:" + code, "np-native" + nd, a)
        dt = a.dtype.newbyteorder(SWAP)
        if dt == a.dtype:
            continue
        # the same numbers in the other byte order, obtained the three usual ways
        add("swapped-astype:" + code, "np-nonnative" + nd, a.astype(dt))
        add("swapped-view:" + code, "np-nonnative" + nd, a.byteswap().view(dt))
        add("swapped-frombuffer:" + code, "np-nonnative-readonly" + nd,
            np.frombuffer(a.astype(dt).tobytes(), dtype=dt).reshape(a.shape))
    # explicitly spelled native order is the declared dtype itself
    add("native-spelled:=f8", "np-native", np.array([1.0, 2.0], dtype="=f8"))
    add("native-spelled:%sf8" % NATIVE, "np-native", np.array([1.0, 2.0], dtype=NATIVE + "f8"))
    add("native-spelled:%si4" % NATIVE, "np-native", np.array([1, 2], dtype=NATIVE + "i4"))
    # single-byte and order-free dtypes
    add("i1", "np-native", np.array([1, -2, 3], dtype="i1"))
    add("u1", "np-native", np.array([1, 255], dtype="u1"))
    add("bool", "np-bool-array", np.array([True, False]))
    add("S2", "np-bytes-array", np.array([b"ab", b"c"]))
    add("object-nums", "np-object-array", np.array([1, 2.5], dtype=object))
    add("object-mixed", "np-object-array", np.array([1, "a", None], dtype=object))
    add("longdouble", "np-native", np.array([1.5, 2.5], dtype=np.longdouble))
    # views: strided, reversed, transposed, Fortran order, broadcast (zero strides, read-only),
    # explicit read-only, diagonal, a slice of a swapped array
    big = np.arange(12, dtype="f8")
    add("view:strided", "np-view", big[::2])
    add("view:reversed", "np-view", big[::-1][:4])
    add("view:offset", "np-view", big[3:6])
    m = np.arange(6, dtype="f8").reshape(3, 2)
    add("view:transposed", "np-view-2d", m.T)
    add("view:fortran", "np-view-2d", np.asfortranarray(m))
    add("view:column", "np-view", m[:, 1])
    add("view:broadcast", "np-view-2d", np.broadcast_to(np.array([1.0, 2.0]), (3, 2)))
    ro = np.array([1.0, 2.0, 3.0])
    ro.flags.writeable = False
    add("view:readonly", "np-readonly", ro)
    add("view:diagonal", "np-readonly", np.eye(3).diagonal())
    add("view:strided-i4", "np-view", np.arange(10, dtype="i4")[1::3])
    sw = np.arange(12, dtype="f8").astype(SWAP + "f8")
    add("view:strided-swapped", "np-nonnative-view", sw[::2])
    add("view:transposed-swapped", "np-nonnative-view-2d", sw.reshape(6, 2).T[:, :3].T)
    # zero-size and 0-d, native and not
    add("zero:(0,)", "np-zerosize", np.zeros(0))
    add("zero:(0,)i4", "np-zerosize", np.zeros(0, dtype="i4"))
    add("zero:(0,2)", "np-zerosize-2d", np.zeros((0, 2)))
    add("zero:(2,0)", "np-zerosize-2d", np.zeros((2, 0)))
    add("zero:(0,)swapped", "np-nonnative-zerosize", np.zeros(0, dtype=SWAP + "f8"))
    add("zero:(0,2)swapped", "np-nonnative-zerosize-2d", np.zeros((0, 2), dtype=SWAP + "i4"))
    add("0d:f8", "np-0d", np.array(2.5))
    add("0d:i4", "np-0d", np.array(3, dtype="i4"))
    add("0d:swapped", "np-nonnative-0d", np.array(2.5, dtype=SWAP + "f8"))
    # ndarray subclasses
    add("sub:MyArr-f8", "np-subclass", np.array([1.0, 2.0]).view(MyArr))
    add("sub:MyArr-i4", "np-subclass", np.array([1, 2], dtype="i4").view(MyArr))
    add("sub:MyArr-swapped", "np-nonnative-subclass", np.array([1.0, 2.0], dtype=SWAP + "f8").view(MyArr))
    add("sub:masked", "np-subclass", np.ma.array([1.0, 2.0, 3.0], mask=[0, 1, 0]))
    add("sub:recarray", "np-subclass", np.rec.array([(1, 2.0)], dtype=[("a", "i4"), ("b", "f8")]))
    # structured dtypes, one with a field in the other byte order
    sn = np.dtype([("a", NATIVE + "i4"), ("b", NATIVE + "f8")])
    ss = np.dtype([("a", SWAP + "i4"), ("b", NATIVE + "f8")])
    add("struct:native", "np-structured", np.array([(1, 2.0), (3, 4.0)], dtype=sn))
    add("struct:swapped-field", "np-nonnative-structured", np.array([(1, 2.0), (3, 4.0)], dtype=sn).astype(ss))
    # sequences
    for nm, v in (("[]", []), ("()", ()), ("[1,2,3]", [1, 2, 3]), ("(1.5,2.5)", (1.5, 2.5)),
                  ("[[1,2],[3,4]]", [[1, 2], [3, 4]]), ("[[1.,2.],[3.,4.],[5.,6.]]", [[1.0, 2.0], [3.0, 4.0], [5.0, 6.0]]),
                  ("((1,2),(3,4))", ((1, 2), (3, 4))), ("[[1,2],[3]]", [[1, 2], [3]]),
                  ("['1.5','2']", ["1.5", "2"]), ("['a','b']", ["a", "b"]), ("[None]", [None]),
                  ("[1,'a']", [1, "a"]), ("[nan,1]", [nan, 1]), ("[2**70]", [2 ** 70]), ("[True,False]", [True, False]),
                  ("[1+2j]", [1 + 2j]), ("[[]]", [[]]), ("[[1],[2]]", [[1], [2]])):
        add("seq:" + nm, "seq", v)
    add("seq:[swapped,swapped]", "seq-of-arrays", [np.array([1.0, 2.0], dtype=SWAP + "f8"),
                                                   np.array([3.0, 4.0], dtype=SWAP + "f8")])
    add("seq:(native,swapped)", "seq-of-arrays", (np.array([1.0, 2.0], dtype="f4"),
                                                  np.array([3.0, 4.0], dtype=SWAP + "f4")))
    add("seq:(swapped,native)", "seq-of-arrays", (np.array([1.0, 2.0], dtype=SWAP + "f4"),
                                                  np.array([3.0, 4.0], dtype="f4")))
    add("seq:[swapped-i4]", "seq-of-arrays", [np.array([1, 2], dtype=SWAP + "i4")])
    add("dict:{'a':swapped}", "dict-of-arrays", {"a": np.array([1.0, 2.0], dtype=SWAP + "f8")})
    # non-arrays that look like arrays
    import array as _array
    add("array.array('d')", "array-module", _array.array("d", [1.0, 2.0]))
    add("memoryview(f8)", "memoryview", memoryview(np.array([1.0, 2.0])))
    add("np.float64(1.5)", "np-float", np.float64(1.5))
    add("None", "none", None)
    add("int:3", "int", 3)
    add("str:'ab'", "str", "ab")
    add("range(3)", "range", range(3))
    return V


def _shape_ok(shape, vshape):
    if shape is None:
        return True
    if len(shape) != len(vshape):
        return False
    for d, s_ in zip(vshape, shape):
        if s_ is None:
            continue
        if isinstance(s_, int):
            if d != s_:
                return False
        elif d < s_[0] or (s_[1] is not None and d > s_[1]):
            return False
    return True


def _content_equal(s, conv):
    if s.dtype != conv.dtype or s.shape != conv.shape:
        return False
    if s.dtype.hasobject:
        return all(x is y or same(x, y) for x, y in zip(s.ravel().tolist(), conv.ravel().tolist()))
    return np.ascontiguousarray(s).tobytes() == np.ascontiguousarray(conv).tobytes()


def ref_array_full(dtype, shape, casting="unsafe", allow_none=False):
    """Domain of Array/CArray/ArrayOrNone(dtype, shape, casting=...), from the class docstrings:
    ndarrays pass the casting rule or are rejected, lists/tuples are cast "just like numpy's array
    does", every readable value is an ndarray OF the declared dtype obeying the shape rule."""
    dtype = None if dtype is None else np.dtype(dtype)

    def f(v):
        if v is None:
            return ACC(None) if allow_none else REJ
        if not isinstance(v, np.ndarray):
            if not isinstance(v, (list, tuple)):
                return REJ
            try:
                a = np.asarray(v, dtype) if dtype is not None else np.asarray(v)
            except Exception:
                return REJ
        else:
            a = v
        exact = True
        if dtype is not None and a.dtype != dtype:
            if not np.can_cast(a.dtype, dtype, casting):
                return REJ
            try:
                conv = a.astype(dtype)
            except Exception:
                return REJ
            # a value-changing cast (float -> int of nan, str -> float ...) is judged on dtype and
            # shape only; a value-preserving one on the content too
            exact = bool(np.can_cast(a.dtype, dtype, "same_kind"))
        else:
            conv = a
        if not _shape_ok(shape, conv.shape):
            return REJ
        want = dtype if dtype is not None else a.dtype

        def matcher(s):
            if not isinstance(s, np.ndarray):
                return False
            if s.dtype != want or s.dtype.isnative != want.isnative:
                return False
            if s.shape != conv.shape or not _shape_ok(shape, s.shape):
                return False
            return _content_equal(s, conv) if exact else True
        return R([], False, (), matcher)
    return f


ARR_DTYPES = (None, "f8", "f4", "i4", "i8", "i2", "c16", "bool", "U3", "object", "M8[s]",
              SWAP + "f8", SWAP + "i4", "struct")
ARR_CASTINGS = ("unsafe", "no", "equiv", "safe", "same_kind")
ARR_SHAPES = (None, (None,), (None, 2), ((1, 3),), (2, (1, None)), (0,), (), ((0, None), (0, 2)))
ARR_FACTORIES = (("Array", Array, False), ("CArray", CArray, False), ("ArrayOrNone", ArrayOrNone, True))


def _dtype_obj(code):
    if code is None:
        return None
    if code == "struct":
        return np.dtype([("a", NATIVE + "i4"), ("b", NATIVE + "f8")])
    return np.dtype(code)


def _arr_kind(fname, dcode, casting):
    if dcode is None:
        d = "nodtype"
    elif dcode.startswith(SWAP):
        d = "nonnative-dtype"
    else:
        d = "dtype"
    return "%s[%s,%s]" % (fname, d, casting)


def array_specs(rng, n_direct, n_nested):
    """-> list of (name, kind, thunk, ref).  A covering part (every dtype with every casting rule,
    every shape rule, every factory at least once) followed by random grid points and nestings."""
    out = []

    def direct(fname, fac, an, dcode, casting, shape):
        dt = _dtype_obj(dcode)
        nm = "%s(%s,%r,%s)" % (fname, dcode, shape, casting)
        kw = {"shape": shape}
        if casting != "unsafe":
            kw["casting"] = casting
        return (nm, _arr_kind(fname, dcode, casting),
                lambda fac=fac, dt=dt, kw=kw: fac(dtype=dt, **kw),
                ref_array_full(dt, shape, casting, an))
    k = 0
    for dcode in ARR_DTYPES:
        for casting in ARR_CASTINGS:
            fname, fac, an = ARR_FACTORIES[k % 3]
            shape = ARR_SHAPES[k % len(ARR_SHAPES)] if k % 2 else None
            k += 1
            out.append(direct(fname, fac, an, dcode, casting, shape))
    grid = [(f, d, c, s) for f in ARR_FACTORIES for d in ARR_DTYPES for c in ARR_CASTINGS for s in ARR_SHAPES]
    if n_direct >= len(grid):
        picks = grid
    else:
        picks = rng.sample(grid, n_direct)
    for (fname, fac, an), dcode, casting, shape in picks:
        out.append(direct(fname, fac, an, dcode, casting, shape))
    simple = [d for d in ARR_DTYPES if d not in ("struct",)]
    for i in range(n_nested):
        c = i % 6
        ms = []
        for _ in range(2):
            fname, fac, an = rng.choice(ARR_FACTORIES[:2])
            ms.append(direct(fname, fac, an, rng.choice(simple), rng.choice(ARR_CASTINGS),
                             rng.choice((None, None, (None,)))))
        a, b = ms
        if c == 0:
            out.append(("Tuple(%s,%s)" % (a[0], b[0]), "nest:Tuple:" + a[1],
                        lambda a=a, b=b: Tuple(a[2](), b[2]()), rf.ref_tuple(a[3], b[3])))
        elif c == 1:
            out.append(("List(%s)" % a[0], "nest:List:" + a[1],
                        lambda a=a: List(a[2]()), rf.ref_list(a[3])))
        elif c == 2:
            out.append(("Union(None,%s)" % a[0], "nest:Union:" + a[1],
                        lambda a=a: Union(None, a[2]()), rf.ref_union(rf.ref_none, a[3])))
        elif c == 3:
            out.append(("Either(%s,Int)" % a[0], "nest:Either:" + a[1],
                        lambda a=a: Either(a[2](), Int), rf.ref_union(a[3], rf.ref_int)))
        elif c == 4:
            out.append(("Dict(Str,%s)" % a[0], "nest:Dict:" + a[1],
                        lambda a=a: Dict(Str, a[2]()), rf.ref_dict(rf.ref_isinstance(str), a[3])))
        else:
            out.append(("Tuple(Int,%s)" % a[0], "nest:Tuple:" + a[1],
                        lambda a=a: Tuple(Int, a[2]()), rf.ref_tuple(rf.ref_int, a[3])))
    return out


def nested_array_values():
    """Composite values around arrays for the nested specs (built from the array family)."""
    V = []
    arrs = [(i, c, v) for (i, c, v) in array_values() if isinstance(v, np.ndarray)]
    for i, c, v in arrs:
        if c.startswith("np-nonnative") or c in ("np-native", "np-view", "np-zerosize", "np-subclass"):
            V.append(("tuple:(%s,%s)" % (i, i), "tuple-of-arrays:" + c, (v, v.copy())))
            V.append(("tuple:(1,%s)" % i, "tuple-int-array:" + c, (1, v)))
            V.append(("list:[%s]" % i, "list-of-arrays:" + c, [v]))
            V.append(("dict:{'k':%s}" % i, "dict-of-arrays:" + c, {"k": v}))
    return V


def run_arrays(ctx, judge, base_index):
    """judge = c01.judge.  Returns the next free sharding index."""
    rng = ctx.rng("arrays")
    specs = array_specs(rng, ctx.scale(8, 800), ctx.scale(10, 300))
    idx = base_index
    with warnings.catch_warnings(), np.errstate(all="ignore"):
        warnings.simplefilter("ignore")
        for si, (name, kind, thunk, ref) in enumerate(specs):
            idx += 1
            if not ctx.mine(idx):
                continue
            if not ctx.begin("arrays:%d:%s" % (si, name[:90])):
                continue
            try:
                try:
                    made = thunk()
                    K = MetaHasTraits("A%d" % si, (HasTraits,), {"x": made, "other": Int(3)})
                except Exception:
                    ctx.count("spec_construction_failed")
                    continue
                ctx.count("array_specs")
                vals = array_values()
                if kind.startswith("nest:"):
                    vals = vals + nested_array_values()
                if ctx.quick:
                    vals = ctx.rng("arrvals", si).sample(vals, 48)
                nbad = 0
                for vid, vclass, v in vals:
                    try:
                        r = ref(v)
                    except Exception:
                        ctx.count("reference_crashes")
                        continue
                    ctx.count("array_judgements")
                    c = judge(ctx, name, kind, K, ref, vid, vclass, v)
                    if c:
                        nbad += 1
                        if nbad >= 6:
                            break
                        continue
                    nonnat = "nonnative" in vclass or "of-arrays" in vclass
                    if r.acceptable():
                        ctx.count("array_accepted")
                        if nonnat:
                            ctx.count("array_nonnative_accepted")
                        if "view" in vclass or "readonly" in vclass:
                            ctx.count("array_view_accepted")
                        if "zerosize" in vclass or "0d" in vclass:
                            ctx.count("array_degenerate_accepted")
                    else:
                        ctx.count("array_rejected")
                        if nonnat:
                            ctx.count("array_nonnative_rejected")
                if si % 29 == 0:
                    ctx.sample({"stratum": "arrays", "spec": name, "values": len(vals), "routes": 3})
            finally:
                ctx.end()
    return idx


# =============================================================================================
# stratum "deferred"
# =============================================================================================
DEFER_KINDS = ("DelegatesTo", "PrototypedFrom", "Delegate", "Delegate(modify)")
NAMINGS = ("same", "renamed", "prefix*")
GOVERNINGS = ("class", "instance-shadow", "instance-only", "subclass-override", "listener-clone",
              "swapped", "shadow-removed", "chain", "chain-shadow", "chain-mixed-shadow")


def _defer(kind, delegate_name, prefix):
    kw = {"prefix": prefix} if prefix else {}
    if kind == "DelegatesTo":
        return DelegatesTo(delegate_name, **kw)
    if kind == "PrototypedFrom":
        return PrototypedFrom(delegate_name, **kw)
    if kind == "Delegate":
        return Delegate(delegate_name, **kw)
    return Delegate(delegate_name, modify=True, **kw)


def _modifies(kind):
    return kind in ("DelegatesTo", "Delegate(modify)")


def _opposite(kind):
    return {"DelegatesTo": "PrototypedFrom", "PrototypedFrom": "DelegatesTo",
            "Delegate": "Delegate(modify)", "Delegate(modify)": "Delegate"}[kind]


def defer_pairs():
    """Ordered pairs of specs with different domains: (name, kind, thunk, ref) x 2."""
    P = [
        (("Range(0,100)", "Range.int", lambda: Range(0, 100), rf.ref_range_int(0, 100)),
         ("Range(0,10)", "Range.int", lambda: Range(0, 10), rf.ref_range_int(0, 10))),
        (("Float", "Float", lambda: Float(), rf.ref_float),
         ("Range(0.0,1.0)", "Range.float", lambda: Range(0.0, 1.0), rf.ref_range_float(0.0, 1.0, False, False))),
        (("Int", "Int", lambda: Int(), rf.ref_int),
         ("Str", "Str", lambda: Str(), rf.ref_isinstance(str))),
        (("Str", "Str", lambda: Str(), rf.ref_isinstance(str)),
         ("String(1,3)", "String", lambda: String("a", minlen=1, maxlen=3), rf.ref_string(1, 3, ""))),
        (("Enum(1,2,3)", "Enum", lambda: Enum(1, 2, 3), rf.ref_enum((1, 2, 3))),
         ("Enum(3,4,'a')", "Enum", lambda: Enum(3, 4, "a"), rf.ref_enum((3, 4, "a")))),
        (("Instance(Plain)", "Instance", lambda: Instance(Plain), rf.ref_instance(Plain, True)),
         ("Instance(PlainSub)", "Instance", lambda: Instance(PlainSub), rf.ref_instance(PlainSub, True))),
        (("Instance(Plain)", "Instance", lambda: Instance(Plain), rf.ref_instance(Plain, True)),
         ("Instance(Plain,nn)", "Instance", lambda: Instance(Plain, args=(), allow_none=False),
          rf.ref_instance(Plain, False))),
        (("Any", "Any", lambda: Any(), ref_any_identity),
         ("Int", "Int", lambda: Int(), rf.ref_int)),
        (("CInt", "CInt", lambda: CInt(), rf.ref_cast(int, (ValueError, TypeError))),
         ("Int", "Int", lambda: Int(), rf.ref_int)),
        (("Tuple(Int,Int)", "Tuple", lambda: Tuple(Int, Int), rf.ref_tuple(rf.ref_int, rf.ref_int)),
         ("Tuple(Int,Str)", "Tuple", lambda: Tuple(Int, Str), rf.ref_tuple(rf.ref_int, rf.ref_isinstance(str)))),
        (("Bool", "Bool", lambda: Bool(), rf.ref_bool),
         ("Int", "Int", lambda: Int(), rf.ref_int)),
        (("Float", "Float", lambda: Float(), rf.ref_float),
         ("Int", "Int", lambda: Int(), rf.ref_int)),
        (("Array(f8)", "Array", lambda: Array(dtype="f8"), ref_array_full("f8", None)),
         ("Array(i4,safe)", "Array", lambda: Array(dtype="i4", casting="safe"), ref_array_full("i4", None, "safe"))),
        (("Union(Int,Str)", "Union", lambda: Union(Int, Str), rf.ref_union(rf.ref_int, rf.ref_isinstance(str))),
         ("Union(None,Float)", "Union", lambda: Union(None, Float), rf.ref_union(rf.ref_none, rf.ref_float))),
    ]
    out = []
    for a, b in P:
        out.append((a, b))
        out.append((b, a))
    return out


def ref_any_identity(v):
    """Any: every value is in the domain and is stored as it is."""
    return R([], False, (), lambda s: s is v)


def _noop_handler():
    pass


class Rig:
    """One (defer kind, naming, governing, class spec A, other spec B) arrangement."""

    def __init__(self, serial, dk, naming, gov, A, B):
        self.dk, self.naming, self.gov = dk, naming, gov
        self.A, self.B = A, B
        self.xname = "x"
        self.tname, prefix = {"same": ("x", ""), "renamed": ("t", "t"), "prefix*": ("px", "p*")}[naming]
        tname = self.tname
        body = {"other": Int(3)}
        if gov != "instance-only":
            body[tname] = A[2]()
        self.D = MetaHasTraits("D%d" % serial, (HasTraits,), body)
        if gov == "subclass-override":
            self.D2 = MetaHasTraits("DS%d" % serial, (self.D,), {tname: B[2]()})
        self.chain = gov.startswith("chain")
        self.K = MetaHasTraits("K%d" % serial, (HasTraits,), {
            "d": Instance(HasTraits), "x": _defer(dk if not gov == "chain-mixed-shadow" else _opposite(dk), "d", prefix),
            "other": Int(3)})
        if self.chain:
            self.M = MetaHasTraits("M%d" % serial, (HasTraits,), {
                "m": Instance(HasTraits), "x": _defer(dk, "m", ""), "other": Int(3)})
        self.governing = B if gov in ("instance-shadow", "instance-only", "subclass-override", "swapped",
                                      "chain-shadow", "chain-mixed-shadow") else A
        self.modifies = _modifies(dk)
        self.names = ("'x'", "'%s'" % tname)

    def _delegate(self):
        gov = self.gov
        if gov == "subclass-override":
            return self.D2()
        d = self.D()
        if gov in ("instance-shadow", "instance-only", "swapped", "chain-shadow", "chain-mixed-shadow"):
            d.add_trait(self.tname, self.B[2]())
        elif gov == "listener-clone":
            d.on_trait_change(_noop_handler, self.tname)
        elif gov == "shadow-removed":
            d.add_trait(self.tname, self.B[2]())
            d.remove_trait(self.tname)
        return d

    def fresh(self):
        """-> (assigned object, [watched (object, attribute) pairs], final delegate)."""
        d = self._delegate()
        if self.gov == "swapped":
            k = self.K(d=self.D())
            try:
                k.x
            except Exception:
                pass
            k.d = d
        else:
            k = self.K(d=d)
        if self.chain:
            o = self.M(m=k)
            watch = [(o, "x"), (o, "other"), (k, "x"), (k, "other"), (d, self.tname), (d, "other")]
        else:
            o = k
            watch = [(o, "x"), (o, "other"), (d, self.tname), (d, "other")]
        return o, watch, d

    def ctor(self, v):
        d = self._delegate()
        if self.chain:
            k = self.K(d=d)
            watch = [(k, "x"), (k, "other"), (d, self.tname), (d, "other")]
            snap = _snapshot(watch)
            return (lambda: self.M(m=k, x=v)), watch, snap, d
        watch = [(d, self.tname), (d, "other")]
        snap = _snapshot(watch)
        return (lambda: self.K(d=d, x=v)), watch, snap, d


def _snapshot(watch):
    out = []
    for o, a in watch:
        try:
            out.append(getattr(o, a))
        except Exception:
            out.append(Raised)
    return out, [set(o.__dict__) for o, _ in watch]


def _unchanged(watch, snap):
    vals, keys = snap
    for (o, a), b, ks in zip(watch, vals, keys):
        if b is Raised:
            continue
        try:
            now = getattr(o, a)
        except Exception:
            return "unreadable-after-failure"
        if now is not b and not same(now, b):
            return "attribute-changed-on-failure" if a != "other" else "other-attribute-changed-on-failure"
        if set(o.__dict__) != ks:
            return "dict-keys-changed-on-failure"
    return None


def judge_deferred(ctx, rig, name, kind, ref, vid, vclass, v):
    try:
        r = ref(v)
    except Exception:
        ctx.count("reference_crashes")
        return None
    for route in ("setattr", "trait_set", "ctor"):
        ctx.ev()
        ctx.count("deferred_evaluations")
        holder = []
        if route == "ctor":
            build, watch, snap, d = rig.ctor(v)

            def go():
                holder.append(build())
            out = attempt(go)
            o = holder[0] if holder else None
        else:
            o, watch, d = rig.fresh()
            snap = _snapshot(watch)
            if route == "setattr":
                out = attempt(lambda: setattr(o, "x", v))
            else:
                out = attempt(lambda: o.trait_set(x=v))
        outcome = out[0]
        complaint = None
        stored = None
        if outcome == "ok":
            try:
                stored = o.x
            except Exception:
                stored = Raised
                complaint = "unreadable-after-accept"
            if complaint is None:
                if not r.acceptable():
                    complaint = "accepted-outside-domain"
                elif not r.matches(stored):
                    complaint = "stored-not-documented-conversion"
                else:
                    # whatever is now readable from the delegated-to attribute is in ITS domain too
                    i = [j for j, (wo, wa) in enumerate(watch) if wo is d and wa == rig.tname][0]
                    before = snap[0][i]
                    try:
                        dt = getattr(d, rig.tname)
                    except Exception:
                        dt = Raised
                    if rig.modifies:
                        if dt is Raised or not r.matches(dt):
                            complaint = "delegate-attribute-not-the-stored-value"
                    elif not (dt is before or same(dt, before) or r.matches(dt)):
                        complaint = "delegate-attribute-outside-domain"
                    if complaint is None:
                        ctx.count("deferred_accepted")
        elif outcome == "TE":
            if r.acceptable() and not r.rej:
                complaint = "rejected-inside-domain"
            else:
                ctx.count("deferred_rejected")
                msg = str(out[1])
                if not any(n in msg for n in rig.names):
                    complaint = "traiterror-does-not-name-attribute"
        else:
            et = type(out[1])
            if et in r.passes or (et is OverflowError and r.passes) or (
                    r.passes and any(issubclass(et, p) for p in r.passes)):
                ctx.count("passthrough_seen")
            else:
                complaint = "foreign-exception:" + et.__name__
        if complaint is None and outcome != "ok":
            ctx.count("no_effect_checked")
            complaint = _unchanged(watch, snap)
        ctx.sig(kind, vclass, outcome if outcome != "EXC" else "EXC:" + type(out[1]).__name__)
        if complaint:
            key = "%s/%s/%s" % (complaint, kind, vclass)
            ctx.violation(key, "%s: %s <- %s (%s) via %s: outcome %s %s; reference (the trait governing the "
                          "delegated-to attribute on that delegate: %s) allows %r"
                          % (complaint, name, vid, short(v, 60), route, outcome,
                             short(stored, 80) if outcome == "ok" else short(out[1], 160),
                             rig.governing[0], r),
                          {"spec": name, "value_id": vid, "route": route, "outcome": outcome,
                           "reference": repr(r), "defer": rig.dk, "naming": rig.naming,
                           "governing": rig.gov, "class_trait": rig.A[0], "other_trait": rig.B[0]})
            return complaint
    return None


def _discriminating(vals, refA, refB):
    """Split lattice values into those on which the two domains disagree and the rest."""
    dis, rest = [], []
    for item in vals:
        v = item[2]
        try:
            ra, rb = refA(v), refB(v)
        except Exception:
            rest.append(item)
            continue
        differ = ra.acceptable() != rb.acceptable()
        if not differ and ra.accepts and rb.accepts:
            differ = not same(ra.accepts[0], rb.accepts[0])
        (dis if differ else rest).append(item)
    return dis, rest


def run_deferred(ctx, base_index):
    pairs = defer_pairs()
    cells = [(dk, nm, gov) for gov in GOVERNINGS for dk in DEFER_KINDS for nm in NAMINGS]
    # pairs per cell: 1 quick, 12 thorough (a fraction when replayed at a reduced budget)
    per_cell = 1 if ctx.quick else max(1, int(12 * min(1.0, getattr(ctx, "factor", 1.0))))
    idx = base_index
    serial = 0
    for ci, (dk, naming, gov) in enumerate(cells):
        rng = ctx.rng("deferred", ci)
        chosen = pairs if per_cell >= len(pairs) else rng.sample(pairs, per_cell)
        for (A, B) in chosen:
            idx += 1
            serial += 1
            if not ctx.mine(idx):
                continue
            name = "%s[%s]->%s:%s/%s" % (dk, naming, gov, A[0], B[0])
            if not ctx.begin("deferred:%d:%s" % (serial, name)):
                continue
            try:
                try:
                    rig = Rig(serial, dk, naming, gov, A, B)
                    rig.fresh()
                except Exception:
                    ctx.count("spec_construction_failed")
                    continue
                ctx.count("deferred_specs")
                G = rig.governing
                kind = "defer:%s:%s:%s" % (dk, gov, G[1])
                vals = lattice()
                if G[1] == "Array" or A[1] == "Array":
                    vals = vals + array_values()
                dis, rest = _discriminating(vals, A[3], B[3])
                if ctx.quick:
                    if len(dis) > 24:
                        dis = rng.sample(dis, 24)
                    rest = rng.sample(rest, min(len(rest), 12))
                disids = set(id(it) for it in dis)
                nbad = 0
                with warnings.catch_warnings(), np.errstate(all="ignore"):
                    warnings.simplefilter("ignore")
                    for item in dis + rest:
                        vid, vclass, v = item
                        ctx.count("deferred_judgements")
                        if id(item) in disids:
                            ctx.count("deferred_discriminating")
                            if G is B:
                                ctx.count("deferred_discriminating_nonclass")
                        if judge_deferred(ctx, rig, name, kind, G[3], vid, vclass, v):
                            nbad += 1
                            if nbad >= 6:
                                break
                if serial % 41 == 0:
                    ctx.sample({"stratum": "deferred", "spec": name, "values": len(dis) + len(rest), "routes": 3})
            finally:
                ctx.end()
    return idx


# =============================================================================================
# stratum "deepconv"
# =============================================================================================
# A CONVERTING member (Float <- int/bool/numpy scalar, Int <- bool/numpy integer/__index__,
# Complex <- float, Range, the C* casts, Bool <- numpy bool, PrefixList completion, String <- number)
# sitting two or more trait levels deep: Tuple in Tuple, Tuple in Union / Either, Tuple as List item /
# Dict key / Dict value / Set item, ValidatedTuple around and inside Tuple, Union / Either / List as a
# Tuple item -- and values built FROM THE SPEC, so that every declaration meets values that fit its
# shape and need a conversion exactly at the inner level: all items already exact (identity path),
# every item an equal-valued value of another type (1 for 1.0, True for 1, np.float64(0.5) for 0.5),
# one single inner item of that kind among exact ones, an inner conversion to a non-equal value,
# conversions at the outer level only, one invalid / protocol-raising item at depth, a wrong inner
# shape, tuple subclasses as inner containers, one inner tuple object used in two places.  The
# readback is judged by the structural matchers of vf/reference.py, which compare with `same` (exact
# type first) at every depth: (1, 2) is NOT an acceptable stored value where (1.0, 2.0) is documented.
from traits.api import (    # noqa: E402
    ValidatedTuple, Set, Complex, BaseFloat, BaseInt, CFloat, CStr, CBool, CComplex, PrefixList, Bytes,
)
from vf.lattice import T as TupleSub, NT as NamedPair    # noqa: E402

DEEP_PREDS = {"true": (lambda t: True), "first!=last": (lambda t: t[0] != t[-1])}


def deep_leaves():
    """name -> (name, kind, thunk, ref, converting)."""
    L = {}

    def add(name, kind, thunk, ref, conv):
        L[name] = (name, kind, thunk, ref, conv)
    add("Float", "Float", lambda: Float(), rf.ref_float, True)
    add("BaseFloat", "Float", lambda: BaseFloat(), rf.ref_float, True)
    add("Int", "Int", lambda: Int(), rf.ref_int, True)
    add("BaseInt", "Int", lambda: BaseInt(), rf.ref_int, True)
    add("Complex", "Complex", lambda: Complex(), rf.ref_complex, True)
    add("Bool", "Bool", lambda: Bool(), rf.ref_bool, True)
    add("Range(0.0,10.0)", "Range.float", lambda: Range(0.0, 10.0), rf.ref_range_float(0.0, 10.0, False, False), True)
    add("Range(0,10)", "Range.int", lambda: Range(0, 10), rf.ref_range_int(0, 10), True)
    add("CInt", "CInt", lambda: CInt(), rf.ref_cast(int, (ValueError, TypeError)), True)
    add("CFloat", "CFloat", lambda: CFloat(), rf.ref_cast(float, (ValueError, TypeError)), True)
    add("CComplex", "CComplex", lambda: CComplex(), rf.ref_cast(complex, (ValueError, TypeError)), True)
    add("CStr", "CStr", lambda: CStr(), rf.ref_cast(str, Exception), True)
    add("CBool", "CBool", lambda: CBool(), rf.ref_cast(bool, Exception), True)
    add("PrefixList", "PrefixList", lambda: PrefixList(["yes", "no", "yellow"]),
        rf.ref_prefixlist(["yes", "no", "yellow"]), True)
    add("String(1,3)", "String", lambda: String("a", minlen=1, maxlen=3), rf.ref_string(1, 3, ""), True)
    add("Str", "Str", lambda: Str(), rf.ref_isinstance(str), False)
    add("Bytes", "Bytes", lambda: Bytes(), rf.ref_isinstance(bytes), False)
    add("Enum('yes','no')", "Enum", lambda: Enum("yes", "no"), rf.ref_enum(("yes", "no")), False)
    add("Instance(Plain)", "Instance", lambda: Instance(Plain), rf.ref_instance(Plain, True), False)
    return L


class DN:
    """Node of a declaration tree."""
    __slots__ = ("kind", "kids", "leaf", "pred")

    def __init__(self, kind, kids=(), leaf=None, pred=None):
        self.kind, self.kids, self.leaf, self.pred = kind, list(kids), leaf, pred


def dn_name(n):
    k = n.kind
    if k == "leaf":
        return n.leaf[0]
    if k == "None":
        return "None"
    inner = ",".join(dn_name(c) for c in n.kids)
    if k == "ValidatedTuple":
        return "ValidatedTuple(%s,%s)" % (inner, n.pred)
    return "%s(%s)" % (k, inner)


def dn_trait(n):
    k = n.kind
    if k == "leaf":
        return n.leaf[2]()
    if k == "None":
        return None
    kids = [dn_trait(c) for c in n.kids]
    if k == "Tuple":
        return Tuple(*kids)
    if k == "ValidatedTuple":
        return ValidatedTuple(*kids, fvalidate=DEEP_PREDS[n.pred])
    if k == "Union":
        return Union(*kids)
    if k == "Either":
        return Either(*kids)
    if k == "List":
        return List(kids[0])
    if k == "Set":
        return Set(kids[0])
    return Dict(kids[0], kids[1])


def dn_conv(n):
    """Canonical documented conversion (only for the deterministic trees under a ValidatedTuple:
    leaves, Tuple, ValidatedTuple)."""
    if n.kind == "leaf":
        ref = n.leaf[3]
        return lambda v: ref(v).accepts[0]
    convs = [dn_conv(c) for c in n.kids]
    vt = n.kind == "ValidatedTuple"

    def f(v):
        if vt and isinstance(v, list):
            v = tuple(v)
        return tuple(c(x) for c, x in zip(convs, v))
    return f


def ref_validated_tuple(members, convs, pred):
    """ValidatedTuple(*members, fvalidate=pred): the members are validated first, then the predicate
    judges the tuple of the CONVERTED members; the stored value is an exact tuple of the members'
    conversions."""
    def f(v):
        if isinstance(v, list):
            v = tuple(v)        # the Python tuple validator takes a list as the tuple of its items
        if not isinstance(v, tuple) or len(v) != len(members):
            return REJ
        rs = [m(x) for m, x in zip(members, v)]
        passes = set()
        for r in rs:
            passes |= r.passes
        if not all(r.acceptable() for r in rs):
            return R([], True, passes)
        try:
            ok = bool(pred(tuple(c(x) for c, x in zip(convs, v))))
        except Exception:
            ok = False
        if not ok:
            return R([], True, passes)

        def matcher(s):
            return type(s) is tuple and len(s) == len(rs) and all(r.matches(e) for r, e in zip(rs, s))
        return R([], any(r.rej for r in rs), passes, matcher)
    return f


def dn_ref(n):
    k = n.kind
    if k == "leaf":
        return n.leaf[3]
    if k == "None":
        return rf.ref_none
    kids = [dn_ref(c) for c in n.kids]
    if k == "Tuple":
        return rf.ref_tuple(*kids)
    if k == "ValidatedTuple":
        return ref_validated_tuple(kids, [dn_conv(c) for c in n.kids], DEEP_PREDS[n.pred])
    if k in ("Union", "Either"):
        return rf.ref_union(*kids)
    if k == "List":
        return rf.ref_list(kids[0])
    if k == "Set":
        return rf.ref_set(kids[0])
    return rf.ref_dict(kids[0], kids[1])


def dn_deepest(n):
    """-> (depth, path of container kinds, leaf kind) of the deepest converting leaf, or None."""
    best = None

    def walk(m, path):
        nonlocal best
        if m.kind == "leaf":
            if m.leaf[4] and (best is None or len(path) > best[0]):
                best = (len(path), list(path), m.leaf[1])
            return
        for c in m.kids:
            walk(c, path + [m.kind])
    walk(n, [])
    return best


def dn_has_tuple(n):
    return n.kind in ("Tuple", "ValidatedTuple") or any(dn_has_tuple(c) for c in n.kids)


def deep_chains():
    """Covering part: name -> builder(a, b, s) of a declaration tree around the leaves a (converting),
    b (its partner) and s (a non-converting one)."""
    def lf(x):
        return DN("leaf", leaf=x)

    def P(a, b):
        return DN("Tuple", [lf(a), lf(b)])
    none = DN("None")
    C = {}
    C["Tuple(P,P,s)"] = lambda a, b, s: DN("Tuple", [P(a, b), P(a, b), lf(s)])
    C["Tuple(P,a)"] = lambda a, b, s: DN("Tuple", [P(a, b), lf(a)])
    C["Tuple(Tuple(P,s),a)"] = lambda a, b, s: DN("Tuple", [DN("Tuple", [P(a, b), lf(s)]), lf(a)])
    C["Tuple(Tuple(a))"] = lambda a, b, s: DN("Tuple", [DN("Tuple", [lf(a)])])
    C["Union(None,Tuple(P,s))"] = lambda a, b, s: DN("Union", [none, DN("Tuple", [P(a, b), lf(s)])])
    C["Union(Tuple(P,P),s)"] = lambda a, b, s: DN("Union", [DN("Tuple", [P(a, b), P(a, b)]), lf(s)])
    C["Union(None,P)"] = lambda a, b, s: DN("Union", [none, P(a, b)])
    C["Either(Tuple(P,s),None)"] = lambda a, b, s: DN("Either", [DN("Tuple", [P(a, b), lf(s)]), none])
    C["Either(s,Tuple(P,P))"] = lambda a, b, s: DN("Either", [lf(s), DN("Tuple", [P(a, b), P(a, b)])])
    C["List(Tuple(P,s))"] = lambda a, b, s: DN("List", [DN("Tuple", [P(a, b), lf(s)])])
    C["List(P)"] = lambda a, b, s: DN("List", [P(a, b)])
    C["Dict(s,Tuple(P,a))"] = lambda a, b, s: DN("Dict", [lf(s), DN("Tuple", [P(a, b), lf(a)])])
    C["Dict(P,P)"] = lambda a, b, s: DN("Dict", [P(a, b), P(a, b)])
    C["Set(Tuple(P,s))"] = lambda a, b, s: DN("Set", [DN("Tuple", [P(a, b), lf(s)])])
    C["ValidatedTuple(P,P)"] = lambda a, b, s: DN("ValidatedTuple", [P(a, b), P(a, b)], pred="first!=last")
    C["Tuple(ValidatedTuple(a,b),s)"] = lambda a, b, s: DN(
        "Tuple", [DN("ValidatedTuple", [lf(a), lf(b)], pred="true"), lf(s)])
    C["ValidatedTuple(ValidatedTuple(a,b),P)"] = lambda a, b, s: DN(
        "ValidatedTuple", [DN("ValidatedTuple", [lf(a), lf(b)], pred="first!=last"), P(a, b)], pred="true")
    C["Tuple(List(P),a)"] = lambda a, b, s: DN("Tuple", [DN("List", [P(a, b)]), lf(a)])
    C["Union(List(P),P)"] = lambda a, b, s: DN("Union", [DN("List", [P(a, b)]), P(a, b)])
    C["Tuple(Union(None,P),s)"] = lambda a, b, s: DN("Tuple", [DN("Union", [none, P(a, b)]), lf(s)])
    C["Tuple(Either(P,None),a)"] = lambda a, b, s: DN("Tuple", [DN("Either", [P(a, b), none]), lf(a)])
    C["Tuple(Dict(s,P),s)"] = lambda a, b, s: DN("Tuple", [DN("Dict", [lf(s), P(a, b)]), lf(s)])
    return C


def gen_deep(rng, leaves, maxdepth):
    """A random declaration tree with a converting leaf at depth >= 2 and a Tuple somewhere."""
    conv = [nm for nm in leaves if leaves[nm][4]]
    other = [nm for nm in leaves if not leaves[nm][4]]

    def leaf():
        return DN("leaf", leaf=leaves[rng.choice(conv if rng.random() < 0.7 else other)])

    def sub(d, mode):
        # mode: "any" | "det" (under a ValidatedTuple: Tuple / ValidatedTuple / leaf) | "hash"
        # (Dict key / Set item: Tuple / leaf)
        if d <= 0 or rng.random() < 0.25:
            return leaf()
        if mode == "hash":
            c = "Tuple"
        elif mode == "det":
            c = rng.choice(("Tuple", "Tuple", "ValidatedTuple"))
        else:
            c = rng.choice(("Tuple", "Tuple", "Tuple", "ValidatedTuple", "Union", "Either", "List", "Dict", "Set"))
        if c == "Tuple":
            return DN("Tuple", [sub(d - 1, mode) for _ in range(rng.randint(1, 3))])
        if c == "ValidatedTuple":
            return DN("ValidatedTuple", [sub(d - 1, "det") for _ in range(rng.randint(2, 3))],
                      pred=rng.choice(sorted(DEEP_PREDS)))
        if c in ("Union", "Either"):
            kids = [sub(d - 1, mode) for _ in range(rng.randint(1, 2))]
            r = rng.random()
            if r < 0.4:
                kids.insert(rng.randrange(len(kids) + 1), DN("None"))
            elif r < 0.7 or len(kids) < 2:
                kids.insert(rng.randrange(len(kids) + 1), leaf())
            return DN(c, kids)
        if c == "List":
            return DN("List", [sub(d - 1, mode)])
        if c == "Set":
            return DN("Set", [sub(min(d - 1, 2), "hash")])
        return DN("Dict", [sub(min(d - 1, 1), "hash"), sub(d - 1, mode)])
    for _ in range(200):
        n = sub(maxdepth, "any")
        if n.kind == "leaf" or not dn_has_tuple(n):
            continue
        best = dn_deepest(n)
        if best is not None and best[0] >= 2:
            return n
    a = leaves["Float"]
    return DN("Tuple", [DN("Tuple", [DN("leaf", leaf=a), DN("leaf", leaf=a)])])


def _hashable(v):
    try:
        hash(v)
        return True
    except Exception:
        return False


def deep_classify(ref, pool):
    """Lattice items by what the leaf's reference says about them: exact (stored as is), equal
    (converted to an ==-equal value that is not `same`: another type), nonequal (converted to a
    different value), invalid, pass (the value's own conversion protocol raises)."""
    cats = {"exact": [], "equal": [], "nonequal": [], "invalid": [], "pass": []}
    for item in pool:
        v = item[2]
        try:
            r = ref(v)
        except Exception:
            continue
        if r.accepts:
            a = r.accepts[0]
            if a is v or same(v, a):
                cats["exact"].append(item)
                continue
            try:
                eq = bool(v == a) and not isinstance(v, np.ndarray)
            except Exception:
                eq = False
            cats["equal" if eq else "nonequal"].append(item)
        elif r.passes:
            cats["pass"].append(item)
        elif r.matcher is None:
            cats["invalid"].append(item)
    return cats


class _Unrealisable(Exception):
    pass


def deep_skeleton(n, rng, depth, slots, tuples, under_vt=False, need_hash=False):
    k = n.kind
    if k == "leaf":
        slots.append([n.leaf, depth, need_hash, None, None])
        return ("leaf", len(slots) - 1)
    if k == "None":
        return ("const", None)
    if k in ("Tuple", "ValidatedTuple"):
        vt = under_vt or k == "ValidatedTuple"
        node = ["T", [deep_skeleton(c, rng, depth + 1, slots, tuples, vt, need_hash) for c in n.kids],
                [dn_name(c) for c in n.kids], depth, under_vt, None]
        tuples.append(node)
        return node
    if k in ("Union", "Either"):
        big = [c for c in n.kids if c.kind not in ("leaf", "None")]
        c = rng.choice(big) if big and rng.random() < 0.85 else rng.choice(n.kids)
        return deep_skeleton(c, rng, depth + 1, slots, tuples, under_vt, need_hash)
    if k == "List":
        m = rng.choice((1, 1, 2, 2, 3, 0))
        return ("L", [deep_skeleton(n.kids[0], rng, depth + 1, slots, tuples, under_vt, need_hash)
                      for _ in range(m)])
    if k == "Set":
        # two items only when nothing in them converts (two converted items may collapse into one)
        m = rng.choice((1, 1, 2)) if dn_deepest(n.kids[0]) is None else 1
        return ("S", [deep_skeleton(n.kids[0], rng, depth + 1, slots, tuples, under_vt, True) for _ in range(m)])
    # Dict: one entry unless the key is a plain non-converting leaf (two converted keys may collide)
    kn = n.kids[0]
    m = rng.choice((1, 2)) if (kn.kind == "leaf" and not kn.leaf[4]) else 1
    return ("D", [(deep_skeleton(kn, rng, depth + 1, slots, tuples, under_vt, True),
                   deep_skeleton(n.kids[1], rng, depth + 1, slots, tuples, under_vt, need_hash))
                  for _ in range(m)])


def deep_build(sk, slots, alias):
    t = sk[0]
    if t == "leaf":
        return slots[sk[1]][3][2]
    if t == "const":
        return sk[1]
    if t == "T":
        vals = []
        names = sk[2]
        for i, kid in enumerate(sk[1]):
            if alias and kid[0] == "T" and names[i] in names[:i]:
                vals.append(vals[names.index(names[i])])
            else:
                vals.append(deep_build(kid, slots, alias))
        defect = sk[5]
        if defect == "short":
            return tuple(vals[:-1])
        if defect == "long":
            return tuple(vals) + (vals[-1],)
        if defect == "list":
            return list(vals)
        if defect == "none":
            return None
        if defect == "scalar":
            return vals[0]
        if defect == "T":
            return TupleSub(vals)
        if defect == "NT":
            return NamedPair(*vals) if len(vals) == 2 else TupleSub(vals)
        return tuple(vals)
    if t == "L":
        return [deep_build(k, slots, alias) for k in sk[1]]
    if t == "S":
        return set(deep_build(k, slots, alias) for k in sk[1])
    return {deep_build(k, slots, alias): deep_build(v, slots, alias) for k, v in sk[1]}


DEEP_PATTERNS = (
    # name, category of deep slots (depth >= 2), of shallow slots, single?, tuple defect, alias
    ("all-exact", "exact", "exact", False, None, False),
    ("all-equal-convert", "equal", "equal", False, None, False),
    ("deep-equal-convert", "equal", "exact", False, None, False),
    ("one-deep-equal-convert", "equal", "exact", True, None, False),
    ("one-deep-nonequal-convert", "nonequal", "exact", True, None, False),
    ("shallow-equal-convert", "exact", "equal", False, None, False),
    ("mixed", "mixed", "mixed", False, None, False),
    ("one-deep-invalid", "invalid", "mixed", True, None, False),
    ("one-deep-passthrough", "pass", "exact", True, None, False),
    ("inner-shape", "mixed", "mixed", False, "shape", False),
    ("inner-subclass", "equal", "exact", False, "sub", False),
    ("inner-subclass-exact", "exact", "exact", False, "sub", False),
    ("aliased-inner", "equal", "exact", False, None, True),
)


def deep_value(node, rng, pools, pattern):
    """-> (value, vclass, has_deep_equal) or raises _Unrealisable."""
    pname, deepcat, shallowcat, single, defect, alias = pattern
    slots, tuples = [], []
    sk = deep_skeleton(node, rng, 0, slots, tuples)
    deep = [i for i, s in enumerate(slots) if s[1] >= 2 and s[0][4]]
    if not deep:
        raise _Unrealisable()
    target = rng.choice(deep) if single else None
    if pname == "shallow-equal-convert" and not any(s[1] < 2 and s[0][4] for s in slots):
        raise _Unrealisable()
    label = None
    has_deep_equal = False
    for i, s in enumerate(slots):
        isdeep = s[1] >= 2
        if single:
            cat = deepcat if i == target else ("exact" if shallowcat == "exact" else "mixed")
        else:
            cat = deepcat if isdeep else shallowcat
        if cat == "mixed":
            cat = rng.choice(("exact", "exact", "equal", "equal", "nonequal"))
        cands = pools[s[0][0]][cat]
        if s[2]:
            cands = [it for it in cands if _hashable(it[2])]
        if not cands:
            if single and i == target:
                raise _Unrealisable()
            cat = "exact"
            cands = [it for it in pools[s[0][0]]["exact"] if not s[2] or _hashable(it[2])]
            if not cands:
                raise _Unrealisable()
        s[3] = rng.choice(cands)
        s[4] = cat
        if isdeep and cat == "equal":
            has_deep_equal = True
        if (i == target) or (label is None and not single and isdeep and s[0][4] and cat != "exact"):
            label = s[3][1]
    if defect:
        inner = [t for t in tuples if t[3] >= 1]
        if not inner:
            raise _Unrealisable()
        t = rng.choice(inner)
        if defect == "shape":
            modes = ["short", "long", "none", "scalar"] + ([] if t[4] else ["list"])
            t[5] = rng.choice(modes)
            label = t[5]
        else:
            t[5] = rng.choice(("T", "NT"))
            label = "tuple-subclass"
    if alias:
        if not any(len(set(t[2])) < len(t[2]) and any(k[0] == "T" for k in t[1]) for t in tuples):
            raise _Unrealisable()
    try:
        v = deep_build(sk, slots, alias)
    except TypeError:
        raise _Unrealisable()
    return v, "%s:%s" % (pname, label or "-"), has_deep_equal


def deep_good_value(node, rng, pools):
    return deep_value(node, rng, pools, DEEP_PATTERNS[0])[0]


def deep_reject_after_valid(ctx, name, kind, K, good, vid, vclass, bad, route):
    """A rejected assignment over a previously ASSIGNED (not default) deep value leaves it alone."""
    o = K()
    if attempt(lambda: setattr(o, "x", good))[0] != "ok":
        return None
    try:
        before = o.x
        before_other = o.other
    except Exception:
        return None
    keys = set(o.__dict__)
    ctx.ev()
    if route == "setattr":
        out = attempt(lambda: setattr(o, "x", bad))
    else:
        out = attempt(lambda: o.trait_set(x=bad))
    if out[0] == "ok":
        return None         # judged by the main oracle
    ctx.count("deep_reject_after_valid")
    complaint = None
    try:
        now = o.x
        if now is not before and not same(now, before):
            complaint = "attribute-changed-on-failure"
        elif o.other is not before_other:
            complaint = "other-attribute-changed-on-failure"
        elif set(o.__dict__) != keys:
            complaint = "dict-keys-changed-on-failure"
    except Exception:
        complaint = "unreadable-after-failure"
    if complaint:
        ctx.violation("%s/%s/%s" % (complaint, kind, vclass),
                      "%s: spec %s holding an assigned value %s <- %s (%s) via %s: %s"
                      % (complaint, name, short(good, 60), vid, short(bad, 60), route, short(out[1], 160)),
                      {"spec": name, "value_id": vid, "route": route, "outcome": out[0], "prior": "assigned"})
    return complaint


def deep_specs(ctx, leaves):
    """-> list of (name, kind, node).  Covering part: every chain, each with converting leaves
    rotated so that every run sees every chain and every converting leaf kind; then random trees."""
    rng = ctx.rng("deepconv", "specs")
    chains = deep_chains()
    conv = [nm for nm in leaves if leaves[nm][4]]
    other = [nm for nm in leaves if not leaves[nm][4]]
    out = []
    per_chain = ctx.scale(3, len(conv))
    off = rng.randrange(len(conv))
    for ci, cname in enumerate(sorted(chains)):
        if per_chain >= len(conv):
            picks = list(conv)
        else:
            picks = [conv[(off + ci * per_chain + j) % len(conv)] for j in range(per_chain)]
        for j, a in enumerate(picks):
            b = a if (ci + j) % 2 == 0 else rng.choice(conv)
            s = "Str" if (ci + j) % 3 else rng.choice(other)
            node = chains[cname](leaves[a], leaves[b], leaves[s])
            out.append(node)
    nrand = ctx.scale(60, 1500)
    depth = ctx.scale(3, 4)
    for i in range(nrand):
        out.append(gen_deep(ctx.rng("deepconv", "tree", i), leaves, depth))
    res = []
    for node in out:
        best = dn_deepest(node)
        kind = "deep:%s>%s" % (">".join(best[1]), best[2])
        res.append((dn_name(node), kind, node))
    return res


def run_deepconv(ctx, judge, base_index):
    leaves = deep_leaves()
    specs = deep_specs(ctx, leaves)
    draws = ctx.scale(3, 6)
    idx = base_index
    with warnings.catch_warnings(), np.errstate(all="ignore"):
        warnings.simplefilter("ignore")
        for si, (name, kind, node) in enumerate(specs):
            idx += 1
            if not ctx.mine(idx):
                continue
            if not ctx.begin("deepconv:%d:%s" % (si, name[:90])):
                continue
            try:
                try:
                    K = MetaHasTraits("DC%d" % si, (HasTraits,), {"x": dn_trait(node), "other": Int(3)})
                    ref = dn_ref(node)
                except Exception:
                    ctx.count("spec_construction_failed")
                    continue
                ctx.count("deep_specs")
                pool = lattice(extra_floats=(-1.5,))
                pools = {}

                def collect(m):
                    if m.kind == "leaf" and m.leaf[0] not in pools:
                        pools[m.leaf[0]] = deep_classify(m.leaf[3], pool)
                    for c in m.kids:
                        collect(c)
                collect(node)
                rng = ctx.rng("deepconv", "vals", si)
                nbad = 0
                k = 0
                for pattern in DEEP_PATTERNS:
                    for d in range(draws):
                        try:
                            v, vclass, has_deep_equal = deep_value(node, rng, pools, pattern)
                        except _Unrealisable:
                            ctx.count("deep_unrealisable")
                            continue
                        try:
                            r = ref(v)
                        except Exception:
                            ctx.count("reference_crashes")
                            continue
                        k += 1
                        vid = "%s#%d" % (vclass, d)
                        ctx.count("deep_judgements")
                        # the oracle must be able to tell the assigned value from its documented
                        # conversion: where an equal-valued conversion is due at depth, the value AS
                        # ASSIGNED is not an acceptable stored value (it is when the slot vanished with
                        # a shape defect or another Union member takes the value as it is)
                        needs_conv = has_deep_equal and r.acceptable() and not r.matches(v)
                        if has_deep_equal and r.acceptable() and not needs_conv:
                            ctx.count("deep_equal_not_needed")
                        c = judge(ctx, name, kind, K, ref, vid, vclass, v)
                        if c:
                            nbad += 1
                            if nbad >= 4:
                                break
                            continue
                        if r.acceptable():
                            ctx.count("deep_accepted")
                            if needs_conv:
                                ctx.count("deep_equal_converted_accepted")
                            if pattern[0] == "all-exact":
                                ctx.count("deep_identity_accepted")
                            if pattern[4] == "sub":
                                ctx.count("deep_subclass_accepted")
                        else:
                            ctx.count("deep_rejected")
                            if not r.passes:
                                try:
                                    good = deep_good_value(node, rng, pools)
                                except _Unrealisable:
                                    continue
                                if deep_reject_after_valid(ctx, name, kind, K, good, vid, vclass, v,
                                                           "setattr" if k % 2 else "trait_set"):
                                    nbad += 1
                    if nbad >= 4:
                        break
                if si % 23 == 0:
                    ctx.sample({"stratum": "deepconv", "spec": name, "values": k, "routes": 3})
            finally:
                ctx.end()
    return idx
