"""C14 sub-check B: trait *definition* objects (CTraits) survive pickle / copy
round trips behaving as before.

Every kind of the catalogue is taken through pickle (protocols 0, 2, 5),
copy.deepcopy and copy.copy.  The round-tripped CTrait must give the same
`validate` outcome as the original on the whole value lattice, the same
default_value(), metadata, flags, and the same get/set/delete/notification
behaviour when installed as attribute `x` of a fresh class.

Each kind gets its own write-ahead record: several kinds crash the interpreter
on the unchanged tree (F1), the parent attributes the crash to the kind.
"""
import copy as copy_mod
import pickle
import sys
import types
import uuid
import weakref

from traits.api import (
    HasTraits, MetaHasTraits, CTrait, TraitError, Interface, provides, Undefined,
    Any, Int, Float, Str, Bool, Range, Enum, Tuple, Either, Union, List, Dict, Set, CList, CSet,
    Instance, Supports, AdaptsTo, This, Type, WeakRef, Callable, Module, Expression, UUID, File,
    Directory, Password, HTML, Code, Property, cached_property, DelegatesTo, PrototypedFrom, Delegate,
    Event, Button, ToolbarButton, Constant, ReadOnly, Disallow, Python, Trait, Map, PrefixMap,
    PrefixList, ValidatedTuple, ComparisonMode, Subclass, CInt, String, BaseInstance,
)

from vf.lattice import lattice, Plain, PlainSub
from vf.util import same, short
from vf.monitors.c01 import atomic_specs


# --------------------------------------------------------------------------- hosts
class DefTarget(HasTraits):
    x = Int(4)
    q = Int(9)
    pre_x = Int(11)
    v = Int(2)


class IFoo(Interface):
    pass


@provides(IFoo)
class FooImpl(HasTraits):
    pass


class DefHostBase(HasTraits):
    """Base of the classes a (round-tripped) definition is installed in as `x`."""
    p = Instance(DefTarget, ())
    _p = Int(3)
    _q = Any
    lo = Float(0.0)
    hi = Float(1.0)
    vals = List([1, 2, 3])


def pg0():
    return 10


def pg1(obj):
    return obj._p


def pg2(obj, name):
    return (obj._p, name)


def pg3(obj, name, trait):
    return (obj._p, name, type(trait).__name__)


def ps0():
    pass


def ps1(value):
    pass


def ps2(obj, value):
    obj._q = value


def ps3(obj, name, value):
    obj._q = (name, value)


def pv0():
    return 1


def pv1(value):
    if not isinstance(value, int):
        raise TraitError("pv1")
    return value


def pv2(obj, value):
    if not isinstance(value, int):
        raise TraitError("pv2")
    return value + 1


def pv3(obj, name, value):
    if not isinstance(value, int):
        raise TraitError("pv3")
    return value + 2


def val_fn(obj, name, value):
    if not isinstance(value, int):
        raise TraitError("val_fn")
    return value


def tuple_ok(t):
    return t[0] <= t[1]


class PropHost(DefHostBase):
    plain = Property()

    def _get_plain(self):
        return self._p

    def _set_plain(self, v):
        self._p = v

    ronly = Property()

    def _get_ronly(self):
        return 5

    validated = Property(Int)

    def _get_validated(self):
        return self._p

    def _set_validated(self, v):
        self._p = v

    validated_range = Property(Range(0.0, 1.0))

    def _get_validated_range(self):
        return self._q

    def _set_validated_range(self, v):
        self._q = v

    validated_ro = Property(Int)

    def _get_validated_ro(self):
        return self._p

    cached_obs = Property(observe="_p")

    @cached_property
    def _get_cached_obs(self):
        return self._p * 2

    cached_dep = Property(depends_on="_p")

    @cached_property
    def _get_cached_dep(self):
        return self._p * 3

    cached_validated = Property(Int, observe="_p")

    @cached_property
    def _get_cached_validated(self):
        return self._p * 4

    observed = Property(observe="_p")

    def _get_observed(self):
        return self._p + 1

    dyn_range = Range("lo", "hi")
    dyn_enum = Enum(values="vals")


def _from_class(name):
    return lambda: PropHost().trait(name)


def extra_specs():
    """[(name, kind, thunk)] -- kinds beyond c01.atomic_specs()."""
    E = []

    def add(name, kind, thunk):
        E.append((name, kind, thunk))
    # properties taken from a class
    add("Property.plain", "Property.plain", _from_class("plain"))
    add("Property.readonly", "Property.plain", _from_class("ronly"))
    add("Property.observed", "Property.observed", _from_class("observed"))
    add("Property.cached(observe)", "Property.cached", _from_class("cached_obs"))
    add("Property.cached(depends_on)", "Property.cached", _from_class("cached_dep"))
    add("Property.validated(Int)", "Property.validated", _from_class("validated"))
    add("Property.validated(Range)", "Property.validated", _from_class("validated_range"))
    add("Property.validated(Int,ro)", "Property.validated", _from_class("validated_ro"))
    add("Property.cached.validated", "Property.cached", _from_class("cached_validated"))
    add("Range(dynamic)", "Range.dynamic", _from_class("dyn_range"))
    add("Enum(dynamic)", "Enum.dynamic", _from_class("dyn_enum"))
    # properties from functions: every getter / setter arity of the function tables
    add("Property(pg0)", "Property.fn", lambda: Property(pg0))
    add("Property(pg1,ps2)", "Property.fn", lambda: Property(pg1, ps2))
    add("Property(pg2,ps3)", "Property.fn", lambda: Property(pg2, ps3))
    add("Property(pg3,ps1)", "Property.fn", lambda: Property(pg3, ps1))
    add("Property(pg1,ps0)", "Property.fn", lambda: Property(pg1, ps0))
    add("Property(pg1,ps2,pv0)", "Property.fn.validated", lambda: Property(pg1, ps2, pv0))
    add("Property(pg1,ps2,pv1)", "Property.fn.validated", lambda: Property(pg1, ps2, pv1))
    add("Property(pg1,ps3,pv2)", "Property.fn.validated", lambda: Property(pg1, ps3, pv2))
    add("Property(pg2,ps2,pv3)", "Property.fn.validated", lambda: Property(pg2, ps2, pv3))
    # deferral
    add("DelegatesTo(p)", "Delegate", lambda: DelegatesTo("p"))
    add("DelegatesTo(p,prefix=q)", "Delegate", lambda: DelegatesTo("p", prefix="q"))
    add("DelegatesTo(p,prefix=pre_*)", "Delegate", lambda: DelegatesTo("p", prefix="pre_*"))
    add("DelegatesTo(p,prefix=*)", "Delegate", lambda: DelegatesTo("p", prefix="*"))
    add("DelegatesTo(p,listenable=False)", "Delegate", lambda: DelegatesTo("p", listenable=False))
    add("Delegate(p,modify=True)", "Delegate", lambda: Delegate("p", modify=True))
    add("PrototypedFrom(p)", "Prototype", lambda: PrototypedFrom("p"))
    add("PrototypedFrom(p,q)", "Prototype", lambda: PrototypedFrom("p", "q"))
    # events, constants, policies
    add("Event", "Event", lambda: Event())
    add("Event(Int)", "Event", lambda: Event(Int))
    add("Button", "Button", lambda: Button())
    add("ToolbarButton", "Button", lambda: ToolbarButton())
    add("Constant(5)", "Constant", lambda: Constant(5))
    add("Constant([1,2])", "Constant", lambda: Constant([1, 2]))
    add("ReadOnly", "ReadOnly", lambda: ReadOnly)
    add("ReadOnly(3)", "ReadOnly", lambda: ReadOnly(3))
    add("Disallow", "Disallow", lambda: Disallow)
    add("Python", "Python", lambda: Python())
    add("Any", "Any", lambda: Any())
    add("Any(5)", "Any", lambda: Any(5))
    add("Any([1])", "Any", lambda: Any([1]))
    add("Any({'a':1})", "Any", lambda: Any({"a": 1}))
    add("Any(factory=list)", "Any", lambda: Any(factory=list))
    # compound
    add("Either(Int,Str)", "Either", lambda: Either(Int, Str))
    add("Union(Int,Str,None)", "Union", lambda: Union(Int, Str, None))
    add("Either(Range01,Str)", "Either", lambda: Either(Range(0.0, 1.0), Str))
    add("Either(Tuple(Int,Int),None)", "Either", lambda: Either(Tuple(Int, Int), None))
    add("Either(Instance(Plain),Callable(nn))", "Either",
        lambda: Either(Instance(Plain), Callable(allow_none=False)))
    add("Either(List(Int),Int)", "Either", lambda: Either(List(Int), Int))
    add("Union(Enum,Float)", "Union", lambda: Union(Enum("a", "b"), Float))
    add("Union(Map,Int)", "Union", lambda: Union(Map({"yes": 1, "no": 0}), Int))
    add("Tuple(Int,Str)", "Tuple", lambda: Tuple(Int, Str))
    add("Tuple()", "Tuple", lambda: Tuple())
    add("Tuple(Tuple(Int,Int),Str)", "Tuple", lambda: Tuple(Tuple(Int, Int), Str))
    add("Tuple(Float,Range)", "Tuple", lambda: Tuple(Float, Range(0, 10)))
    add("ValidatedTuple", "Tuple", lambda: ValidatedTuple(Int, Int, fvalidate=tuple_ok))
    # legacy Trait() handlers
    add("Trait(0)", "Trait.legacy", lambda: Trait(0))
    add("Trait(0.0)", "Trait.legacy", lambda: Trait(0.0))
    add("Trait('')", "Trait.legacy", lambda: Trait(""))
    add("Trait(1,2,'a')", "Trait.legacy", lambda: Trait(1, 2, "a"))
    add("Trait('yes',{map})", "Trait.mapped", lambda: Trait("yes", {"yes": 1, "no": 0}))
    add("Trait(0,val_fn)", "Trait.function", lambda: Trait(0, val_fn))
    add("Trait(None,Plain)", "Trait.legacy", lambda: Trait(None, Plain))
    add("Trait(None,Int,Str)", "Trait.legacy", lambda: Trait(None, Int, Str))
    # containers
    add("List(Int)", "List", lambda: List(Int))
    add("List(List(Int))", "List", lambda: List(List(Int)))
    add("List(Int,1..3)", "List", lambda: List(Int, [1], minlen=1, maxlen=3))
    add("List(Int,items=False)", "List", lambda: List(Int, items=False))
    add("List(Instance(Plain))", "List", lambda: List(Instance(Plain)))
    add("CList(Int)", "List", lambda: CList(Int))
    add("Dict(Str,Int)", "Dict", lambda: Dict(Str, Int))
    add("Dict(Str,List(Int))", "Dict", lambda: Dict(Str, List(Int)))
    add("Dict(CInt,Any)", "Dict", lambda: Dict(CInt, Any, {1: "a"}))
    add("Set(Int)", "Set", lambda: Set(Int))
    add("Set(Str,{'a'})", "Set", lambda: Set(Str, {"a"}))
    add("CSet(Int)", "Set", lambda: CSet(Int))
    # instances
    add("Instance('vf.lattice.Plain')", "Instance.byname", lambda: Instance("vf.lattice.Plain"))
    add("Instance('DefTarget')", "Instance.byname", lambda: Instance("DefTarget"))
    add("Instance(Plain,())", "Instance", lambda: Instance(Plain, ()))
    add("Instance(DefTarget)", "Instance", lambda: Instance(DefTarget))
    add("Instance(DefTarget,(),{x:2})", "Instance", lambda: Instance(DefTarget, (), {"x": 2}))
    add("Instance(DefTarget,adapt=yes)", "Instance", lambda: Instance(DefTarget, adapt="yes"))
    add("Instance(IFoo,adapt=default)", "Instance", lambda: Instance(IFoo, adapt="default"))
    add("Supports(IFoo)", "Supports", lambda: Supports(IFoo))
    add("AdaptsTo(IFoo)", "Supports", lambda: AdaptsTo(IFoo))
    add("This", "This", lambda: This())
    add("This(nn)", "This", lambda: This(allow_none=False))
    add("WeakRef(Plain)", "WeakRef", lambda: WeakRef(Plain))
    add("Type(klass=byname)", "Type", lambda: Type(klass="vf.lattice.Plain"))
    add("Type()", "Type", lambda: Type())
    add("Subclass(Plain)", "Type", lambda: Subclass(Plain))
    # misc
    add("Module", "Module", lambda: Module())
    add("Expression", "Expression", lambda: Expression())
    add("UUID", "UUID", lambda: UUID())
    add("File", "File", lambda: File())
    add("Directory", "File", lambda: Directory())
    add("Password", "Str", lambda: Password())
    add("HTML", "Str", lambda: HTML())
    add("Code", "Str", lambda: Code())
    add("Int(metadata)", "Int", lambda: Int(5, desc="d", label="L", transient=True, foo=[1, 2]))
    add("Float(cmp=identity)", "Float", lambda: Float(comparison_mode=ComparisonMode.identity))
    add("Float(cmp=none)", "Float", lambda: Float(comparison_mode=ComparisonMode.none))
    add("Str(copy=ref)", "Str", lambda: Str("s", copy="ref"))
    return E


def all_specs():
    out = []
    for nm, (kind, thunk, _ref) in atomic_specs().items():
        out.append((nm, kind, thunk))
    out.extend(extra_specs())
    return out


# --------------------------------------------------------------------------- equivalence
def _identity_eq(t):
    return getattr(t, "__eq__", None) is object.__eq__


_SELF_PAIR = [None, None]     # the two host instances of the install scripts being compared


def equiv(a, b, depth=0):
    """Behavioural equivalence of two values produced by the original and the
    round-tripped definition (objects without value equality compare by type
    and attributes; random-by-design UUIDs by type; the two host objects of the
    install scripts correspond to each other)."""
    if a is b:
        return True
    if a is _SELF_PAIR[0] and b is _SELF_PAIR[1]:
        return True
    if type(a) is not type(b):
        return False
    if same(a, b):
        return True
    if depth > 6:
        return True
    if isinstance(a, (list, tuple)):
        return len(a) == len(b) and all(equiv(x, y, depth + 1) for x, y in zip(a, b))
    if isinstance(a, dict):
        if len(a) != len(b):
            return False
        for k in a:
            if k not in b or not equiv(a[k], b[k], depth + 1):
                return False
        return True
    if isinstance(a, (set, frozenset)):
        return False
    if isinstance(a, uuid.UUID):
        return True
    if isinstance(a, weakref.ReferenceType):
        return equiv(a(), b(), depth + 1)
    if isinstance(a, types.MethodType):
        return a.__func__ is b.__func__ and type(a.__self__) is type(b.__self__)
    if isinstance(a, (types.FunctionType, types.BuiltinFunctionType)):
        return getattr(a, "__qualname__", None) == getattr(b, "__qualname__", None)
    if isinstance(a, CTrait):
        return (type(a.handler) is type(b.handler)
                and equiv(a.default_value(), b.default_value(), depth + 1))
    if isinstance(a, HasTraits):
        try:
            return equiv(a.trait_get(), b.trait_get(), depth + 1)
        except Exception:
            return True
    if _identity_eq(type(a)):
        da, db = getattr(a, "__dict__", None), getattr(b, "__dict__", None)
        if isinstance(da, dict) and isinstance(db, dict):
            return equiv(da, db, depth + 1)
        return True
    return False


def outcome(fn, *args):
    try:
        return ("ok", fn(*args))
    except TraitError:
        return ("TE", None)
    except Exception as e:  # noqa: BLE001
        return ("EXC", type(e).__name__)


def out_equiv(a, b):
    if a[0] != b[0]:
        return False
    if a[0] == "ok":
        return equiv(a[1], b[1])
    return a[1] == b[1]


def out_class(o):
    if o[0] == "ok":
        return "ok"
    return o[0] if o[0] == "TE" else "EXC:" + str(o[1])


# --------------------------------------------------------------------------- round trips
def rt_pickle0(ct):
    return pickle.loads(pickle.dumps(ct, 0))


def rt_pickle2(ct):
    return pickle.loads(pickle.dumps(ct, 2))


def rt_pickle5(ct):
    return pickle.loads(pickle.dumps(ct, 5))


def rt_deepcopy(ct):
    return copy_mod.deepcopy(ct)


def rt_copy(ct):
    return copy_mod.copy(ct)


MODES = [("pickle0", "pickle", rt_pickle0), ("pickle2", "pickle", rt_pickle2),
         ("pickle5", "pickle", rt_pickle5), ("deepcopy", "deepcopy", rt_deepcopy),
         ("copy", "copy", rt_copy)]

FLAG_ATTRS = ("is_property", "is_mapped", "comparison_mode", "setattr_original_value",
              "post_setattr_original_value", "modify_delegate", "type", "default_kind",
              "property_fields")

PROBE_IDS = ("None", "int:1", "int:0", "int:7", "True", "float:0.5", "float:1.5", "nan:1",
             "str:'a'", "str:'yes'", "str:'y'", "str:'abc'", "str:'12'", "bytes:b'a'",
             "tuple:(1,2)", "tuple:(1,'a')", "list:[1,2]", "list:[1,'a']", "set:{1}",
             "dict:{'a':1}", "Plain()", "function", "module:sys", "int:1e19:616", "date",
             "np.array([1.,2.])", "Idx(3)", "class:Plain", "np.float64(0.5)")


def def_values():
    vals = lattice()
    vals.append(("DefTarget()", "hastraits", DefTarget()))
    vals.append(("PropHost()", "hastraits", PropHost()))
    vals.append(("FooImpl()", "hastraits", FooImpl()))
    vals.append(("class:DefTarget", "class", DefTarget))
    vals.append(("class:PlainSub", "class", PlainSub))
    vals.append(("uuid", "uuid", uuid.UUID(int=5)))
    vals.append(("str:uuid", "str", "00000000-0000-0000-0000-000000000005"))
    vals.append(("str:expr", "str", "1+1"))
    return vals


def install_script(ct, probes, tag):
    """Install `ct` as attribute x of a fresh class and run a fixed script;
    returns the list of (step, outcome)."""
    out = []
    try:
        K = MetaHasTraits("K_" + tag, (DefHostBase,), {"x": ct})
        k = K()
    except Exception as e:  # noqa: BLE001
        return [("install", ("EXC", type(e).__name__))], None
    me = repr(k)

    def outcome_n(fn, *args):
        o = outcome(fn, *args)
        if o[0] == "ok" and isinstance(o[1], (str, bytes)):
            r = o[1]
            if isinstance(r, str) and me in r:
                return ("ok", r.replace(me, "<SELF>"))
            if isinstance(r, bytes) and me.encode() in r:
                return ("ok", r.replace(me.encode(), b"<SELF>"))
        return o
    events = []

    def rec(obj, name, old, new):
        events.append((name, old, new))
    try:
        k.on_trait_change(rec, "x")
        out.append(("listen", ("ok", None)))
    except Exception as e:  # noqa: BLE001
        out.append(("listen", ("EXC", type(e).__name__)))
    out.append(("get0", outcome_n(getattr, k, "x")))
    for vid, v in probes:
        if v is SELF:
            v = k
        out.append(("set:" + vid, outcome_n(setattr, k, "x", v)))
        out.append(("get:" + vid, outcome_n(getattr, k, "x")))
        out.append(("shadow:" + vid, outcome_n(getattr, k, "x_")))
        out.append(("target:" + vid, outcome_n(lambda: (k.p.x, k.p.q, k.p.pre_x, k._q, k._p))))
    out.append(("del", outcome_n(delattr, k, "x")))
    out.append(("get-after-del", outcome_n(getattr, k, "x")))
    def norm_s(v):
        if isinstance(v, str) and me in v:
            return v.replace(me, "<SELF>")
        return v
    out.append(("events", ("ok", [(n, norm_s(o), norm_s(nw)) for n, o, nw in events])))
    return out, k


SELF = object()
HUGE = ("huge", None)


def compare_state_ints(a, b):
    try:
        sa, sb = a.__getstate__(), b.__getstate__()
    except Exception:  # noqa: BLE001
        return True
    if not (isinstance(sa, tuple) and isinstance(sb, tuple) and len(sa) == len(sb)):
        return True
    for x, y in zip(sa, sb):
        if type(x) is int and type(y) is int and x != y:
            return False
    return True


def holds_harness_local_callable(ct):
    """True when the definition's state refers to a function defined locally inside a
    harness (vf.*) function: pickle cannot name such a function, whatever traits does."""
    seen = set()

    def walk(x, depth):
        if depth > 6 or id(x) in seen:
            return False
        seen.add(id(x))
        if isinstance(x, types.FunctionType):
            return "<locals>" in x.__qualname__ and (x.__module__ or "").startswith("vf.")
        if isinstance(x, types.MethodType):
            return walk(x.__func__, depth + 1) or walk(x.__self__, depth + 1)
        if isinstance(x, (tuple, list, set, frozenset)):
            return any(walk(e, depth + 1) for e in x)
        if isinstance(x, dict):
            return any(walk(e, depth + 1) for e in x.values())
        if isinstance(x, type) or isinstance(x, types.ModuleType):
            return False
        d = getattr(x, "__dict__", None)
        if isinstance(d, dict):
            return any(walk(e, depth + 1) for e in d.values())
        return False
    return walk(ct.__getstate__(), 0)


def check_kind(ctx, name, kind, thunk, values, probes):
    """All round-trip modes for one definition kind."""
    t = thunk()
    if isinstance(t, type) and issubclass(t, HasTraits):
        # the shared catalogue may hand out a class whose trait `x` is the definition
        ct = t().trait("x")
    elif isinstance(t, CTrait):
        ct = t
    elif hasattr(t, "as_ctrait"):
        ct = t.as_ctrait()
    else:
        ct = None
    if ct is None:
        ctx.count("def_specs_not_a_definition")
        return
    harness_local = holds_harness_local_callable(ct)
    host = PropHost()
    base_val = [outcome(ct.validate, host, "x", v) for (_i, _c, v) in values]
    # cost control: a conversion that builds a giant object (bytes(2**31) is 2 GB of zeros) is
    # evaluated once here and not again for every round-trip mode
    base_val = [HUGE if (o[0] == "ok" and isinstance(o[1], (bytes, str, bytearray)) and len(o[1]) > 10 ** 6)
                else o for o in base_val]
    base_install, _k0 = install_script(ct, probes, "orig")
    ctx.count("def_kinds")
    for mode, mclass, fn in MODES:
        ctx.count("def_roundtrips_attempted")
        ctx.ev()
        try:
            rt = fn(ct)
        except Exception as e:  # noqa: BLE001
            if harness_local and mclass == "pickle":
                # the spec of the shared catalogue embeds a harness-local callable (a lambda
                # validator, a closure getter): that pickle cannot name it says nothing about traits
                ctx.count("def_harness_callable_not_picklable")
                continue
            ctx.sig("def", kind, mclass, "raised", type(e).__name__)
            ctx.violation("def/%s/%s/%s" % (mclass, type(e).__name__, kind),
                          "%s of the CTrait of %s raised %s: %s"
                          % (mode, name, type(e).__name__, short(e, 300)),
                          {"spec": name, "mode": mode})
            continue
        ctx.count("def_roundtrips")
        if ctx.phase == "defs":
            ctx.count("def_roundtrips_sanitized")
        complaint = detail = None
        if type(rt) is not type(ct):
            complaint, detail = "type-differs", "%s vs %s" % (type(ct), type(rt))
        # validate on the whole lattice
        classes = set()
        if complaint is None:
            for (vid, vclass, v), ob in zip(values, base_val):
                if ob is HUGE:
                    ctx.count("def_huge_conversions_skipped")
                    continue
                ctx.ev()
                ctx.count("def_validate_comparisons")
                orr = outcome(rt.validate, host, "x", v)
                classes.add(("v", vclass, out_class(orr)))
                classes.add(("k", kind, out_class(orr)))
                if not out_equiv(ob, orr):
                    # the original again: a definition may legitimately be stateful (e.g. a lazily
                    # resolved class name), compare like with like before complaining
                    oa = outcome(ct.validate, host, "x", v)
                    if not out_equiv(oa, orr):
                        complaint = "validate-differs"
                        detail = "validate(%s): original %s, round-tripped %s" % (
                            vid, short(oa, 120), short(orr, 120))
                        break
        if complaint is None:
            ctx.ev()
            da, db = outcome(ct.default_value), outcome(rt.default_value)
            if not out_equiv(da, db):
                complaint, detail = "default-differs", "%s vs %s" % (short(da, 150), short(db, 150))
        if complaint is None:
            ctx.ev()
            ma, mb = ct.__dict__ or {}, rt.__dict__ or {}
            if set(ma) != set(mb):
                complaint = "metadata-differs"
                detail = "keys %r vs %r" % (sorted(ma), sorted(mb))
            elif not equiv(ma, mb):
                bad = [k for k in ma if not equiv(ma[k], mb[k])]
                complaint = "metadata-differs"
                detail = "values of %r: %s vs %s" % (bad, short([ma[k] for k in bad], 150),
                                                     short([mb[k] for k in bad], 150))
        if complaint is None:
            inst, k_rt = install_script(rt, probes, mode)
            ref_inst, k_ref = base_install, _k0
            _SELF_PAIR[0], _SELF_PAIR[1] = k_ref, k_rt
            for (sa, oa), (sb, ob) in zip(ref_inst, inst):
                ctx.ev()
                ctx.count("def_install_steps")
                if sa != sb or not out_equiv(oa, ob):
                    complaint = "install-differs"
                    detail = "step %s: original %s, round-tripped %s" % (sa, short(oa, 120), short(ob, 120))
                    break
                classes.add(("i", kind, sb.split(":")[0], out_class(ob)))
            _SELF_PAIR[0] = _SELF_PAIR[1] = None
            if complaint is None and len(inst) != len(ref_inst):
                complaint, detail = "install-differs", "script lengths %d vs %d" % (len(ref_inst), len(inst))
        if complaint is None:
            for attr in FLAG_ATTRS:
                ctx.ev()
                fa, fb = outcome(getattr, ct, attr), outcome(getattr, rt, attr)
                if not out_equiv(fa, fb):
                    complaint = "flags-differ"
                    detail = "%s: %s vs %s" % (attr, short(fa, 100), short(fb, 100))
                    break
        if complaint is None:
            ctx.ev()
            if not compare_state_ints(ct, rt):
                complaint = "flags-differ"
                detail = "integer fields of __getstate__(): %r vs %r" % (
                    [x for x in ct.__getstate__() if type(x) is int],
                    [x for x in rt.__getstate__() if type(x) is int])
        for c in classes:
            ctx.sig("def", c)
        ctx.sig("def", kind, mclass, complaint)
        if complaint:
            ctx.violation("def/%s/%s/%s" % (mclass, complaint, kind),
                          "%s of the CTrait of %s: %s: %s" % (mode, name, complaint, detail),
                          {"spec": name, "mode": mode, "detail": detail})
        else:
            ctx.count("def_roundtrips_equivalent")


def run_defs(ctx, shard_offset=0):
    specs = all_specs()
    ctx.note("def_catalogue_size", len(specs))
    values = None
    for i, (name, kind, thunk) in enumerate(specs):
        if not ctx.mine(i + shard_offset):
            continue
        if not ctx.begin("def:%s:%d:%s" % (ctx.phase, i, name[:70]), {"kind": kind, "spec": name}):
            continue
        try:
            if values is None:
                values = def_values()
                byid = {vid: v for vid, _c, v in values}
                probes = [(pid, byid[pid]) for pid in PROBE_IDS if pid in byid]
                probes.append(("DefTarget()", DefTarget(x=6)))
                probes.append(("SELF", SELF))
                probes.append(("FooImpl()", FooImpl()))
            check_kind(ctx, name, kind, thunk, values, probes)
            if i % 41 == 0:
                ctx.sample({"sub": "defs", "spec": name, "kind": kind, "modes": [m[0] for m in MODES],
                            "lattice_values": len(values)})
        finally:
            ctx.end()
