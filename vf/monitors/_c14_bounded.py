"""C14 sub-check A, family `bounded`: length-bounded trait containers with non-default contents.

A List trait may bound the length of its value (minlen / maxlen).  The bound is part of
what a copy has to carry: the copy must hold the original's (non-default) items in a
container that is legal for the bound, and the bound must still be enforced there.  A
copy routine that builds its result incrementally (empty shell first, too many items at
once, item by item through the validating mutators) passes through lengths that the
trait forbids; unbounded lists -- all that the other families have -- never notice.

Classes: `Bounded` declares every placement of a bound: minimum only, minimum and
maximum, fixed length (minlen == maxlen), maximum only, a bounded list of instances with
a dynamic default, bounded inner lists of a List / of Dict values (with and without
copy='deep' metadata) / of a Tuple item, an outer bound over unbounded inner lists,
per-trait copy='shallow' / 'ref' metadata, a transient bounded list, a bounded list inside
the items of a List(Instance) and nested `Bounded` objects (Instance, List(Instance)).
States: random legal contents (lengths at the minimum, in between, at the maximum) plus
a short random history of list mutators whose illegal steps are rejected.

Per (state, copy mode): the copy did not raise, has the class, equal values trait by
trait (a clone that silently fell back to the default is a value difference), transient
back at the default, no container shared under a deep policy; then on EVERY bounded list
reachable in the copy: an invalid item, an underflow (shrinking below the minimum) and an
overflow (growing above the maximum) are rejected with TraitError and change nothing, a
valid replacement / growth / shrink within the bounds is accepted, the copy's items
handler and observer fire exactly once and nothing fires on the original; finally the
original is unchanged.  The bounded container values themselves also go through
copy.deepcopy / copy.copy / pickle directly.
"""
import collections
import copy as copy_mod
import pickle

from traits.api import (
    HasTraits, TraitError, Int, CInt, Str, List, Dict, Tuple, Instance, observe,
)

from vf.util import same, short
from vf.monitors import _c14_objs as A

BLOG = []


def _log(obj, tag):
    BLOG.append((obj, tag))


class BWay(HasTraits):
    label = Str
    marks = List(Int, [0], minlen=1, maxlen=3)


class Bounded(HasTraits):
    tag = Str
    free = List(Int)                                            # control: no bound at all
    lo = List(Int, [0], minlen=1)
    band = List(Int, [0], minlen=1, maxlen=4)
    fixed = List(CInt, [0, 0, 0], minlen=3, maxlen=3)
    pair = List(Str, ["a", "b"], minlen=2)
    cap = List(Int, maxlen=2)
    stops = List(Instance(BWay), minlen=2)
    rows = List(List(Int, minlen=1, maxlen=3), maxlen=4)
    grid = List(List(Int), [[0]], minlen=1)
    table = Dict(Str, List(Int, minlen=1, maxlen=3))
    table_deep = Dict(Str, List(Int, minlen=2), copy="deep")
    tl = Tuple(List(Int, [7], minlen=1), Int, copy="deep")
    lo_sh = List(Int, [0], minlen=1, copy="shallow")
    lo_ref = List(Int, [0], minlen=1, copy="ref")
    t_lo = List(Int, [0], minlen=1, transient=True)
    peer = Instance("Bounded")
    peers = List(Instance("Bounded"), maxlen=3)

    def _stops_default(self):
        return [BWay(label="start"), BWay(label="end")]

    def _lo_items_changed(self, event):
        _log(self, "lo_items")

    def _band_items_changed(self, event):
        _log(self, "band_items")

    def _fixed_items_changed(self, event):
        _log(self, "fixed_items")

    def _pair_items_changed(self, event):
        _log(self, "pair_items")

    def _cap_items_changed(self, event):
        _log(self, "cap_items")

    def _stops_items_changed(self, event):
        _log(self, "stops_items")

    @observe("lo.items, band.items, fixed.items, pair.items, cap.items, stops.items")
    def _o_top(self, event):
        _log(self, "o:top.items")

    @observe("rows.items.items")
    def _o_rows(self, event):
        _log(self, "o:rows.items.items")

    @observe("table.items.items")
    def _o_table(self, event):
        _log(self, "o:table.items.items")


PERSISTENT = ("tag", "free", "lo", "band", "fixed", "pair", "cap", "stops", "rows", "grid", "table",
              "table_deep", "tl", "lo_sh", "lo_ref", "peer", "peers")
TRANSIENT = ("t_lo",)
# trait -> structural kind used in mechanism keys
KIND = {
    "tag": "scalar", "free": "list.unbounded", "lo": "list.min", "band": "list.min-max", "fixed": "list.fixed",
    "pair": "list.min", "cap": "list.max", "stops": "list.min.instances", "rows": "list.inner-min",
    "grid": "list.outer-min", "table": "dict-value.min", "table_deep": "dict-value.min.copy-deep",
    "tl": "tuple-item.min", "lo_sh": "list.min.copy-shallow", "lo_ref": "list.min.copy-ref",
    "t_lo": "list.min.transient", "peer": "nested-object", "peers": "nested-object",
}
# top-level bounded lists: name -> (minlen, maxlen, valid item factory, static handler tag or None)
TOP = {
    "lo": (1, None, lambda: 5, "lo_items"), "band": (1, 4, lambda: 5, "band_items"),
    "fixed": (3, 3, lambda: "8", "fixed_items"), "pair": (2, None, lambda: "zz", "pair_items"),
    "cap": (0, 2, lambda: 5, "cap_items"), "stops": (2, None, lambda: BWay(label="new"), "stops_items"),
    "grid": (1, None, lambda: [1], None), "lo_sh": (1, None, lambda: 5, None),
    "lo_ref": (1, None, lambda: 5, None), "t_lo": (1, None, lambda: 5, None),
}
OBSERVED_TOP = ("lo", "band", "fixed", "pair", "cap", "stops")
SITES_PER_COPY = 18

A.EXTRA_PERSISTENT[Bounded] = PERSISTENT
A.EXTRA_PERSISTENT[BWay] = ("label", "marks")

BMODES = A.COPY_MODES + [
    ("clone-all-deep", "clone-all-deep", lambda o: o.clone_traits(traits="all", copy="deep")),
]


# --------------------------------------------------------------------------- states
def _ints(rng, n):
    return [rng.randint(1, 99) for _ in range(n)]


def _length(rng, mn, mx):
    """A legal length: at the minimum, at the maximum or in between."""
    hi = mx if mx is not None else mn + 4
    r = rng.random()
    if r < 0.3:
        return mn
    if r < 0.55:
        return hi
    return rng.randint(mn, hi)


def fill(rng, o, p=0.75):
    """Give a random subset of the bounded traits random legal, non-default contents."""
    if rng.random() < p:
        o.free = _ints(rng, rng.randint(0, 3))
    if rng.random() < p:
        o.lo = _ints(rng, _length(rng, 1, None))
    if rng.random() < p:
        o.band = _ints(rng, _length(rng, 1, 4))
    if rng.random() < p:
        o.fixed = [rng.choice([1, "2", 3.7]) for _ in range(3)]
    if rng.random() < p:
        o.pair = [rng.choice(["p", "q", "rr"]) for _ in range(_length(rng, 2, None))]
    if rng.random() < p:
        o.cap = _ints(rng, _length(rng, 0, 2))
    if rng.random() < p:
        o.stops = [BWay(label="w%d" % i, marks=_ints(rng, _length(rng, 1, 3)))
                   for i in range(_length(rng, 2, 5))]
    if rng.random() < p:
        o.rows = [_ints(rng, _length(rng, 1, 3)) for _ in range(_length(rng, 0, 4))]
    if rng.random() < p:
        o.grid = [_ints(rng, rng.randint(0, 2)) for _ in range(_length(rng, 1, 3))]
    if rng.random() < p:
        o.table = {k: _ints(rng, _length(rng, 1, 3)) for k in rng.sample(["a", "b", "c"], rng.randint(0, 3))}
    if rng.random() < p:
        o.table_deep = {k: _ints(rng, _length(rng, 2, None)) for k in rng.sample(["a", "b", "c"], rng.randint(0, 3))}
    if rng.random() < p:
        o.tl = (_ints(rng, _length(rng, 1, None)), rng.randint(0, 9))
    if rng.random() < p:
        o.lo_sh = _ints(rng, _length(rng, 1, None))
    if rng.random() < p:
        o.lo_ref = _ints(rng, _length(rng, 1, None))
    if rng.random() < p:
        o.t_lo = _ints(rng, _length(rng, 1, None))


LIST_OPS = ["append", "insert", "extend", "pop", "delitem", "delslice", "setitem", "setslice", "clear", "iadd",
            "imul", "reverse", "sort", "remove"]


def mutate(rng, l, make):
    op = rng.choice(LIST_OPS)
    n = len(l)
    if op == "append":
        l.append(make())
    elif op == "insert":
        l.insert(rng.randint(0, n), make())
    elif op == "extend":
        l.extend([make() for _ in range(rng.randint(0, 3))])
    elif op == "pop":
        l.pop()
    elif op == "delitem":
        del l[rng.randrange(max(n, 1))]
    elif op == "delslice":
        del l[rng.randint(0, n):]
    elif op == "setitem":
        l[rng.randrange(max(n, 1))] = make()
    elif op == "setslice":
        i = rng.randint(0, n)
        l[i:i + rng.randint(0, 2)] = [make() for _ in range(rng.randint(0, 3))]
    elif op == "clear":
        l.clear()
    elif op == "iadd":
        l += [make()]
    elif op == "imul":
        l *= rng.randint(0, 2)
    elif op == "reverse":
        l.reverse()
    elif op == "sort":
        if not any(isinstance(x, HasTraits) for x in l):
            l.sort(key=repr)
    elif op == "remove":
        if n:
            l.remove(l[rng.randrange(n)])


def history(rng, o, nops):
    """Random mutators on random bounded lists; illegal steps are rejected by the library."""
    done = 0
    for _ in range(nops):
        sites = list(bounded_sites(o, own=None))
        if not sites:
            break
        kind, l, mn, mx, make, top, _owner = sites[rng.randrange(len(sites))]
        try:
            mutate(rng, l, make)
            done += 1
        except (TraitError, IndexError, ValueError, TypeError):
            pass
    return done


def make_state(rng):
    """(root, number of Bounded nodes).  Trees only: peer / peers hold fresh objects."""
    root = Bounded(tag="b0")
    fill(rng, root)
    nodes = [root]
    shape = rng.randrange(4)
    if shape in (1, 3):
        k = Bounded(tag="b%d" % len(nodes))
        fill(rng, k)
        root.peer = k
        nodes.append(k)
    if shape in (2, 3):
        for _ in range(rng.randint(1, 2)):
            k = Bounded(tag="b%d" % len(nodes))
            fill(rng, k, 0.5)
            root.peers.append(k)
            nodes.append(k)
    for n in nodes:
        history(rng, n, rng.randint(0, 6))
    del BLOG[:]
    return root, len(nodes)


# --------------------------------------------------------------------------- walks
def bounded_sites(o, own, prefix=""):
    """(kind, list object, minlen, maxlen, valid item factory, top-level trait name or None, owner) for
    every bounded list reachable from the Bounded object o (the owner is carried along because a trait
    list only knows its owner weakly: a list whose owner has been collected validates nothing).  `own`: ids of objects that must not be entered
    (the original's, when walking a copy that may legitimately hold references), or None."""
    for nm, (mn, mx, make, _tag) in TOP.items():
        yield (KIND[nm], getattr(o, nm), mn, mx, make, nm if not prefix else None, o)
    yield ("list.outer-max", o.rows, 0, 4, lambda: [1], None, o)
    for il in list(o.rows):
        yield ("list.inner-min", il, 1, 3, lambda: 5, None, o)
    for v in list(o.table.values()):
        yield ("dict-value.min", v, 1, 3, lambda: 5, None, o)
    for v in list(o.table_deep.values()):
        yield ("dict-value.min.copy-deep", v, 2, None, lambda: 5, None, o)
    yield ("tuple-item.min", o.tl[0], 1, None, lambda: 5, None, o)
    for w in list(o.stops):
        if own is None or id(w) not in own:
            yield ("instance.list.min-max", w.marks, 1, 3, lambda: 5, None, w)
    kids = ([o.peer] if o.peer is not None else []) + list(o.peers)
    for k in kids:
        if own is None or id(k) not in own:
            for s in bounded_sites(k, own, prefix + "."):
                yield s


def plain(x):
    """Hashable-free canonical value: nodes by class and persistent traits (trees only)."""
    if isinstance(x, Bounded):
        return ("Bounded", {nm: plain(getattr(x, nm)) for nm in PERSISTENT})
    if isinstance(x, BWay):
        return ("BWay", x.label, plain(x.marks))
    if isinstance(x, list):
        return [plain(e) for e in x]
    if isinstance(x, tuple):
        return tuple(plain(e) for e in x)
    if isinstance(x, dict):
        return {k: plain(v) for k, v in x.items()}
    return x


def full_plain(o):
    return (plain(o), _transients(o))


def _transients(o):
    out = [plain(o.t_lo)]
    for k in ([o.peer] if o.peer is not None else []) + list(o.peers):
        out.append(_transients(k))
    return out


def pairs(O, C):
    """Matched (original node, copy node) pairs of the two trees."""
    out = [(O, C)]
    if O.peer is not None and C.peer is not None:
        out.extend(pairs(O.peer, C.peer))
    for a, b in zip(O.peers, C.peers):
        out.extend(pairs(a, b))
    return out


# --------------------------------------------------------------------------- battery on one bounded list
class Stop(Exception):
    pass


def _ids(l):
    return [id(x) for x in l]


def probe_site(ctx, rng, mode, mclass, C, onode_ids, site, fail):
    kind, l, mn, mx, make, top, _owner = site
    n = len(l)
    ctx.count("bounded_sites_probed")

    def rejected(what, action):
        before = _ids(l)
        try:
            action()
            out = "ok"
        except TraitError:
            out = "TE"
        except Exception as e:  # noqa: BLE001
            out = type(e).__name__
        ctx.ev()
        if out == "ok":
            fail("%s-accepted/%s" % (what, kind), "%s on a %s of length %d (bounds %r..%r) of the copy was "
                 "accepted: now %s" % (what, kind, n, mn, mx, short(list(l), 80)))
        if out != "TE":
            fail("%s-wrong-exception/%s" % (what, kind), "%s raised %s" % (what, out))
        if _ids(l) != before:
            fail("%s-changed-on-rejection/%s" % (what, kind), "%s was rejected but the list changed" % what)
        ctx.count("bounded_rejections")

    # the copy's container is legal to begin with
    ctx.ev()
    if n < mn or (mx is not None and n > mx):
        fail("illegal-length-in-copy/%s" % kind, "a %s of the copy has length %d, bounds %r..%r" % (kind, n, mn, mx))
    # invalid item
    bad = object()
    if n:
        rejected("invalid-item", lambda: l.__setitem__(rng.randrange(n), bad))
    elif mx is None or n < mx:
        rejected("invalid-item", lambda: l.append(bad))
    # underflow
    if mn >= 1:
        under = rng.choice(["clear", "delslice", "pop-run", "setslice", "imul0"])

        def shrink():
            if under == "clear":
                l.clear()
            elif under == "delslice":
                del l[mn - 1:]
            elif under == "setslice":
                l[:] = [make() for _ in range(mn - 1)]
            elif under == "imul0":
                l.__imul__(0)
            else:
                del l[0:n - mn + 1]
        rejected("underflow", shrink)
        ctx.count("bounded_underflows_rejected")
    # overflow
    if mx is not None:
        over = rng.choice(["extend", "iadd", "setslice", "insert-run"])
        extra = [make() for _ in range(mx - n + 1)]

        def grow():
            if over == "extend":
                l.extend(extra)
            elif over == "iadd":
                l.__iadd__(extra)
            elif over == "setslice":
                l[n:n] = extra
            else:
                l[0:0] = extra
        rejected("overflow", grow)
        ctx.count("bounded_overflows_rejected")
    # valid mutations within the bounds; exactly-once notification for the observed top-level lists
    actions = []
    if n:
        actions.append(("setitem", lambda: l.__setitem__(rng.randrange(n), make()), n))
    if mx is None or n < mx:
        actions.append(("append", lambda: l.append(make()), n + 1))
    if n > mn:
        actions.append(("pop", lambda: l.pop(), n - 1))
    what, action, want_len = actions[rng.randrange(len(actions))]
    del BLOG[:]
    try:
        action()
    except Exception as e:  # noqa: BLE001
        fail("valid-mutation-raised/%s" % kind, "%s on a %s of length %d (bounds %r..%r) raised %s: %s"
             % (what, kind, n, mn, mx, type(e).__name__, short(e, 120)))
    ctx.ev()
    if len(l) != want_len:
        fail("valid-mutation-wrong-length/%s" % kind, "%s: length %d -> %d" % (what, n, len(l)))
    if kind == "list.fixed" and not all(type(x) is int for x in l):
        fail("stored-not-converted/%s" % kind, "stored %s" % short(list(l), 60))
    seen = collections.Counter((id(o), tag) for o, tag in BLOG)
    on_orig = [tag for (oid, tag) in seen if oid in onode_ids]
    del BLOG[:]
    ctx.count("bounded_valid_mutations")
    if on_orig:
        fail("event-on-original/%s" % kind, "%s on the copy's %s fired %r on the original" % (what, kind, on_orig))
    if top is not None and top in OBSERVED_TOP:
        exp = {(id(C), TOP[top][3]): 1, (id(C), "o:top.items"): 1}
        for key, cnt in exp.items():
            got = seen.get(key, 0)
            if got == 0:
                fail("handler-not-fired/%s" % kind, "%s on the copy's %s: %r never fired (saw %s)"
                     % (what, top, key[1], sorted(t for _i, t in seen)))
            if got != cnt:
                fail("handler-fired-%dx/%s" % (min(got, 3), kind), "%s on the copy's %s: %r fired %d times"
                     % (what, top, key[1], got))
        for key in seen:
            if key not in exp:
                fail("unexpected-event/%s" % kind, "%s on the copy's %s also fired %r" % (what, top, key[1]))
        ctx.count("bounded_notify_probes")
    ctx.sig("bounded-site", mclass, kind, min(n - mn, 2), None if mx is None else min(mx - n, 2), what)


# --------------------------------------------------------------------------- per (state, mode)
_FRESH = []


def _fresh():
    """A never-touched instance (read only): the defaults."""
    if not _FRESH:
        _FRESH.append(Bounded())
    return _FRESH[0]


def shared(C, mclass, oconts, onodes):
    """[(kind, what)] containers / objects of the copy that are the original's where the policy
    does not allow it.  Traits without copy metadata are not judged under copy.deepcopy (that
    class has its own family and finding)."""
    bad = []

    def deep(x, kind):
        stack = [x]
        while stack:
            y = stack.pop()
            if isinstance(y, HasTraits):
                if id(y) in onodes:
                    bad.append((kind, "instance:" + type(y).__name__))
                else:
                    node(y)
            elif A.is_cont(y):
                if id(y) in oconts:
                    bad.append((kind, type(y).__name__))
                else:
                    stack.extend(A.children_of(y))
            elif isinstance(y, tuple):
                stack.extend(y)

    def node(n):
        names = (PERSISTENT + TRANSIENT) if isinstance(n, Bounded) else ("marks",)
        for nm in names:
            meta = n.base_trait(nm).copy
            if meta is None and mclass == "deepcopy":
                continue
            eff = A.effective(mclass, meta)
            v = getattr(n, nm)
            kind = KIND.get(nm, "instance.list.min-max")
            if eff == "ref":
                continue
            if eff == "shallow":
                if A.is_cont(v) and id(v) in oconts:
                    bad.append((kind, "top:" + type(v).__name__))
                continue
            deep(v, kind)
    node(C)
    return bad


def check_bounded_copy(ctx, rng, mode, mclass, fn, O, nnodes):
    ctx.count("bounded_copies")
    before = full_plain(O)
    oconts, onodes = A.reach_all(O)
    for n in list(onodes.values()):
        if isinstance(n, Bounded):
            oconts[id(n.t_lo)] = n.t_lo
    del BLOG[:]
    try:
        C = fn(O)
    except Exception as e:  # noqa: BLE001
        ctx.violation("bounded/%s/copy-raised/%s" % (mclass, type(e).__name__),
                      "%s of a %d-node Bounded state raised %s: %s" % (mode, nnodes, type(e).__name__, short(e, 200)),
                      {"mode": mode})
        return
    del BLOG[:]
    ctx.ev()
    if type(C) is not Bounded:
        ctx.violation("bounded/%s/class-differs" % mclass, "%s gave a %s" % (mode, type(C).__name__), {"mode": mode})
        return
    # values, trait by trait, at every node
    fresh = _fresh()
    for depth, (a, b) in enumerate(pairs(O, C)):
        for nm in PERSISTENT:
            if nm in ("peer", "peers"):
                va = (a.peer is not None, len(a.peers))
                vb = (b.peer is not None, len(b.peers))
            else:
                va, vb = plain(getattr(a, nm)), plain(getattr(b, nm))
            ctx.ev()
            ctx.count("bounded_values_compared")
            if KIND[nm] != "list.unbounded" and KIND[nm] != "scalar" and not same(va, plain(getattr(fresh, nm))) \
                    and nm not in ("peer", "peers"):
                ctx.count("bounded_nondefault_values_compared")
            if not same(va, vb):
                at_default = nm not in ("peer", "peers") and same(vb, plain(getattr(fresh, nm)))
                ctx.violation("bounded/%s/value-%s/%s" % (mclass, "back-at-default" if at_default else "differs",
                                                          KIND[nm]),
                              "%s: trait %s (%s) of %s is %s in the original and %s in the copy%s"
                              % (mode, nm, KIND[nm], "the root" if depth == 0 else "a nested object",
                                 short(va, 70), short(vb, 70),
                                 " - the trait's default: the value was lost silently" if at_default else ""),
                              {"mode": mode, "trait": nm, "kind": KIND[nm], "nested": depth > 0})
                return
        ctx.ev()
        ctx.count("bounded_transients_checked")
        if mclass != "clone-all-deep" and not same(plain(b.t_lo), [0]):      # traits="all" asks for transients too
            ctx.violation("bounded/%s/transient-not-default" % mclass,
                          "%s: transient t_lo is %r in the copy (original %r)" % (mode, b.t_lo, a.t_lo),
                          {"mode": mode})
            return
    bad = shared(C, mclass, oconts, onodes)
    ctx.ev()
    ctx.count("bounded_sharing_checked")
    if bad:
        kind, what = bad[0]
        ctx.violation("bounded/%s/shared-container/%s" % (mclass, kind),
                      "%s: the copy shares a %s with the original under trait kind %s (%d shared in all)"
                      % (mode, what, kind, len(bad)), {"mode": mode, "all": [list(b) for b in bad[:8]]})
        return
    # liveness of every bounded list of the copy
    trace = []

    def fail(complaint, msg):
        ctx.violation("bounded/%s/%s" % (mclass, complaint), "%s copy: %s (probed so far: %s)"
                      % (mode, msg, trace[-5:]), {"mode": mode, "trace": trace[-10:]})
        raise Stop()
    onode_ids = set(onodes)
    try:
        sites = list(bounded_sites(C, own=onode_ids))
        if len(sites) > SITES_PER_COPY:
            # every top-level site of the root, a sample of the rest
            rest = sites[len(TOP):]
            rng.shuffle(rest)
            sites = sites[:len(TOP)] + rest[:SITES_PER_COPY - len(TOP)]
        for site in sites:
            if id(site[1]) in oconts:
                continue        # legitimately shared with the original (copy='ref' / shallow policies)
            trace.append((site[0], len(site[1])))
            probe_site(ctx, rng, mode, mclass, C, onode_ids, site, fail)
    except Stop:
        return
    finally:
        del BLOG[:]
    ctx.ev()
    # containers legitimately shared with the original were left alone, so this holds for every mode
    if not same(before, full_plain(O)):
        ctx.violation("bounded/%s/original-changed" % mclass,
                      "%s: mutating the copy's bounded lists changed the original (probed: %s)"
                      % (mode, trace[-6:]), {"mode": mode})
        return
    ctx.count("bounded_copies_ok")


# --------------------------------------------------------------------------- the container values themselves
CONT_MODES = [("pickle2", "pickle", lambda c: pickle.loads(pickle.dumps(c, 2))),
              ("pickle5", "pickle", lambda c: pickle.loads(pickle.dumps(c, 5))),
              ("deepcopy", "deepcopy", copy_mod.deepcopy), ("copy", "copy", copy_mod.copy)]


def check_bounded_values(ctx, rng, O):
    """copy.deepcopy / copy.copy / pickle of the bounded container values themselves, then
    re-adoption of the result by a fresh object (which must enforce the bound again)."""
    names = ["lo", "band", "fixed", "pair", "cap", "stops", "rows", "grid", "table", "table_deep"]
    for nm in rng.sample(names, 5):
        c = getattr(O, nm)
        kind = KIND[nm]
        mode, mclass, fn = CONT_MODES[rng.randrange(len(CONT_MODES))]
        ctx.count("bounded_value_copies")
        ctx.ev()
        try:
            cc = fn(c)
        except Exception as e:  # noqa: BLE001
            ctx.violation("bounded-value/%s/copy-raised/%s/%s" % (mclass, type(e).__name__, kind),
                          "%s of the %s value %s (length %d) raised %s: %s"
                          % (mode, kind, short(c, 60), len(c), type(e).__name__, short(e, 160)),
                          {"mode": mode, "trait": nm})
            return
        complaint = None
        if type(cc) is not type(c):
            complaint = "type-differs"
        elif cc is c:
            complaint = "same-object"
        elif not same(plain(c), plain(cc)):
            complaint = "content-differs"
        elif mclass != "copy":
            oc, on = A.reach_all(c)
            cc_c, cc_n = A.reach_all(cc)
            if (set(oc) & set(cc_c)) or (set(on) & set(cc_n)):
                complaint = "shared-container"
        if complaint is None:
            X = Bounded()
            try:
                setattr(X, nm, cc)
            except Exception as e:  # noqa: BLE001
                complaint = "readoption-raised-" + type(e).__name__
            else:
                if not same(plain(getattr(X, nm)), plain(c)):
                    complaint = "readoption-changed-value"
                elif nm in TOP and TOP[nm][0] >= 1:
                    try:
                        getattr(X, nm).clear()
                        complaint = "readopted-copy-accepts-underflow"
                    except TraitError:
                        pass
        del BLOG[:]
        ctx.sig("bounded-value", mclass, kind, min(len(c), 3), complaint)
        if complaint:
            ctx.violation("bounded-value/%s/%s/%s" % (mclass, complaint, kind),
                          "%s of the %s value %s: %s (copy %s)" % (mode, kind, short(c, 70), complaint, short(cc, 70)),
                          {"mode": mode, "trait": nm})
            return
        ctx.count("bounded_value_copies_ok")


def calibrate():
    """The battery's expectations must hold on a never-copied object."""
    import random

    class _Ctx:
        def __init__(self):
            self.v = []

        def ev(self, n=1):
            pass

        def count(self, *a):
            pass

        def sig(self, *a):
            pass

        def violation(self, key, msg, w=None):
            self.v.append((key, msg))
    for s in range(4):
        rng = random.Random(s)
        O, _n = make_state(rng)
        c = _Ctx()

        def fail(complaint, msg):
            c.v.append((complaint, msg))
            raise Stop()
        try:
            for site in list(bounded_sites(O, own=set())):
                probe_site(c, rng, "fresh", "fresh", O, set(), site, fail)
        except Stop:
            pass
        if c.v:
            raise RuntimeError("C14 bounded battery does not hold on a never-copied object: %r" % (c.v[:2],))
    del BLOG[:]


def run_bounded(ctx):
    calibrate()
    n = ctx.scale(64, 2400)
    per = 8
    for b in range(0, n, per):
        if not ctx.mine(b // per + 5):
            continue
        if not ctx.begin("bounded:%d" % b):
            continue
        try:
            for i in range(b, min(n, b + per)):
                for mode, mclass, fn in BMODES:
                    # a fresh original per copy mode (same history): no battery contaminates another
                    rng = ctx.rng("bounded", i)
                    O, nnodes = make_state(rng)
                    check_bounded_copy(ctx, ctx.rng("bounded-probe", i, mode), mode, mclass, fn, O, nnodes)
                ctx.count("bounded_states")
                if nnodes > 1:
                    ctx.count("bounded_states_nested")
                check_bounded_values(ctx, ctx.rng("bounded-values", i), O)
            if b == 0:
                ctx.sample({"sub": "bounded", "class": "Bounded", "kinds": sorted(set(KIND.values())),
                            "modes": [m[0] for m in BMODES]})
        finally:
            del BLOG[:]
            ctx.end()
