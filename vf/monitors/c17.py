"""C17 -- adaptation finds an adapter chain iff one exists, and a shortest one.

Per case a fresh AdaptationManager over a small generated type hierarchy
(single / multiple inheritance, ABC registration, traits Interfaces with
@provides) and <= 8 offers (duplicates, cycles, register_provides, identity
factories, Adapter / PurePythonAdapter classes, conditional factories that
return None as a pure function of the adaptee's recorded chain or of a
per-object flag, lazily imported string protocols).  All queries of a case run
as one shuffled history on the same manager (several objects per type when
factories depend on the object; optional late ABC registration in between;
re-assignment of the same object to the same trait after its flag was flipped
or an offer was registered on the live manager).  A sample of the trait
assignments is repeated on holders that carry instance-level traits (listeners
added / removed through every mechanism, add_trait, class-level listeners,
overriding subclasses, copies; see _c17_holders).

Oracle: brute-force enumeration of every sequence of distinct applicable
offers whose factories all succeed (run on a pure *model* of the factories),
from which existence, the minimum number of offers, the admissible results of
minimum length and the single-step specificity rule are derived.  The result
of `adapt` (and of Supports / AdaptsTo / Instance(adapt=...) assignment with
the manager installed globally) is judged through the chain recorded by the
instrumented adapters.  See DESIGN.md section 4 / C17.

Path length: the number of *offers* used (what the manual's "unit weight (1)
representing the fact that we use 1 adaptation offer" says); a
register_provides / identity offer is a "null adapter" and counts as one.
Because an identity step leaves no trace in the result, the verdict is on the
observable chain: it must be the visible projection of some enumerated success
with the minimum number of offers.
"""
import abc
import pickle
import sys
import types

from traits.api import (AdaptsTo, HasTraits, Instance, Int, Interface, List, Supports,
                        TraitError, Union, provides)
from traits.adaptation.api import (AdaptationError, AdaptationManager, AdaptationOffer,
                                   Adapter, PurePythonAdapter,
                                   get_global_adaptation_manager,
                                   set_global_adaptation_manager)
import traits.adaptation.api as adaptation_api

from vf.ctx import CaseTimeout
from vf.util import short
from vf.monitors import _c17_holders as HV

META = {
    "level": "exploration",
    "rule": ("case = one generated offer graph: 2-6 uniquely named classes (flavours: plain "
             "single/multiple inheritance; ABCs with register; traits Interfaces with @provides; "
             "lazily imported string protocols; each either with step-counting metaclasses or "
             "uninstrumented under a call-counting profiler), <= 8 offers of 14 kinds (always, "
             "never, 5 chain-conditional, 2 conditional on a per-object flag of the adaptee, instrumented identity, register_provides, conditional "
             "identity, PurePythonAdapter / Adapter classes) laid out by a strategy (random, chain "
             "with refused / base-type shortcuts, offers from several ancestors, cycle; one graph "
             "in ten belongs to the stratum 'a class providing several protocols, offers from "
             "several of them to one target'), registered through "
             "register_offer / register_factory / register_provides. When a factory depends on the "
             "per-object flag, 2-3 objects with different flags are created per source class; all "
             "(object, target class) queries of a graph run in one shuffled order on the SAME manager "
             "(so objects of one type with different best chains follow each other), in 30% of the "
             "graphs with an ABC a late ABC.register() happens between two queries (the enumeration "
             "is recomputed from there). After 8% of the queries the SAME object is assigned twice "
             "to the same AdaptsTo / Supports / Instance(adapt=...) / List / Union trait of the same "
             "holder instance, and between the two assignments the object's flag is flipped, an "
             "offer is registered on the live manager (own stratum: a null adapter for the object's "
             "own type), or an ABC registration is made; the stored value and the shadow after the "
             "second assignment are judged against the enumeration at that moment. One graph in ten "
             "belongs to the stratum 're-entrant factories' (<= 5 offers, <= 25 simple sequences): 1-2 "
             "factories, while the manager runs them, ask the same manager (adapt / supports_protocol / "
             "global adapt / assignment to a Supports, AdaptsTo, List(Supports) trait of a fresh holder) "
             "about a companion object - another object of the adaptee's type or of a fixed class, for "
             "the offer's own target or a fixed class - down to a depth budget of 1-2; they ignore the "
             "answer, or succeed iff / iff not the companion is supported; every nested answer is judged "
             "against the brute force one level deeper, which also feeds the model of those factories. "
             "Stratum 'holders that carry instance-level traits' (all graphs but the re-entrant ones; own random "
             "stream): after 30% of the trait-route assignments that store an adapter (5% of the others) and were "
             "judged correct on the pristine holder, the SAME object is assigned to the same trait of a holder "
             "with a history, built by one of three recipes drawn per graph from six groups - listener "
             "(obj.observe / on_trait_change on the name, the same from a parent through 'child.name', "
             "observe('*'), anytrait on_trait_change, sync_trait to a peer), listener-removed (the same, removed "
             "again before the assignment), add_trait (the same definition added to the instance, optionally "
             "followed by a listener), class-level (@observe / @on_trait_change methods, static _name_changed "
             "methods, Property(observe= / depends_on=)), subclass (overriding the traits with the same "
             "definitions over a plain or decorated base, or only inheriting from a decorated base), copy "
             "(copy.copy / deepcopy / clone_traits / pickle round trip of a holder prepared by one of the above, "
             "optionally already holding an AdaptsTo value, optionally a listener on the copy) - and judged by "
             "the same oracle (stored value = adapter vs. original with the adapter in the shadow name_, "
             "TraitError iff no chain, default substitution); holders are reused for later objects of the graph. "
             "Every (object, target "
             "class) query goes through adapt / adapt+default / supports_protocol / the global "
             "functions and through Supports, AdaptsTo, Instance(adapt=yes|default), List(Supports), "
             "Union(Supports, Int) assignment and the Python-level validate, each judged against the "
             "brute-force enumeration. distinct_nontrivial counts distinct (flavour, route, status, "
             "min offers, visible length, number of minimal candidates, identity-in-path, failing "
             "candidate present, specificity relevant, outcome, history class) signatures of judged results other "
             "than the trivial 'already provides' ones."),
    "phases": [{"name": "main", "flavour": "P", "shards": 16}],
    "gates": {
        "quick": {"evaluations": 90000, "adapt_results_judged": 45000, "chains_found": 4500,
                  "chains_len2plus": 750, "chains_len3plus": 110, "failures_checked": 6500,
                  "provides_checked": 7500, "specificity_checked": 600,
                  "specificity_checked_with_incomparable_sources": 110,
                  "failing_candidate_pairs": 900, "identity_in_min_path": 1500,
                  "trait_assignments": 45000, "trait_errors_expected": 15000,
                  "shadow_checks": 7500, "cyclic_graph_failures": 4500,
                  "graphs_uninstrumented_classes_profiled": 90, "offers_lazy_strings": 300,
                  "graphs_with_object_dependent_factories": 450,
                  "history_repeat_queries_other_object_same_type": 15000,
                  "history_admissible_set_differs_from_previous_object": 1400,
                  "history_previous_chain_works_here_but_is_not_minimal": 55,
                  "history_single_step_candidates_differ_from_previous_object": 250,
                  "late_abc_registrations": 140,
                  "queries_after_late_abc_registration": 3000,
                  "reassignments_of_same_object": 3200,
                  "reassignments_with_changed_adaptation_answer": 530,
                  "reassignments_with_changed_answer_via_AdaptsTo": 160,
                  "reassignments_with_changed_answer_via_Supports": 100,
                  "reassignments_chain_to_different_chain": 200,
                  "reassignments_after_flag-flipped": 1500,
                  "reassignments_after_offer-registered": 600,
                  "reassignments_after_null-adapter-for-own-type-registered": 250,
                  "reassignments_after_abc-registered": 240,
                  "live_offer_registrations": 850,
                  "graphs_nested_stratum": 100,
                  "nested_requests": 2000,
                  "nested_requests_same_key_as_pending_with_chain": 700,
                  "nested_requests_depth2plus": 300,
                  "nested_requests_deciding_a_conditional_factory": 1200,
                  "reentrant_factory_declined_because_of_the_nested_answer": 650,
                  "nested_requests_status_none": 280,
                  "nested_requests_via_Supports": 220,
                  "nested_requests_via_AdaptsTo": 250,
                  "nested_requests_via_supports_protocol": 160,
                  "holder_assignments": 16000,
                  "holder_assignments_storing_an_adapter": 11000,
                  "holder_assignments_storing_an_adapter_via_AdaptsTo": 1400,
                  "holder_assignments_storing_an_adapter_via_Supports": 1400,
                  "holder_assignments_to_a_holder_assigned_before": 5500,
                  "holder_copies_made": 1500,
                  "holder_assignments_storing_an_adapter_group_listener": 1800,
                  "holder_assignments_storing_an_adapter_group_listener-removed": 1800,
                  "holder_assignments_storing_an_adapter_group_add_trait": 1800,
                  "holder_assignments_storing_an_adapter_group_class-level": 1800,
                  "holder_assignments_storing_an_adapter_group_subclass": 1800,
                  "holder_assignments_storing_an_adapter_group_copy": 1800},
        "thorough": {"evaluations": 2700000, "adapt_results_judged": 1350000, "chains_found": 135000,
                     "chains_len2plus": 22500, "chains_len3plus": 3300, "failures_checked": 195000,
                     "provides_checked": 225000, "specificity_checked": 18000,
                     "specificity_checked_with_incomparable_sources": 3300,
                     "failing_candidate_pairs": 27000, "identity_in_min_path": 45000,
                     "trait_assignments": 1350000, "trait_errors_expected": 450000,
                     "shadow_checks": 225000, "cyclic_graph_failures": 135000,
                     "graphs_uninstrumented_classes_profiled": 2700, "offers_lazy_strings": 9000,
                     "graphs_with_object_dependent_factories": 13500,
                     "history_repeat_queries_other_object_same_type": 450000,
                     "history_admissible_set_differs_from_previous_object": 42000,
                     "history_previous_chain_works_here_but_is_not_minimal": 1650,
                     "history_single_step_candidates_differ_from_previous_object": 7500,
                     "late_abc_registrations": 4200,
                     "queries_after_late_abc_registration": 90000,
                     "reassignments_of_same_object": 96000,
                     "reassignments_with_changed_adaptation_answer": 15900,
                     "reassignments_with_changed_answer_via_AdaptsTo": 4800,
                     "reassignments_with_changed_answer_via_Supports": 3000,
                     "reassignments_chain_to_different_chain": 6000,
                     "reassignments_after_flag-flipped": 45000,
                     "reassignments_after_offer-registered": 18000,
                     "reassignments_after_null-adapter-for-own-type-registered": 7500,
                     "reassignments_after_abc-registered": 7200,
                     "live_offer_registrations": 25500,
                     "graphs_nested_stratum": 3000,
                     "nested_requests": 60000,
                     "nested_requests_same_key_as_pending_with_chain": 21000,
                     "nested_requests_depth2plus": 9000,
                     "nested_requests_deciding_a_conditional_factory": 36000,
                     "reentrant_factory_declined_because_of_the_nested_answer": 19500,
                     "nested_requests_status_none": 8400,
                     "nested_requests_via_Supports": 6600,
                     "nested_requests_via_AdaptsTo": 7500,
                     "nested_requests_via_supports_protocol": 4800,
                     "holder_assignments": 480000,
                     "holder_assignments_storing_an_adapter": 330000,
                     "holder_assignments_storing_an_adapter_via_AdaptsTo": 42000,
                     "holder_assignments_storing_an_adapter_via_Supports": 42000,
                     "holder_assignments_to_a_holder_assigned_before": 165000,
                     "holder_copies_made": 45000,
                     "holder_assignments_storing_an_adapter_group_listener": 54000,
                     "holder_assignments_storing_an_adapter_group_listener-removed": 54000,
                     "holder_assignments_storing_an_adapter_group_add_trait": 54000,
                     "holder_assignments_storing_an_adapter_group_class-level": 54000,
                     "holder_assignments_storing_an_adapter_group_subclass": 54000,
                     "holder_assignments_storing_an_adapter_group_copy": 54000},
    },
    "assumptions": [
        "issubclass is the 'provides' relation (as AdaptationManager.provides_protocol documents)",
        "factories are deterministic functions of the adaptee's recorded chain and of a per-object "
        "flag fixed at creation, so a chain whose prefix fails fails, and the model of the factories "
        "used by the enumeration (evaluated for that very object) is exact",
        "adapt is judged against the hierarchy and offers as they are at the time of the call, "
        "whatever was adapted before on the same manager and whatever request is in progress",
        "re-entrant factories never recurse unboundedly by construction (nested requests are for a "
        "companion object, under a depth budget); nested answers are judged for existence, validity "
        "and minimality, single-step specificity at top level only",
        "class names are unique within a case (offers are keyed by module.name by design)",
        "path length = number of offers used, null (register_provides) adapters included",
        "the single-step specificity rule is judged only on hierarchies where issubclass is "
        "transitive (it is not for a virtual subclass of an ABC that has a concrete non-ABC base)",
        "step budgets are >= 20x what the search needs on the unchanged tree "
        "(calls_using_over_5pct_of_step_budget stays 0)",
    ],
    "case_timeout": 120,
}

SENT = object()
MISSING = object()


# --------------------------------------------------------------------------
# step counter (the monitor's own non-termination guard; never wall-clock)
class NonTermination(BaseException):
    pass


class _Steps:
    __slots__ = ("armed", "n", "limit", "tripped", "last_used")


ST = _Steps()
ST.armed = False
ST.n = 0
ST.limit = 0
ST.tripped = False
ST.last_used = 0


def tick():
    if ST.armed:
        ST.n += 1
        if ST.n > ST.limit:
            ST.armed = False
            ST.tripped = True
            raise NonTermination()


def _profile(frame, event, arg):
    if event == "call":
        tick()


class CT(type):
    """`type` whose subclass checks are counted (semantics unchanged)."""

    def __subclasscheck__(cls, sub):
        tick()
        return super().__subclasscheck__(sub)


class CA(CT, abc.ABCMeta):
    pass


class CH(CT, type(HasTraits)):
    pass


class CI(CH, type(Interface)):
    pass


COUNTED_METAS = (CT, CA, CH, CI)
RAW_METAS = (type, abc.ABCMeta, type(HasTraits), type(Interface))


def guarded(fn, limit, profiled):
    """Run fn under the step budget -> ('ok', v) | ('exc', e) | ('nonterm', None).
    Re-entrant: a nested call (made from inside a factory) has its own budget
    and restores the outer counter and profile function."""
    saved = (ST.n, ST.limit, ST.armed, ST.tripped)
    prev_profile = sys.getprofile() if profiled else None
    ST.n = 0
    ST.limit = limit
    ST.tripped = False
    ST.armed = True
    tripped = False
    if profiled:
        sys.setprofile(_profile)
    try:
        try:
            out = ("ok", fn())
        finally:
            if profiled:
                sys.setprofile(prev_profile)
            tripped = ST.tripped
            ST.last_used = ST.n
            ST.n, ST.limit, ST.armed, ST.tripped = saved
    except NonTermination:
        return ("nonterm", None)
    except CaseTimeout:
        raise
    except Exception as e:  # noqa: BLE001 - outcome classification
        out = ("exc", e)
    if tripped:
        return ("nonterm", None)
    return out


# --------------------------------------------------------------------------
# adapters, offers and their pure model
class Ad:
    __slots__ = ("chain", "base", "to")

    def __repr__(self):
        return "Ad%r" % (self.chain,)


class DefaultMarker:
    pass


def chain_of(x):
    if type(x) is Ad:
        return x.chain
    idx = getattr(type(x), "_c17_idx", None)
    if idx is not None:
        return chain_of(x.adaptee) + (idx,)
    return ()


def base_of(x):
    if type(x) is Ad:
        return x.base
    if getattr(type(x), "_c17_idx", None) is not None:
        return base_of(x.adaptee)
    return x


IDENTITY_KINDS = ("identity", "provides", "idraw")
FLAG_KINDS = ("flagset", "flagclear")      # depend on a per-OBJECT attribute of the adaptee
# re-entrant factories: while running they ask the same manager about ANOTHER
# object (a companion); nestedjudge ignores the answer, nestedcond succeeds iff
# the companion is supported, nestedneg iff it is not (own stratum only)
NEST_KINDS = ("nestedjudge", "nestedcond", "nestedneg")
NEST_ROUTES = ("adapt-none", "adapt-none", "adapt", "supports_protocol", "global-adapt",
               "Supports", "AdaptsTo", "ListSupports")


class _Nest:
    """Per-case state shared with the re-entrant factories."""
    depth = 0
    maxd = 0
    declined = 0


NEST = _Nest()
KINDS = (["always"] * 40 + ["never"] * 8 + ["even"] * 6 + ["odd"] * 6 + ["raw"] * 6 +
         ["flagset"] * 8 + ["flagclear"] * 8 +
         ["short"] * 5 + ["notafter"] * 5 + ["identity"] * 6 + ["provides"] * 8 +
         ["idraw"] * 3 + ["pyadapter"] * 5 + ["traitsadapter"] * 2)


class Off:
    __slots__ = ("idx", "frm", "to", "kind", "param", "how")

    def __init__(self, frm, to, kind, param=None):
        self.idx = -1
        self.frm, self.to, self.kind, self.param = frm, to, kind, param
        self.how = None

    def model(self, chain, flag=0, src=None, depth=0, oracle=None):
        """Pure model of the factory on the adaptee's recorded chain and on the
        per-object flag of the original adaptee: None (refuses), the same chain
        (identity), or the extended chain.  Re-entrant kinds ask `oracle` (the
        brute force itself, one level deeper) what the nested request yields."""
        k = self.kind
        if k in NEST_KINDS:
            if depth < NEST.maxd and k != "nestedjudge":
                ccls = src if self.param[0] == "same" else self.param[0]
                tcls = self.to if self.param[1] == "to" else self.param[1]
                supported = oracle(ccls, tcls, depth + 1) != "none"
                if supported != (k == "nestedcond"):
                    return None
            return chain + (self.idx,)
        if k == "flagset" and not flag & self.param:
            return None
        if k == "flagclear" and flag & self.param:
            return None
        if k == "identity" or k == "provides":
            return chain
        if k == "idraw":
            return chain if not chain else None
        if k == "never":
            return None
        if k == "even" and len(chain) % 2:
            return None
        if k == "odd" and not len(chain) % 2:
            return None
        if k == "raw" and chain:
            return None
        if k == "short" and len(chain) >= self.param:
            return None
        if k == "notafter" and chain and chain[-1] == self.param:
            return None
        return chain + (self.idx,)

    def spec(self):
        param = self.param
        if self.kind in NEST_KINDS:
            param = [getattr(x, "__name__", x) for x in param]
        return [self.idx, self.frm.__name__, self.to.__name__, self.kind, param, self.how]


def real_factory(off):
    if off.kind == "pyadapter":
        class PyAd(PurePythonAdapter):
            _c17_idx = off.idx

            def __init__(self, adaptee):
                tick()
                super().__init__(adaptee)
        return PyAd
    if off.kind == "traitsadapter":
        class TrAd(Adapter):
            _c17_idx = off.idx

            def __init__(self, adaptee, **traits):
                tick()
                super().__init__(adaptee, **traits)
        return TrAd

    if off.kind in NEST_KINDS:
        def nesting_factory(adaptee):
            tick()
            base = base_of(adaptee)
            if NEST.depth < NEST.maxd:
                ccls = type(base) if off.param[0] == "same" else off.param[0]
                tcls = off.to if off.param[1] == "to" else off.param[1]
                supported = NEST.request(off, base, ccls, tcls)
                if off.kind != "nestedjudge" and supported != (off.kind == "nestedcond"):
                    NEST.declined += 1
                    return None
            a = Ad()
            a.chain = chain_of(adaptee) + (off.idx,)
            a.base = base
            a.to = off.to
            return a
        return nesting_factory

    def factory(adaptee):
        tick()
        chain = chain_of(adaptee)
        new = off.model(chain, getattr(base_of(adaptee), "_c17_flag", 0))
        if new is None:
            return None
        if new is chain:
            return adaptee
        a = Ad()
        a.chain = new
        a.base = base_of(adaptee)
        a.to = off.to
        return a
    return factory


# --------------------------------------------------------------------------
# generators
def gen_classes(rng, tag, flavour, metas, modname, force_multi=False):
    MT, MA, MH, MI = metas
    n = rng.randint(2, 6)
    dens = rng.choice((0.15, 0.4, 0.7))      # inheritance density of this hierarchy
    classes = []
    virtual_plan = []

    def create(bases, root):
        name = "K%s_%d" % (tag, len(classes))
        ns = {"__module__": modname} if modname else {}
        bases = list(bases)
        for attempt in range(4):
            try:
                if bases:
                    cls = MT(name, tuple(bases), ns)
                elif flavour == "abc" and (root == "proto" or (root == "any" and rng.random() < 0.55)):
                    cls = MA(name, (object,), ns)
                elif flavour == "iface" and (root == "proto" or (root == "any" and (
                        len(classes) < 2 or rng.random() < 0.35))):
                    cls = MI(name, (Interface,), ns)
                elif flavour == "iface" and rng.random() < 0.6:
                    cls = MH(name, (HasTraits,), ns)
                else:
                    cls = MT(name, (object,), ns)
                classes.append(cls)
                return cls
            except TypeError:
                # inconsistent MRO / metaclass conflict: retry with fewer bases
                if len(bases) > 1 and attempt == 0:
                    bases = bases[::-1]
                else:
                    bases = bases[:-1]
        return None

    if rng.random() < 0.2 or force_multi:
        # shape "one class, several protocols": P, Q(P), R [, Z] and a class X
        # that is a Q and an R (and a Z) -- by multiple inheritance in the
        # plain flavour, by register()/@provides in the others
        P = create((), "proto")
        Q = create((P,), "proto")
        R = create((), "proto")
        Z = create((), "proto") if rng.random() < 0.5 else None
        ups = [c for c in (Z, Q, R) if c is not None]
        if rng.random() < 0.5:
            rng.shuffle(ups)
        if flavour == "plain" or rng.random() < 0.25:
            create(ups, "concrete")
        else:
            keep = ups[:1] if rng.random() < 0.3 else []
            X = create(keep, "concrete")
            virtual_plan = [(c, X) for c in ups if c not in keep and X is not None]
        n = max(n, len(classes) + 1)         # at least one class outside the shape (a target)
    while len(classes) < n:
        k = min(rng.choice((1, 1, 2, 2, 3, 4)), len(classes)) if rng.random() < dens else 0
        if create(rng.sample(classes, k), "any") is None:
            break
    nreg = 0
    for c, x in virtual_plan:
        try:
            if isinstance(c, type(Interface)):
                provides(c)(x)
            elif isinstance(c, abc.ABCMeta):
                c.register(x)
            nreg += 1
        except (RuntimeError, TypeError):
            pass
    for c in classes:
        if not isinstance(c, abc.ABCMeta):
            continue
        for _ in range(rng.choice((0, 1, 1, 2))):
            o = rng.choice(classes)
            if o is c or issubclass(o, c) or issubclass(c, o):
                continue
            try:
                if isinstance(c, type(Interface)) and rng.random() < 0.7:
                    provides(c)(o)
                else:
                    c.register(o)
                nreg += 1
            except (RuntimeError, TypeError):
                pass
    if rng.random() < 0.35:
        # one class implementing several otherwise unrelated protocols (the
        # typical @provides(IA, IB, IC) use)
        x = rng.choice(classes)
        protos = [c for c in classes if isinstance(c, abc.ABCMeta) and c is not x
                  and not issubclass(x, c) and not issubclass(c, x)]
        protos = rng.sample(protos, min(len(protos), 3))
        try:
            if protos and all(isinstance(c, type(Interface)) for c in protos):
                provides(*protos)(x)
            else:
                for c in protos:
                    c.register(x)
            nreg += len(protos)
        except (RuntimeError, TypeError):
            pass
    return classes, nreg


def gen_offers(rng, classes, sub, nmax, force_specific=False):
    offers = []

    def kind():
        return rng.choice(KINDS)

    def add(frm, to, k=None):
        if len(offers) < nmax:
            offers.append(Off(frm, to, k or kind()))

    strategy = rng.choice(("random", "random", "chain", "chain", "specific", "specific", "cycle",
                           "mixed"))
    if force_specific:
        strategy = "specific"
    if strategy in ("chain", "mixed") and len(classes) >= 2:
        perm = rng.sample(classes, max(rng.randint(2, min(6, len(classes))),
                                       rng.randint(2, min(6, len(classes)))))
        if rng.random() < 0.7:
            # prefer an order in which a step is not already given by inheritance
            for _ in range(6):
                if not any(sub(a, b) for a, b in zip(perm, perm[1:])):
                    break
                rng.shuffle(perm)
        for a, b in zip(perm, perm[1:]):
            add(a, b, rng.choice(("always", "always", "always", "provides", "pyadapter", "even",
                                  "odd", "short", "identity")))
        if len(perm) >= 3 and rng.random() < 0.7:
            # a shortcut that is refused (path discarded) or conditional
            i = rng.randrange(len(perm) - 2)
            add(perm[i], perm[rng.randrange(i + 2, len(perm))],
                rng.choice(("never", "raw", "odd", "even", "notafter", "idraw", "always",
                            "flagset", "flagclear", "flagset", "flagclear")))
        if len(perm) >= 3 and rng.random() < 0.6:
            # a shorter way that starts at a *base type* of a chain member
            # (fewer offers, more steps up the hierarchy)
            cands = [(i, a) for i in range(len(perm) - 2) for a in classes
                     if a is not perm[i] and sub(perm[i], a) and not sub(a, perm[i])]
            if cands:
                i, a = min(rng.sample(cands, min(2, len(cands))), key=lambda x: x[0])
                # land before the end of the chain when possible, so that the
                # short way still needs further offers
                j = rng.randrange(i + 2, max(i + 3, len(perm) - 1))
                add(a, perm[j], rng.choice(("always", "always", "pyadapter", "provides", "flagset",
                                                "flagclear")))
    if strategy in ("specific", "mixed"):
        s = max(classes, key=lambda c: (sum(1 for d in classes if sub(c, d)), rng.random()))
        anc = [d for d in classes if sub(s, d)]
        if len(anc) > 3 and rng.random() < (0.7 if force_specific else 0.3):
            anc.remove(s)                 # no offer for the class itself: its protocols compete
        t = rng.choice([d for d in classes if not sub(s, d)] or classes)
        for a in rng.sample(anc, min(len(anc), 5 if force_specific else rng.choice((2, 3, 3, 4, 5)))):
            add(a, t, rng.choice(("always", "always", "always", "always", "pyadapter", "raw",
                                  "provides", "never", "identity", "flagset", "flagclear",
                                  "flagset")))
        if rng.random() < 0.6:
            add(rng.choice(classes), t, "always")
    if strategy in ("cycle", "mixed") and len(classes) >= 2:
        a, b = rng.sample(classes, 2)
        add(a, b, rng.choice(("always", "always", "provides", "even", "identity")))
        add(b, a, rng.choice(("always", "always", "provides", "odd", "identity")))
        if rng.random() < 0.4:
            add(a, a, rng.choice(("always", "identity", "provides")))
    total = rng.randint(len(offers), nmax) if strategy != "random" else rng.randint(0, nmax)
    while len(offers) < total:
        add(rng.choice(classes), rng.choice(classes))
    if offers and len(offers) < nmax and rng.random() < 0.35:
        o = rng.choice(offers)
        add(o.frm, o.to)                  # duplicate edge, possibly another kind
    rng.shuffle(offers)                   # registration order
    return offers, strategy


def finish_offers(rng, offers):
    for i, o in enumerate(offers):
        o.idx = i
    for o in offers:
        if o.kind == "short":
            o.param = rng.randint(1, 2)
        elif o.kind == "notafter":
            o.param = rng.randrange(len(offers))
        elif o.kind in FLAG_KINDS and o.param is None:
            o.param = rng.choice((1, 2))


class _Cap(Exception):
    pass


def count_paths(src, offers, sub, cap):
    """Number of simple (each offer at most once) applicable offer sequences
    starting at type `src`, factories ignored.  Raises _Cap above cap."""
    n = [0]

    def rec(proto, used):
        for o in offers:
            if used >> o.idx & 1 or not sub(proto, o.frm):
                continue
            n[0] += 1
            if n[0] > cap:
                raise _Cap()
            rec(o.to, used | (1 << o.idx))
    rec(src, 0)
    return n[0]


def enumerate_chains(src, offers, sub, flag=0, depth=0, oracle=None):
    """Brute force: every sequence of distinct offers, each applicable to the
    protocol reached so far, whose (model) factories all succeed.
    -> (succ [(seq, chain, to_protocol)], fail [(seq, to_protocol)])."""
    succ, fail = [], []

    def rec(proto, seq, used, chain):
        for o in offers:
            if used >> o.idx & 1 or not sub(proto, o.frm):
                continue
            c2 = o.model(chain, flag, src, depth, oracle)
            s2 = seq + (o.idx,)
            if c2 is None:
                fail.append((s2, o.to))
                continue
            succ.append((s2, c2, o.to))
            rec(o.to, s2, used | (1 << o.idx), c2)
    rec(src, (), 0, ())
    return succ, fail


class Expect:
    __slots__ = ("status", "L", "minset", "allset", "singles", "nmin", "ident_in_min",
                 "failing_candidate", "spec_relevant", "order_class", "spec_not_judged", "flag",
                 "single_chains")


def analyse(src, tgt, offers, succ, fail, sub, transitive=True, flag=0):
    e = Expect()
    e.flag = flag
    e.spec_not_judged = False
    e.L = 0
    e.minset = e.allset = frozenset()
    e.singles = []
    e.single_chains = {}
    e.nmin = 0
    e.ident_in_min = e.failing_candidate = e.spec_relevant = False
    e.order_class = "-"
    if sub(src, tgt):
        e.status = "provides"
        return e
    S = [(seq, chain) for seq, chain, to in succ if sub(to, tgt)]
    if not S:
        e.status = "none"
        e.failing_candidate = any(sub(to, tgt) for seq, to in fail)
        return e
    e.status = "chain"
    e.L = min(len(seq) for seq, chain in S)
    mins = [(seq, chain) for seq, chain in S if len(seq) == e.L]
    e.nmin = len(mins)
    e.minset = frozenset(chain for seq, chain in mins)
    e.allset = frozenset(chain for seq, chain in S)
    e.ident_in_min = any(len(chain) < len(seq) for seq, chain in mins)
    e.failing_candidate = any(len(seq) <= e.L and sub(to, tgt) for seq, to in fail)
    if e.L == 1:
        e.singles = [offers[seq[0]] for seq, chain in mins]
        e.single_chains = {seq[0]: chain for seq, chain in mins}
        e.spec_relevant = any(a is not b and sub(a.frm, b.frm) and not sub(b.frm, a.frm)
                              for a in e.singles for b in e.singles)
        if e.spec_relevant and not transitive:
            # "more specific type" / "its base type" presuppose an order; when
            # issubclass is not transitive on this hierarchy (a virtual subclass
            # of an ABC that has a concrete non-ABC base) the rule is not judged
            e.spec_relevant = False
            e.spec_not_judged = True
        if e.spec_relevant:
            froms = []
            for o in offers:
                if sub(src, o.frm) and o.frm not in froms:
                    froms.append(o.frm)
            comparable = all(sub(a, b) or sub(b, a) for a in froms for b in froms)
            e.order_class = "applicable-sources-totally-ordered" if comparable \
                else "incomparable-applicable-sources-present"
    return e


def describe(res, obj):
    """Structural description of a value that should be an adaptation result."""
    if res is obj:
        return ("obj", ())
    if type(res) is Ad or getattr(type(res), "_c17_idx", None) is not None:
        try:
            if base_of(res) is obj:
                return ("ad", chain_of(res))
            return ("foreign", chain_of(res))
        except Exception:  # noqa: BLE001
            return ("other", short(res))
    if res is None:
        return ("none", None)
    if res is SENT:
        return ("sentinel", None)
    return ("other", short(res))


INFO = {"extra_adapter_objects": 0, "last": None}


def judge_success(e, d, offers, sub):
    """Complaint (or None) about description d of a value returned/stored when
    the enumeration says status is 'provides' or 'chain'."""
    INFO["last"] = d
    if e.status == "provides":
        return None if d[0] == "obj" else "provides-but-not-returned-unchanged"
    if d[0] not in ("obj", "ad"):
        return "chain-exists-but-%s-returned" % d[0]
    ch = d[1]
    if ch not in e.allset:
        return "result-is-not-a-successful-chain"
    if ch not in e.minset:
        return "chain-not-minimal"
    # informational only (see module docstring): adapter *objects* in the
    # result beyond the fewest any successful sequence would have created;
    # non-zero only when null adapters make a sequence of more offers cheaper
    INFO["extra_adapter_objects"] = len(ch) - min(len(c) for c in e.allset)
    if e.L == 1 and e.spec_relevant:
        cands = [o for o in e.singles if e.single_chains[o.idx] == ch]
        if cands and all(any(o2 is not c and sub(o2.frm, c.frm) and not sub(c.frm, o2.frm)
                             for o2 in e.singles) for c in cands):
            return "specificity/base-type-offer-chosen/" + e.order_class
    return None


# --------------------------------------------------------------------------
TRAIT_ROUTES = ("Supports", "AdaptsTo", "InstanceYes", "InstanceDefault", "InstanceDefaultFactory",
                "ListSupports", "UnionSupports", "PyValidate")
TRAIT_PREFIX = {"Supports": "sup", "AdaptsTo": "ada", "InstanceYes": "iny", "InstanceDefault": "ind",
                "InstanceDefaultFactory": "inf", "ListSupports": "lst", "UnionSupports": "uni",
                "PyValidate": "sup"}
REASSIGN_ROUTES = ("AdaptsTo", "AdaptsTo", "AdaptsTo", "Supports", "Supports", "InstanceYes",
                   "InstanceDefault", "InstanceDefaultFactory", "ListSupports", "UnionSupports")
MANAGER_ROUTES = ("adapt", "adapt-default-kw", "adapt-default-pos", "adapt-none", "supports_protocol",
                  "global-adapt", "global-supports_protocol")


def trait_ns(i, T):
    """Fresh definitions of the holder's traits for target number i."""
    return {"sup%d" % i: Supports(T),
            "ada%d" % i: AdaptsTo(T),
            "iny%d" % i: Instance(T, adapt="yes"),
            "ind%d" % i: Instance(T, adapt="default"),
            "inf%d" % i: Instance(T, factory=DefaultMarker, adapt="default"),
            "lst%d" % i: List(Supports(T)),
            "uni%d" % i: Union(Supports(T), Int)}


def make_holder(tag, targets):
    ns = {}
    for i, T in enumerate(targets):
        ns.update(trait_ns(i, T))
    return type(HasTraits)("H%s" % tag, (HasTraits,), ns)


def manager_call(route, m, obj, T):
    if route == "adapt":
        return m.adapt(obj, T)
    if route == "adapt-default-kw":
        return m.adapt(obj, T, default=SENT)
    if route == "adapt-default-pos":
        return m.adapt(obj, T, SENT)
    if route == "adapt-none":
        return m.adapt(obj, T, None)
    if route == "supports_protocol":
        return m.supports_protocol(obj, T)
    if route == "global-adapt":
        return adaptation_api.adapt(obj, T, SENT)
    if route == "global-supports_protocol":
        return adaptation_api.supports_protocol(obj, T)
    raise AssertionError(route)


def check_manager_route(route, m, obj, T, e, offers, sub, limit, profiled):
    """-> (complaint or None, outcome class for the signature)."""
    out = guarded(lambda: manager_call(route, m, obj, T), limit, profiled)
    if out[0] == "nonterm":
        return "nontermination/step-budget-exceeded", "nonterm"
    boolean = route.endswith("supports_protocol")
    if out[0] == "exc":
        exc = out[1]
        if route == "adapt" and isinstance(exc, AdaptationError):
            if e.status == "none":
                return None, "AdaptationError"
            return ("provides-but-AdaptationError" if e.status == "provides"
                    else "chain-exists-but-AdaptationError"), "AdaptationError"
        return "unexpected-exception/" + type(exc).__name__, type(exc).__name__
    res = out[1]
    if boolean:
        want = e.status != "none"
        if res is want:
            return None, str(res)
        return "supports_protocol-%r-but-status-%s" % (res, e.status), str(res)
    if e.status == "none":
        if route == "adapt":
            return "no-chain-but-returned-%s" % describe(res, obj)[0], "returned"
        want = None if route == "adapt-none" else SENT
        if res is want:
            return None, "default"
        return "no-chain-but-returned-%s" % describe(res, obj)[0], "returned"
    d = describe(res, obj)
    return judge_success(e, d, offers, sub), d[0]


def check_trait_route(route, h, ti, obj, e, offers, sub, limit, profiled, ctx):
    """-> (complaint or None, outcome class)."""
    name = "%s%d" % (TRAIT_PREFIX[route], ti)
    shadow_name = name + "_"
    if route == "PyValidate":
        handler = h.trait(name).handler
        out = guarded(lambda: handler.validate(h, name, obj), limit, profiled)
    else:
        old = getattr(h, name)
        old_shadow = h.__dict__.get(shadow_name, MISSING)
        if route == "ListSupports":
            out = guarded(lambda: setattr(h, name, [obj]), limit, profiled)
        else:
            out = guarded(lambda: setattr(h, name, obj), limit, profiled)
    if out[0] == "nonterm":
        return "nontermination/step-budget-exceeded", "nonterm"
    default_mode = route in ("InstanceDefault", "InstanceDefaultFactory")
    if out[0] == "exc":
        exc = out[1]
        if not isinstance(exc, TraitError):
            return "unexpected-exception/" + type(exc).__name__, type(exc).__name__
        if e.status != "none":
            return "TraitError-but-status-%s" % e.status, "TraitError"
        if default_mode:
            return "TraitError-in-default-mode", "TraitError"
        if route != "PyValidate":
            if getattr(h, name) is not old:
                return "value-changed-by-rejected-assignment", "TraitError"
            if h.__dict__.get(shadow_name, MISSING) is not old_shadow:
                return "shadow-changed-by-rejected-assignment", "TraitError"
        return None, "TraitError"
    # no exception
    if route == "PyValidate":
        val = out[1]
    else:
        val = getattr(h, name)
        if route == "ListSupports":
            if len(val) != 1:
                return "list-length-%d" % len(val), "stored"
            val = val[0]
    if e.status == "none":
        if not default_mode:
            return "no-chain-but-accepted-%s" % describe(val, obj)[0], "accepted"
        if route == "InstanceDefault":
            ok = val is None
        else:
            ok = type(val) is DefaultMarker and val is not old
        return (None if ok else "default-not-substituted-%s" % describe(val, obj)[0]), "default"
    if route == "AdaptsTo":
        # stores the original; the (possibly) adapted value lives in name_
        if val is not obj:
            return "AdaptsTo-value-is-not-the-original", "stored"
        sh = getattr(h, shadow_name, MISSING)
        ctx.count("shadow_checks")
        d = describe(sh, obj) if sh is not MISSING else ("missing", None)
        return judge_success(e, d, offers, sub), "adapted-in-shadow"
    d = describe(val, obj)
    c = judge_success(e, d, offers, sub)
    if c is None and route == "Supports":
        ctx.count("shadow_checks")
        if getattr(h, shadow_name, MISSING) is not obj:
            return "Supports-shadow-is-not-the-original", "stored"
    return c, d[0]


# --------------------------------------------------------------------------
FLAVOURS = ("plain", "plain", "abc", "abc", "abc", "iface", "iface", "lazy")
PATH_CAP = 800


def run_case(ctx, gi):
    rng = ctx.rng("graph", gi)
    # own stratum (1 graph in 10) for the shape "a class providing several
    # protocols, offers from several of them to one target"
    spec_stratum = gi % 10 == 5
    # own stratum (1 graph in 10): small graphs with re-entrant factories that
    # ask the same manager about another object while they run
    nest_stratum = gi % 10 == 7
    path_cap = 25 if nest_stratum else PATH_CAP
    flavour = rng.choice(FLAVOURS)
    profiled = rng.random() < 0.12
    metas = RAW_METAS if profiled else COUNTED_METAS
    tag = "%d" % gi
    modname = None
    module = None
    if flavour == "lazy":
        modname = "_c17_lazy_%s" % tag
        module = types.ModuleType(modname)
        sys.modules[modname] = module
    prev_manager = get_global_adaptation_manager()
    hv_created = []
    try:
        base_flavour = rng.choice(("plain", "abc")) if flavour == "lazy" else flavour
        classes, nreg = gen_classes(rng, tag, base_flavour, metas, modname, spec_stratum)
        if module is not None:
            for c in classes:
                setattr(module, c.__name__, c)
        cache = {}

        def sub(a, b):
            k = (a, b)
            r = cache.get(k)
            if r is None:
                r = cache[k] = bool(issubclass(a, b))
            return r

        transitive = all(sub(a, c) for a in classes for b in classes if sub(a, b)
                         for c in classes if sub(b, c))
        if not transitive:
            ctx.count("graphs_with_nontransitive_issubclass")
        nmax = rng.choice((3, 5, 6, 7, 8, 8))
        if nest_stratum:
            nmax = rng.choice((2, 3, 4, 5))
            NEST.maxd = rng.choice((1, 1, 2))
        offers, strategy = gen_offers(rng, classes, sub, nmax, spec_stratum)
        if nest_stratum:
            if not offers:
                offers.append(Off(rng.choice(classes), rng.choice(classes), "always"))
            for o in rng.sample(offers, min(len(offers), rng.choice((1, 1, 2)))):
                o.kind = rng.choice(NEST_KINDS)
                # (companion type: that of the adaptee | a fixed class,
                #  nested target: the offer's own target | a fixed class, route)
                o.param = ("same" if rng.random() < 0.6 else rng.choice(classes),
                           "to" if rng.random() < 0.6 else rng.choice(classes),
                           rng.choice(NEST_ROUTES))
            offers.sort(key=lambda o: o.kind not in NEST_KINDS)   # trimming drops the others first
        finish_offers(rng, offers)
        # keep the search space small enough to enumerate (and to bound the
        # step budget): drop trailing offers while some source has too many
        # applicable simple sequences
        while offers:
            try:
                npaths = {c: count_paths(c, offers, sub, path_cap) for c in classes}
                break
            except _Cap:
                offers.pop()
                finish_offers(rng, offers)
                ctx.count("graphs_trimmed")
        else:
            npaths = {c: 0 for c in classes}

        m = AdaptationManager()
        for o in offers:
            f = real_factory(o)
            if o.kind == "provides":
                o.how = "register_provides"
                m.register_provides(o.frm, o.to)
                continue
            how = rng.choice(("offer", "factory"))
            if module is not None and rng.random() < 0.6:
                how = "lazy"
            o.how = how
            if how == "factory":
                m.register_factory(f, o.frm, o.to)
            elif how == "offer":
                m.register_offer(AdaptationOffer(factory=f, from_protocol=o.frm, to_protocol=o.to))
            else:
                fname = "f%d" % o.idx
                setattr(module, fname, f)
                m.register_offer(AdaptationOffer(
                    factory="%s.%s" % (modname, fname) if rng.random() < 0.7 else f,
                    from_protocol="%s.%s" % (modname, o.frm.__name__) if rng.random() < 0.7 else o.frm,
                    to_protocol="%s.%s" % (modname, o.to.__name__) if rng.random() < 0.7 else o.to))
        set_global_adaptation_manager(m)
        H = make_holder(tag, classes)
        h = H()
        desc = {"flavour": flavour, "profiled": profiled, "strategy": strategy,
                "stratum": "spec" if spec_stratum else "nested" if nest_stratum else "main",
                "nesting_depth_budget": NEST.maxd,
                "classes": [[c.__name__, [b.__name__ for b in c.__mro__[1:-1]],
                             type(c).__name__] for c in classes],
                "virtual": [[a.__name__, b.__name__] for a in classes for b in classes
                            if a is not b and sub(a, b) and b not in a.__mro__],
                "offers": [o.spec() for o in offers]}
        ctx.count("graphs")
        ctx.count("graphs_flavour_" + flavour)
        if profiled:
            ctx.count("graphs_uninstrumented_classes_profiled")
        ctx.count("offers_registered", len(offers))
        ctx.count("offers_lazy_strings", sum(1 for o in offers if o.how == "lazy"))
        ctx.count("virtual_subclass_registrations", nreg)
        sample_queries = []
        cyclic = any(a is not b and sub(a.to, b.frm) and sub(b.to, a.frm) for a in offers
                     for b in offers) or any(sub(a.to, a.frm) for a in offers)
        # ---- objects: several per source type when some factory depends on the
        # per-object flag, so that which chain is shortest / most specific
        # differs between objects of one type adapted on the SAME manager
        flagged = any(o.kind in FLAG_KINDS for o in offers)
        if flagged:
            ctx.count("graphs_with_object_dependent_factories")
        # late ABC registration between two calls (the hierarchy the search
        # has to honour is the one at the time of the call); then also several
        # objects per type, so that a (type, target) is queried before and after
        late = rng.random() < 0.3 and any(isinstance(c, abc.ABCMeta) for c in classes)
        objs = []                                   # (src, obj, flag)
        for src in classes:
            flags = rng.sample(range(4), rng.choice((2, 3, 3))) if flagged else [0, 0] if late else [0]
            for f in flags:
                try:
                    obj = src()
                    obj._c17_flag = f
                except (TypeError, AttributeError):
                    ctx.count("uninstantiable_sources")
                    break
                objs.append([src, obj, f])
        queries = [(oi, ti) for oi in range(len(objs)) for ti in range(len(classes))]
        rng.shuffle(queries)                        # one interleaved history per manager
        late_at = rng.randrange(len(queries)) if late and queries else -1
        enum_cache = {}
        last_seen = {}                              # (src, ti) -> (oi, status, minset, observed chain)
        live = {"offers": 0, "abc": 0, "general": 0, "own_null": 0}

        def recount(candidate_offers, cap=4 * path_cap):
            """npaths for the (changed) graph, or None when it became too large."""
            try:
                return {c2: count_paths(c2, candidate_offers, sub, cap) for c2 in classes}
            except _Cap:
                return None

        def is_cyclic():
            return any(a is not b and sub(a.to, b.frm) and sub(b.to, a.frm) for a in offers
                       for b in offers) or any(sub(a.to, a.frm) for a in offers)

        def late_abc_registration(qi):
            """SomeABC.register(cls) on the live hierarchy -> 'done' | 'none' | 'too-large'."""
            nonlocal transitive, npaths, cyclic
            pairs = [(c, o) for c in classes if isinstance(c, abc.ABCMeta) for o in classes
                     if o is not c and not sub(o, c) and not sub(c, o)]
            if not pairs:
                return "none"
            c, o = rng.choice(pairs)
            try:
                c.register(o)
            except (RuntimeError, TypeError):
                return "none"
            cache.clear()
            enum_cache.clear()
            desc.setdefault("late_registrations", []).append(
                {"before_query": qi, "abc": c.__name__, "registered": o.__name__})
            desc.setdefault("late_registration", desc["late_registrations"][0])
            transitive = all(sub(a, c3) for a in classes for b in classes if sub(a, b)
                             for c3 in classes if sub(b, c3))
            np2 = recount(offers)
            if np2 is None:
                ctx.count("late_registration_made_graph_too_large")
                return "too-large"
            npaths = np2
            cyclic = is_cyclic()
            live["abc"] += 1
            ctx.count("late_abc_registrations")
            return "done"

        def adapted_slot(route, ti):
            """The object in which a trait exposes the (possibly) adapted value."""
            name = "%s%d" % (TRAIT_PREFIX[route], ti)
            if route == "AdaptsTo":
                return h.__dict__.get(name + "_", MISSING)
            v = getattr(h, name)
            if route == "ListSupports":
                return v[0] if len(v) == 1 else MISSING
            return v

        def live_offer_registration(qi, src, tgt, own_null=False):
            """register_offer / register_factory / register_provides on the LIVE
            manager in the middle of the history -> 'done' | 'none'."""
            nonlocal npaths, cyclic, flagged
            ups = [c for c in classes if sub(src, c)]
            frm = rng.choice(ups) if rng.random() < 0.7 else rng.choice(classes)
            to = tgt if rng.random() < 0.7 else rng.choice(classes)
            o = Off(frm, to, rng.choice(("always", "always", "always", "pyadapter", "provides", "identity",
                                         "flagset", "flagclear", "raw", "never")))
            if own_null:
                o = Off(src, tgt, rng.choice(("provides", "identity")))
            o.idx = len(offers)
            if o.kind in FLAG_KINDS:
                o.param = rng.choice((1, 2))
            np2 = recount(offers + [o], path_cap)
            if np2 is None:
                return "none"
            offers.append(o)
            f = real_factory(o)
            if o.kind == "provides":
                o.how = "register_provides (live)"
                m.register_provides(o.frm, o.to)
            elif rng.random() < 0.5:
                o.how = "factory (live)"
                m.register_factory(f, o.frm, o.to)
            else:
                o.how = "offer (live)"
                m.register_offer(AdaptationOffer(factory=f, from_protocol=o.frm, to_protocol=o.to))
            desc["offers"].append(o.spec() + [{"before_query": qi}])
            enum_cache.clear()
            npaths = np2
            cyclic = is_cyclic()
            flagged = flagged or o.kind in FLAG_KINDS
            live["offers"] += 1
            live["own_null" if own_null else "general"] += 1
            ctx.count("live_offer_registrations")
            return "done"

        def expect(cls, flag, tgt, depth=0):
            """Brute-force expectation for an object of class cls with that flag,
            asked at nesting depth `depth`, and the step budget of the call."""
            key = (cls, flag, depth)
            if key not in enum_cache:
                enum_cache[key] = enumerate_chains(cls, offers, sub, flag, depth, nested_status)
            succ, fail = enum_cache[key]
            np_ = npaths[cls]
            # generous budget, proportional to the number of simple applicable
            # sequences a complete search has to visit.  Calibration on the
            # healthy tree: at most 14 counted subclass checks / 46 profiled
            # calls per such sequence, i.e. >= 100x headroom (the counter
            # calls_using_over_5pct_of_step_budget stays 0).  Nested requests
            # run under their own budget and are not counted in the outer one.
            limit = (20000 + 5000 * np_) if profiled else (5000 + 1500 * np_)
            return analyse(cls, tgt, offers, succ, fail, sub, transitive, flag), limit

        def nested_status(ccls, tcls, depth):
            """What a nested request for the companion of class ccls yields."""
            return expect(ccls, compflag[ccls], tcls, depth)[0].status

        def expectation(oi, ti):
            src, obj, flag = objs[oi]
            return expect(src, flag, classes[ti], 0)

        # ---- re-entrancy: companions (never a query object) and the nested request
        compflag = {c: rng.randrange(4) for c in classes} if nest_stratum else {}
        companions = {}
        nested_complaints = []
        if nest_stratum:
            ctx.count("graphs_nested_stratum")
            try:
                for c in classes:
                    pair = (c(), c())
                    for x in pair:
                        x._c17_flag = compflag[c]
                    companions[c] = pair
            except (TypeError, AttributeError):
                NEST.maxd = 0
            if not any(o.kind in NEST_KINDS for o in offers):
                ctx.count("graphs_nested_stratum_without_reentrant_offer")

        def nested_request(off, base, ccls, tcls):
            """Called by a re-entrant factory while the manager runs it: ask the
            same manager about the companion (another object), judge the answer
            against the brute force one level deeper, return 'supported'."""
            saved_armed = ST.armed
            ST.armed = False                  # the oracle's own work is not the search's
            NEST.depth += 1
            try:
                pair = companions[ccls]
                comp = pair[1] if pair[0] is base else pair[0]
                e, limit = expect(ccls, compflag[ccls], tcls, NEST.depth)
                # single-step specificity is judged at top level only (one key per defect)
                e.spec_relevant = False
                route = off.param[2]
                ctx.count("nested_requests")
                ctx.count("nested_requests_status_" + e.status)
                ctx.count("nested_requests_via_" + route)
                if NEST.depth >= 2:
                    ctx.count("nested_requests_depth2plus")
                if (ccls, tcls) in NEST.pending:
                    ctx.count("nested_requests_same_type_and_protocol_as_a_pending_request")
                    if e.status == "chain":
                        ctx.count("nested_requests_same_key_as_pending_with_chain")
                if off.kind != "nestedjudge":
                    ctx.count("nested_requests_deciding_a_conditional_factory")
                NEST.pending.append((ccls, tcls))
                try:
                    if route in MANAGER_ROUTES:
                        c, oc = check_manager_route(route, m, comp, tcls, e, offers, sub, limit, profiled)
                        layer = "manager/"
                    else:
                        c, oc = check_trait_route(route, H(), classes.index(tcls), comp, e, offers, sub,
                                                  limit, profiled, ctx)
                        layer = "trait/%s/" % route
                finally:
                    NEST.pending.pop()
                ctx.ev()
                ctx.sig(flavour, "nested", route, NEST.depth, e.status, min(e.L, 5), off.kind, oc, bool(c),
                        (ccls, tcls) in NEST.pending)
                if c:
                    nested_complaints.append(
                        (layer + c, {"nested_route": route, "depth": NEST.depth, "companion_class": ccls.__name__,
                                     "companion_flag": compflag[ccls], "nested_target": tcls.__name__,
                                     "expected_status": e.status, "min_offers": e.L,
                                     "admissible": sorted(e.minset)[:6], "outcome": oc,
                                     "observed": INFO["last"], "requested_by_offer": off.idx,
                                     "pending_requests": [(a.__name__, b.__name__) for a, b in NEST.pending]}))
                return e.status != "none"
            finally:
                NEST.depth -= 1
                ST.armed = saved_armed

        NEST.request = nested_request
        NEST.pending = []

        # ---- stratum "holders that carry instance-level traits": the trait
        # sub-check repeated, right after it passed on the pristine holder, on a
        # holder of the same traits that has a history (listeners registered /
        # removed through every mechanism, add_trait re-definitions, class-level
        # listeners, overriding subclasses, copies) -- see _c17_holders.  Own
        # random stream: the main workload is the same with and without it.
        hrng = ctx.rng("holders", gi)
        hv_slots = [] if nest_stratum else [HV.draw_recipe(hrng) for _ in range(3)]
        hv_variants = {}
        hv_state = {"active": bool(hv_slots)}

        def holder_variant(slot, ti, obj, limit):
            """The holder of recipe `slot` for target ti (built on first use)."""
            var = hv_variants.get((slot, ti))
            if var is not None:
                return var or None
            recipe = hv_slots[slot]
            T = classes[ti]

            def mk():
                return trait_ns(ti, T)
            if recipe["cls"] == "plain" and recipe["copy"] is None:
                cls = H
            else:
                cls = HV.build_class(recipe["cls"], "HV%s_%d_%d" % (tag, slot, ti), mk, hv_created,
                                     hrng.random() < 0.5)
            var = HV.Variant(recipe, cls, mk)
            ctx.count("holder_variants_built")
            if recipe["copy"]:
                def prefill(src):
                    out = guarded(lambda: setattr(src, "ada%d" % ti, obj), limit, profiled)
                    if out[0] == "ok":
                        ctx.count("holder_copies_of_a_holder_with_an_AdaptsTo_value")
                if not var.finish_copy(prefill, hrng.choice((2, pickle.HIGHEST_PROTOCOL))):
                    ctx.count("holder_copy_not_possible")
                    ctx.count("holder_copy_not_possible_%s_%s" % (recipe["copy"], var.copy_failed))
                    hv_variants[(slot, ti)] = False
                    return None
                ctx.count("holder_copies_made")
                ctx.count("holder_copies_made_by_" + recipe["copy"])
            hv_variants[(slot, ti)] = var
            return var

        def holder_check(route, ti, oi, e, limit, hist, qi):
            """Same assignment as the one that just passed on the pristine
            holder, on a holder with instance-level traits -> True on violation."""
            src, obj, flag = objs[oi]
            slot = hrng.randrange(len(hv_slots))
            recipe = hv_slots[slot]
            name = "%s%d" % (TRAIT_PREFIX[route], ti)
            try:
                var = holder_variant(slot, ti, obj, limit)
                if var is None:
                    return False
                reused = bool(var.done)
                var.prepare(name)
            except CaseTimeout:
                raise
            except Exception as exc:  # noqa: BLE001 - building the history is not what is judged
                ctx.count("holder_preparation_failed")
                ctx.count("holder_preparation_failed_%s_%s" % (HV.mechanism(recipe), type(exc).__name__))
                hv_variants[(slot, ti)] = False
                return False
            seen = INFO["last"]
            INFO["last"] = None
            c3, oc3 = check_trait_route(route, var.holder, ti, obj, e, offers, sub, limit, profiled, ctx)
            observed, INFO["last"] = INFO["last"], seen
            ctx.ev()
            mech = HV.mechanism(recipe)
            ctx.count("holder_assignments")
            ctx.count("holder_assignments_group_" + recipe["group"])
            ctx.count("holder_assignments_mechanism_" + mech)
            ctx.count("holder_assignments_via_" + route)
            if reused:
                ctx.count("holder_assignments_to_a_holder_assigned_before")
            if e.status == "chain":
                ctx.count("holder_assignments_storing_an_adapter")
                ctx.count("holder_assignments_storing_an_adapter_group_" + recipe["group"])
                if route in ("AdaptsTo", "Supports"):
                    ctx.count("holder_assignments_storing_an_adapter_via_" + route)
            ctx.sig(flavour, "holder", recipe["group"], mech, recipe["cls"], recipe["post"], route, e.status,
                    oc3, bool(c3))
            if not c3:
                return False
            hv_state["active"] = False          # this stratum's history ends at its first violation
            ctx.violation(
                "trait/%s/%s/holder:%s" % (route, c3, mech),
                "%s via %s on a holder with instance-level traits (recipe: %s), although the same assignment "
                "to a pristine holder of the same traits was correct a moment before: instance of %s (object "
                "flag %d, history: %s) -> %s: expected status=%s min offers=%d admissible visible chains=%s; "
                "outcome class=%s observed=%s; offers=%s; classes=%s; virtual=%s"
                % (c3, route, HV.label(recipe), src.__name__, flag, hist, classes[ti].__name__, e.status, e.L,
                   sorted(e.minset)[:6], oc3, observed, desc["offers"], desc["classes"], desc["virtual"]),
                dict(desc, source=src.__name__, object_flag=flag, history=hist, query_index=qi,
                     target=classes[ti].__name__, route=route, status=e.status, min_offers=e.L,
                     admissible=sorted(e.minset)[:10], observed=observed, holder_recipe=recipe,
                     holder_trait=name))
            return True

        def report(layer, route, c, oc, e, hist, oi, ti, qi, limit):
            """Record a violation; True when the case must stop (non-termination)."""
            src, obj, flag = objs[oi]
            tgt = classes[ti]
            if layer == "n":
                key, info = c
                ctx.violation(
                    "nested/" + key,
                    "%s for a request made from inside a factory (%s) while adapting an instance of %s (object "
                    "flag %d) to %s via %s; offers=%s; classes=%s; virtual=%s; depth budget=%d"
                    % (key, info, src.__name__, flag, tgt.__name__, route, desc["offers"], desc["classes"],
                       desc["virtual"], NEST.maxd),
                    dict(desc, source=src.__name__, object_flag=flag, history=hist, query_index=qi,
                         target=tgt.__name__, route=route, nested=info))
                return "nontermination" in key
            if route != "adapt" and not c.startswith("nontermination"):
                # same complaint from the manager itself for this very
                # object and target => it is the manager's defect, and is
                # reported under the manager's key (one key per defect)
                seen = INFO["last"]
                c2, _ = check_manager_route("adapt", m, obj, tgt, e, offers, sub, limit, profiled)
                INFO["last"] = seen
                if c2 == c:
                    layer, route = "m", "adapt (first seen via %s)" % route
            key = ("manager/" if layer == "m" else "trait/%s/" % route) + c
            if layer == "m" and route.startswith("global"):
                key = "manager/global-function/" + c
            if c.startswith("nontermination"):
                key = c + ("/manager" if layer == "m" else "/trait")
            ctx.violation(
                key,
                "%s via %s: adapting an instance of %s (object flag %d, history: %s) to %s: expected "
                "status=%s min offers=%d admissible visible chains=%s; outcome class=%s observed=%s; "
                "offers=%s; classes=%s; virtual=%s; late registrations=%s"
                % (c, route, src.__name__, flag, hist, tgt.__name__, e.status, e.L,
                   sorted(e.minset)[:6], oc, INFO["last"], desc["offers"], desc["classes"],
                   desc["virtual"], desc.get("late_registrations")),
                dict(desc, source=src.__name__, object_flag=flag, history=hist, query_index=qi,
                     target=tgt.__name__, route=route,
                     status=e.status, min_offers=e.L, admissible=sorted(e.minset)[:10],
                     observed=INFO["last"]))
            return c.startswith("nontermination")

        for qi, (oi, ti) in enumerate(queries):
            if qi == late_at and late_abc_registration(qi) == "too-large":
                break
            src, obj, flag = objs[oi]
            tgt = classes[ti]
            e, limit = expectation(oi, ti)
            if e.spec_not_judged:
                ctx.count("specificity_not_judged_nontransitive_issubclass")
            if flagged or late:
                routes = [("m", "adapt"), ("m", rng.choice(MANAGER_ROUTES[1:]))]
                routes += [("t", r) for r in rng.sample(TRAIT_ROUTES, 2)]
                rng.shuffle(routes)                 # traits may come first in the history
            else:
                routes = [("m", "adapt"), ("m", rng.choice(MANAGER_ROUTES[1:4]))]
                routes += [("m", r) for r in rng.sample(MANAGER_ROUTES[4:], 1)]
                routes += [("t", r) for r in rng.sample(TRAIT_ROUTES, 3)]
            if e.status == "provides":
                ctx.count("provides_checked")
                routes = routes[:2] + routes[3:5]
            elif e.status == "chain":
                ctx.count("chains_found")
                if e.L >= 2:
                    ctx.count("chains_len2plus")
                if e.L >= 3:
                    ctx.count("chains_len3plus")
                if e.ident_in_min:
                    ctx.count("identity_in_min_path")
                if e.spec_relevant:
                    ctx.count("specificity_checked")
                    if e.order_class.startswith("incomparable"):
                        ctx.count("specificity_checked_with_incomparable_sources")
            else:
                ctx.count("failures_checked")
                if cyclic:
                    ctx.count("cyclic_graph_failures")
            if e.failing_candidate:
                ctx.count("failing_candidate_pairs")
            ctx.count("pairs_min_offers_%d" % min(e.L, 6))
            # history features (what an implementation that remembers anything
            # per type would get wrong)
            prev = last_seen.get((src, ti))
            hist = "first"
            if prev is not None:
                hist = "repeat-same-object" if prev[0] == oi else "repeat-other-object"
                if prev[0] != oi:
                    ctx.count("history_repeat_queries_other_object_same_type")
                    if prev[1] != e.status or prev[2] != e.minset:
                        hist = "repeat-other-object-admissible-set-changed"
                        ctx.count("history_admissible_set_differs_from_previous_object")
                    if (e.status == "chain" and prev[3] is not None and prev[3] in e.allset
                            and prev[3] not in e.minset):
                        hist = "repeat-previous-chain-works-but-is-longer"
                        ctx.count("history_previous_chain_works_here_but_is_not_minimal")
                    if (e.status == "chain" and e.L == 1 and e.spec_relevant and prev[3] is not None
                            and prev[3] in e.minset and prev[1] == "chain" and prev[2] != e.minset):
                        ctx.count("history_single_step_candidates_differ_from_previous_object")
            if live["abc"]:
                ctx.count("queries_after_late_abc_registration")
            if e.status == "chain" and len(sample_queries) < 3 and (e.L > 1 or e.failing_candidate):
                sample_queries.append({"source": src.__name__, "object_flag": flag, "target": tgt.__name__,
                                       "min_offers": e.L, "admissible_visible_chains": sorted(e.minset),
                                       "successful_sequences": len(e.allset), "history": hist})
            observed_adapt = None
            stop = False
            violated = False
            NEST.pending[:] = [(src, tgt)]          # the outer request of this query
            for layer, route in routes:
                INFO["last"] = None
                del nested_complaints[:]
                if layer == "m":
                    INFO["extra_adapter_objects"] = 0
                    c, oc = check_manager_route(route, m, obj, tgt, e, offers, sub, limit, profiled)
                    ctx.count("adapt_results_judged")
                    if route == "adapt" and c is None and INFO["extra_adapter_objects"] > 0:
                        ctx.count("info_min_offers_result_has_more_adapter_objects_than_a_longer_"
                                  "sequence_through_null_adapters")
                else:
                    c, oc = check_trait_route(route, h, ti, obj, e, offers, sub, limit, profiled, ctx)
                    ctx.count("trait_assignments")
                    if oc == "TraitError":
                        ctx.count("trait_errors_expected" if c is None else "trait_errors_unexpected")
                ctx.ev()
                if INFO["last"] is not None and INFO["last"][0] in ("obj", "ad"):
                    observed_adapt = INFO["last"][1]
                if ST.last_used * 20 > limit:
                    ctx.count("calls_using_over_5pct_of_step_budget")
                if e.status != "provides" or c:
                    ctx.sig(flavour, route, e.status, min(e.L, 5),
                            min(len(next(iter(e.minset))), 5) if e.minset else -1,
                            min(e.nmin, 3), e.ident_in_min, e.failing_candidate,
                            e.spec_relevant, oc, bool(c), hist)
                if nested_complaints:
                    layer, c = "n", nested_complaints[0]
                if c:
                    violated = True
                    stop = report(layer, route, c, oc, e, hist, oi, ti, qi, limit)
                    break            # this query's history stops at its first violation
                if layer == "t" and hv_state["active"] and hrng.random() < (
                        0.3 if e.status == "chain" else 0.05):
                    if holder_check(route, ti, oi, e, limit, hist, qi):
                        violated = True
                        break
                    if ST.last_used * 20 > limit:
                        ctx.count("calls_using_over_5pct_of_step_budget")
            if stop:
                return
            # ---- re-assignment: the SAME object to the same trait of the same
            # holder instance, after what adapt(obj, target) yields may have
            # changed (object flag flipped, offer registered on the live manager,
            # late ABC registration); the stored value / shadow after the second
            # assignment is judged against the enumeration at that moment
            if not violated and rng.random() < 0.08:
                rroute = rng.choice(REASSIGN_ROUTES)
                INFO["last"] = None
                del nested_complaints[:]
                c1, oc1 = check_trait_route(rroute, h, ti, obj, e, offers, sub, limit, profiled, ctx)
                ctx.ev()
                ctx.count("trait_assignments")
                if nested_complaints:
                    if report("n", rroute, nested_complaints[0], oc1, e, hist, oi, ti, qi, limit):
                        return
                elif c1:
                    if report("t", rroute, c1, oc1, e, hist, oi, ti, qi, limit):
                        return
                else:
                    kinds = []
                    if flagged:
                        kinds += ["flag-flipped"] * 4
                    if live["general"] < 1:
                        kinds += ["offer-registered"] * 3
                    if live["own_null"] < 1 and e.status != "provides":
                        # own stratum: a null adapter registered for the object's
                        # own type, after which adapt() answers the object itself
                        kinds += ["null-adapter-for-own-type-registered"]
                    if live["abc"] < (2 if late else 1) and any(isinstance(c, abc.ABCMeta) for c in classes):
                        kinds += ["abc-registered"]
                    change = rng.choice(kinds) if kinds else "nothing"
                    if change == "flag-flipped":
                        flag = objs[oi][2] = rng.choice([f for f in range(4) if f != flag])
                        obj._c17_flag = flag
                    elif change == "offer-registered":
                        if live_offer_registration(qi, src, tgt) != "done":
                            change = "nothing"
                    elif change == "null-adapter-for-own-type-registered":
                        if live_offer_registration(qi, src, tgt, own_null=True) != "done":
                            change = "nothing"
                    elif change == "abc-registered":
                        r = late_abc_registration(qi)
                        if r == "too-large":
                            break
                        if r != "done":
                            change = "nothing"
                    e2, limit = expectation(oi, ti)
                    answer_changed = (e2.status, e2.minset) != (e.status, e.minset)
                    hist2 = "same-object-reassigned-after-%s%s" % (
                        change, "-answer-changed" if answer_changed else "")
                    INFO["last"] = None
                    slot_before = adapted_slot(rroute, ti)
                    del nested_complaints[:]
                    c2, oc2 = check_trait_route(rroute, h, ti, obj, e2, offers, sub, limit, profiled, ctx)
                    if nested_complaints:
                        if report("n", rroute, nested_complaints[0], oc2, e2, hist, oi, ti, qi, limit):
                            return
                        c2 = None
                    if c2 and not c2.startswith("nontermination") and slot_before is not MISSING \
                            and adapted_slot(rroute, ti) is slot_before:
                        # observation, not inference: the adapted value exposed by
                        # the trait is the very object from before this assignment,
                        # and it is not what the manager answers now
                        seen = INFO["last"]
                        now = guarded(lambda: m.adapt(obj, tgt, None), limit, profiled)
                        INFO["last"] = seen
                        if now[0] == "ok" and describe(now[1], obj) != describe(slot_before, obj):
                            c2 = "reassigned-same-object/keeps-the-earlier-adapted-value" + (
                                "-when-adapt-now-returns-the-object-itself" if now[1] is obj else "")
                    ctx.ev()
                    ctx.count("trait_assignments")
                    ctx.count("reassignments_of_same_object")
                    ctx.count("reassignments_after_" + change)
                    if answer_changed:
                        ctx.count("reassignments_with_changed_adaptation_answer")
                        ctx.count("reassignments_with_changed_answer_via_" + rroute)
                        if e.status == "chain" and e2.status == "chain":
                            ctx.count("reassignments_chain_to_different_chain")
                    ctx.sig(flavour, rroute, "reassign", change, e.status, e2.status, answer_changed,
                            min(e2.L, 5), oc2, bool(c2))
                    if c2:
                        if report("t", rroute, c2, oc2, e2, hist2, oi, ti, qi, limit):
                            return
                    e = e2
            last_seen[(src, ti)] = (oi, e.status, e.minset, observed_adapt)
        if sample_queries and len(ctx.samples) < 4:
            ctx.sample(dict(desc, queries=sample_queries))
    finally:
        if NEST.declined:
            ctx.count("reentrant_factory_declined_because_of_the_nested_answer", NEST.declined)
            NEST.declined = 0
        NEST.maxd = 0
        NEST.depth = 0
        NEST.request = None
        HV.cleanup(hv_created)
        set_global_adaptation_manager(prev_manager)
        if modname is not None:
            sys.modules.pop(modname, None)


def run(ctx):
    ngraphs = ctx.scale(4000, 150000)
    batch = 10
    for b0 in range(0, ngraphs, batch):
        if not ctx.mine(b0 // batch):
            continue
        for gi in range(b0, min(b0 + batch, ngraphs)):
            if not ctx.begin("g:%d" % gi):
                continue
            try:
                run_case(ctx, gi)
            except CaseTimeout:
                ctx.timed_out({"graph": gi})
            finally:
                ctx.end()
