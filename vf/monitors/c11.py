"""C11 -- deferred traits mirror their target (DelegatesTo / PrototypedFrom).

Oracle: a tiny interpreter over *cells* (the target value of a terminal object,
the local value of a PrototypedFrom attribute).  DelegatesTo reads
getattr(current delegate, target) and assigning it is setattr(current delegate,
target, v); PrototypedFrom reads its prototype until assigned locally (the value
is validated by the trait at the end of the chain), then its own value; `del`
restores the link.  Notification: a change of the cell a deferring attribute
currently reads through produces exactly one call per mechanism with the new
value; a change of any other cell produces none.  See DESIGN.md section 4 / C11.

Strata beyond the base workload (each with its own counters and gates): delegates
that define equality (a swap to a distinct but EQUAL delegate must be followed
like any other swap), and deferring traits that override an alternative
declaration of the same name (re-declared in a subclass / first of two bases):
the forwarder must follow the declaration that governs reads and writes; and
delegate references that are COMPUTED rather than stored (the name the deferring
trait goes through is a Property, cached or not, announcing its changes with
depends_on / observe, directly on a source trait or through a holder object; or
is itself a DelegatesTo / PrototypedFrom into a holder object; or is an Instance
whose value comes from a dynamic default): the current delegate is whatever the
reference reads as, and it is re-pointed by changing what the reference is
computed from (own extra histories, so that the base workload is unchanged).
"""
import collections
import copy as copy_module
import pickle

from traits.api import (
    HasTraits, Instance, Int, Range, Str, CInt, Enum, Any, TraitError,
    DelegatesTo, PrototypedFrom, DelegationError, push_exception_handler,
    ComparisonMode, Property, cached_property,
)
from traits.observation.api import (
    push_exception_handler as obs_push_exception_handler,
)

META = {
    "level": "exploration",
    "rule": ("case = one random history of 15 (thorough: 15-25) operations on a freshly built "
             "deferral structure: depth 1 (deferrer -> terminal) or 2 (front -> middle -> terminal), "
             "each level drawn from {DelegatesTo, PrototypedFrom} x prefix style {same name, explicit "
             "name, 'pre_*', '*' with __prefix__} x listenable {True, False}; two candidate delegates "
             "at every level (two middles, two terminals, possibly of different target trait types "
             "Int / Range / Str / CInt / Enum); per level the deferring class either defines its "
             "traits and __prefix__ or inherits them from a base class; stratum re-declaration (14% of "
             "the levels): the deferring trait is declared next to an ALTERNATIVE declaration of the same "
             "name that the class overrides - a subclass re-declares what its base declares differently, "
             "base / middle / subclass declare real / alternative / real, or two bases declare the name "
             "(real first in the MRO) - the alternative being a DelegatesTo / PrototypedFrom through the "
             "same or another reference trait ('o'), another prefix style / target name / listenable, "
             "or an ordinary value trait; stratum delegate equality (16% of the histories): the "
             "candidate delegate classes of every level define __eq__ (equal iff the mirrored value is "
             "equal / all delegates equal; hashable or __hash__ = None) and the reference trait has "
             "comparison_mode {default, none, identity, equality}, swaps there are steered towards a "
             "DISTINCT candidate that compares EQUAL to the current delegate (the assignment that makes "
             "it equal is issued first); stratum computed delegate reference (extra histories, "
             "quick 5600 / thorough 100000, all else as above but identity equality and plain "
             "declarations): at one or both levels the reference the deferring trait names is not a "
             "stored Instance but a Property (cached / uncached x depends_on / observe, computed from a "
             "source trait of the same object or from source.ref of a holder object), a DelegatesTo / "
             "PrototypedFrom into a holder object (re-pointed by assigning holder.ref, by assigning the "
             "reference itself - which for PrototypedFrom makes it local - by deleting that local value, "
             "or by replacing the holder), or an Instance with a dynamic default; sub-strata: swaps of an "
             "UNCACHED Property reference allowed / never drawn, replacement of the holder of a DEFERRED "
             "reference (incl. a holder given to the constructor and round trips) allowed / never drawn "
             "(each an open finding with its own key); recorders {on_trait_change, "
             "observe, both, none} on every deferring attribute.  Ops: assign through a deferring "
             "attribute (valid, coerced or invalid), assign the target on any terminal, swap a "
             "delegate reference (to either candidate, or to None and back), del a local value, "
             "read, assign an unrelated attribute of a delegate (one of the names the other prefix "
             "styles would resolve to; also on the middle objects below a re-declaring level), re-point "
             "the reference only an alternative declaration names, "
             "an assignment with a re-entrant handler armed (a handler on a deferring "
             "attribute or on the delegate that reacts to the notifications it is told by assigning "
             "the same target again, directly or through a deferring attribute, fixed values or "
             "clamping, at most 3 reactions), and a round trip of the whole structure "
             "through pickle (protocols 2-5) / copy.deepcopy / clone_traits after which the history "
             "continues on the copies (their cells are adopted by observation, recorders are "
             "re-attached).  After every op the cells (terminal values, decoy attributes, local "
             "values in __dict__), the values read through every deferring attribute and the "
             "recorded calls are compared with the interpreter.  distinct_nontrivial counts distinct "
             "(kinds, styles, listenable, op kind, outcome class, link state, notification verdict "
             "of the front attribute) signatures of ops that changed a value, were rejected, "
             "re-pointed a delegate or deleted a local value."),
    "phases": [{"name": "main", "flavour": "P", "shards": 16}],
    "gates": {
        "quick": {"evaluations": 200000, "ops": 70000, "notify_must_checked": 20000,
                  "notify_none_checked": 100000, "invalid_checked": 4000, "del_checked": 4000,
                  "swap_checked": 10000, "chain_ops": 40000, "must_after_swap": 4000,
                  "must_after_del": 1500, "must_through_chain": 2500,
                  "coerced_assignments": 2500,
                  "roundtrip_pickle": 5000, "roundtrip_deepcopy": 2000, "roundtrip_clone": 2000,
                  "none_linkbroken_after_pickle": 3000, "none_linkbroken_after_deepcopy": 1800,
                  "none_linkbroken_after_clone": 1700, "must_after_pickle": 9000,
                  "must_after_deepcopy": 3500, "must_after_clone": 3500,
                  "must_inherited_prefix": 2700, "reads_inherited_prefix": 16000,
                  "swap_to_none": 3000, "swap_from_none": 1500, "none_while_no_delegate": 12000,
                  "none_former_after_none": 700, "none_linkbroken_after_none": 750,
                  "must_after_none": 1200, "no_delegate_assign_checked": 4000,
                  "no_delegate_reads": 12000,
                  "reentrant_ops": 8000, "reentrant_must_checked": 8000,
                  "reentrant_nested_changes": 6000, "reentrant_depth_2plus": 1200,
                  "reentrant_must_through_chain": 1200, "reentrant_route_through": 1500,
                  "reentrant_route_direct": 4000, "reentrant_on_front": 1500,
                  "reentrant_on_middle": 1500, "reentrant_on_terminal": 1500,
                  "reentrant_clamp": 2000,
                  "histories_eq_delegates": 2400, "swap_to_equal_distinct": 2100,
                  "swap_to_equal_distinct_value": 850, "swap_to_equal_distinct_always": 1250,
                  "swap_to_equal_distinct_refcmp_set": 1600, "must_after_equal_swap": 1500,
                  "none_former_after_equal_swap": 900, "must_eq_delegates": 12000,
                  "histories_redeclared": 3200, "must_redeclared": 12000,
                  "must_redeclared_redeclares": 3800, "must_redeclared_reback": 3800,
                  "must_redeclared_mixin": 3800, "none_redeclared_elsewhere": 11500,
                  "swap_other_ref_checked": 950, "decoy_assign_checked": 3200,
                  "decoy_assign_on_middle": 110,
                  "histories_computed_ref": 5000, "must_computed_ref": 9500,
                  "must_computed_ref_DelegatesTo": 7500, "must_computed_ref_PrototypedFrom": 1900,
                  "must_ref_cached_property": 3300, "must_ref_uncached_property": 3200,
                  "must_ref_deferred": 1900, "must_ref_dynamic_default": 1650,
                  "must_after_swap_computed_ref": 800, "must_after_del_computed_ref": 650,
                  "must_after_del_ref_cached_property": 200, "must_after_del_ref_deferred": 140,
                  "must_after_del_ref_uncached_property": 170,
                  "must_after_roundtrip_computed_ref": 3000,
                  "none_linkbroken_computed_ref": 4200, "none_linkbroken_ref_cached_property": 1600,
                  "none_linkbroken_ref_deferred": 900, "none_linkbroken_ref_uncached_property": 1500,
                  "none_former_computed_ref": 7000, "none_former_ref_cached_property": 2500,
                  "none_former_ref_deferred": 1450, "swap_computed_ref": 3600,
                  "swap_how_src": 2000, "swap_how_holder": 450, "swap_how_p": 350,
                  "swap_how_unlocal": 100, "reentrant_must_computed_ref": 2500,
                  "computed_ref_judged_in_finding_substratum": 4000},
        "thorough": {"evaluations": 4500000, "ops": 1650000, "notify_must_checked": 480000,
                     "notify_none_checked": 2200000, "invalid_checked": 100000, "del_checked": 90000,
                     "swap_checked": 220000, "chain_ops": 800000, "must_after_swap": 85000,
                     "must_after_del": 38000, "must_through_chain": 55000,
                     "coerced_assignments": 60000,
                     "roundtrip_pickle": 65000, "roundtrip_deepcopy": 26000, "roundtrip_clone": 26000,
                     "none_linkbroken_after_pickle": 50000, "none_linkbroken_after_deepcopy": 30000,
                     "none_linkbroken_after_clone": 30000, "must_after_pickle": 160000,
                     "must_after_deepcopy": 55000, "must_after_clone": 55000,
                     "must_inherited_prefix": 45000, "reads_inherited_prefix": 230000,
                     "swap_to_none": 40000, "swap_from_none": 20000, "none_while_no_delegate": 160000,
                     "none_former_after_none": 10000, "none_linkbroken_after_none": 12000,
                     "must_after_none": 18000, "no_delegate_assign_checked": 55000,
                     "no_delegate_reads": 160000,
                     "reentrant_ops": 100000, "reentrant_must_checked": 100000,
                     "reentrant_nested_changes": 80000, "reentrant_depth_2plus": 16000,
                     "reentrant_must_through_chain": 16000, "reentrant_route_through": 20000,
                     "reentrant_route_direct": 50000, "reentrant_on_front": 20000,
                     "reentrant_on_middle": 20000, "reentrant_on_terminal": 20000,
                     "reentrant_clamp": 26000,
                     "histories_eq_delegates": 32000, "swap_to_equal_distinct": 33000,
                     "swap_to_equal_distinct_value": 13500, "swap_to_equal_distinct_always": 19500,
                     "swap_to_equal_distinct_refcmp_set": 25000, "must_after_equal_swap": 25000,
                     "none_former_after_equal_swap": 15500, "must_eq_delegates": 185000,
                     "histories_redeclared": 42000, "must_redeclared": 185000,
                     "must_redeclared_redeclares": 58000, "must_redeclared_reback": 58000,
                     "must_redeclared_mixin": 58000, "none_redeclared_elsewhere": 180000,
                     "swap_other_ref_checked": 15000, "decoy_assign_checked": 50000,
                     "decoy_assign_on_middle": 1600,
                     "histories_computed_ref": 90000, "must_computed_ref": 200000,
                     "must_computed_ref_DelegatesTo": 160000, "must_computed_ref_PrototypedFrom": 39000,
                     "must_ref_cached_property": 70000, "must_ref_uncached_property": 68000,
                     "must_ref_deferred": 42000, "must_ref_dynamic_default": 36000,
                     "must_after_swap_computed_ref": 21000, "must_after_del_computed_ref": 14500,
                     "must_after_del_ref_cached_property": 4600, "must_after_del_ref_deferred": 3100,
                     "must_after_del_ref_uncached_property": 4400,
                     "must_after_roundtrip_computed_ref": 75000,
                     "none_linkbroken_computed_ref": 93000, "none_linkbroken_ref_cached_property": 36000,
                     "none_linkbroken_ref_deferred": 20000, "none_linkbroken_ref_uncached_property": 35000,
                     "none_former_computed_ref": 155000, "none_former_ref_cached_property": 59000,
                     "none_former_ref_deferred": 34000, "swap_computed_ref": 79000,
                     "swap_how_src": 45000, "swap_how_holder": 10000, "swap_how_p": 7600,
                     "swap_how_unlocal": 2000, "reentrant_must_computed_ref": 55000,
                     "computed_ref_judged_in_finding_substratum": 95000},
    },
    "assumptions": [
        "reading a plain (non-deferred) trait and obj.__dict__ are trusted observation channels",
        "the reference validators for Int/Range/Str/CInt/Enum on the small value pools are right",
        "'*' resolves with the __prefix__ of the class that declares the deferring attribute "
        "(Delegate docstring and ctraits), not of the delegate's class",
        "while a delegate reference on the way is None, reads and writes of a deferring "
        "attribute are outside the statement (only: documented error classes, nothing changes, "
        "nothing is notified); the notification laws for former / current delegates continue",
        "with re-entrant handlers every change of the target must be told to every handler of a "
        "linked deferring attribute exactly once (multiset); the ORDER in which nested changes "
        "reach a handler, hence which value it is told last, depends on handler registration "
        "order in traits' nested dispatch and is counted but not judged",
        "which state a pickle / deepcopy / clone_traits copy preserves is not this property's "
        "subject (C14): the copy's cells are adopted by observation, only its behaviour "
        "afterwards is judged",
        "with a computed delegate reference the current delegate is the object the reference "
        "reads as (read back as a trusted channel after every op); a reference that does not "
        "announce its changes (a Property without depends_on / observe) is outside the workload",
    ],
}

# --------------------------------------------------------------------------
# Reference validators (independent of traits) and value pools
# --------------------------------------------------------------------------


class Reject(Exception):
    pass


def ref_validate(tt, raw):
    """What the terminal trait type `tt` stores for `raw`, or Reject."""
    if tt == "Int":
        if type(raw) is int:
            return raw
    elif tt == "Range":                      # Range(0, 9)
        if type(raw) is int and 0 <= raw <= 9:
            return raw
    elif tt == "Str":
        if type(raw) is str:
            return raw
    elif tt == "CInt":
        if type(raw) in (int, str, float):
            try:
                return int(raw)
            except (TypeError, ValueError):
                pass
    elif tt == "Enum":                       # Enum('r', 'g', 'b')
        if type(raw) is str and raw in ("r", "g", "b"):
            return raw
    else:
        raise AssertionError(tt)
    raise Reject()


TT_MAKE = {
    "Int": lambda: Int(),
    "Range": lambda: Range(0, 9),
    "Str": lambda: Str(),
    "CInt": lambda: CInt(),
    "Enum": lambda: Enum("r", "g", "b"),
}
TT_DEFAULT = {"Int": 0, "Range": 0, "Str": "", "CInt": 0, "Enum": "r"}
TT_VALID = {
    "Int": [0, 1, 2, 3, 4, 5, 6, 40, -7],
    "Range": [0, 1, 2, 3, 4, 5, 6, 7, 8, 9],
    "Str": ["a", "b", "c", "dd", "", "r"],
    "CInt": [0, 1, 2, 3, "7", "12", 4.0, 5.9, "-3"],
    "Enum": ["r", "g", "b"],
}
HOSTILE = ["bad", None, 1.5, -1, 10, 3, "g", "7", (1,), 2.0, "x"]
DECOY_VALUES = [0, 1, 2, 7, "a", "g", "decoy", None, 2.5]
TTYPES = ["Int", "Range", "Str", "CInt", "Enum"]

ABSENT = "<absent>"        # model marker: no local value


def same_value(a, b):
    return type(a) is type(b) and a == b


# --------------------------------------------------------------------------
# Classes under test (built per configuration, cached)
# --------------------------------------------------------------------------
STYLES = ["same", "named", "pre_star", "star"]
KIND_NAME = {"D": "DelegatesTo", "P": "PrototypedFrom"}
_cls_cache = {}
_cls_serial = [0]


def resolve(style, name, named, cls_prefix):
    """Prefix rules of the Delegate docstring."""
    if style == "same":
        return name
    if style == "named":
        return named
    if style == "pre_star":
        return "pre_" + name
    return cls_prefix + name


def _new_class(name, bases, ns):
    """Create a HasTraits class and register it at module level so that its
    instances pickle (pickle finds classes by module + qualified name)."""
    _cls_serial[0] += 1
    name = "%s%d" % (name, _cls_serial[0])
    ns = dict(ns)
    ns["__module__"] = __name__
    cls = type(HasTraits)(name, bases, ns)
    globals()[name] = cls
    return cls


# How the class of a deferring object comes by its deferring trait:
#   plain        declared once (on the class, or on its base when `inherit`)
#   redeclares   a base class declares the same name differently (the *alternative*
#                declaration), the subclass re-declares it (the real one)
#   reback       base: real, middle class: alternative, subclass: real again
#   mixin        two bases declare the name (real first in the MRO, alternative second)
SHAPES = ["plain", "redeclares", "reback", "mixin"]
# Equality of the candidate delegate objects:
#   identity     default object equality
#   value        equal iff the value read through the mirrored attribute is equal
#   always       all delegates compare equal
# (+ "-unhashable": __hash__ = None, as Python does for a class that only defines __eq__)
EQMODES = ["identity", "value", "value-unhashable", "always", "always-unhashable"]
REFCMP = {"default": None, "none": ComparisonMode.none, "identity": ComparisonMode.identity,
          "equality": ComparisonMode.equality}


def _eq_key(o):
    name = getattr(type(o), "vf_key_attr", None)
    if name is None:
        return ("id", id(o))
    try:
        v = getattr(o, name)
    except Exception:  # noqa: BLE001 - no delegate on the way
        return ("unreadable",)
    return (type(v).__name__, v)


def _eq_value(self, other):
    return other is self or (isinstance(other, HasTraits) and _eq_key(self) == _eq_key(other))


def _eq_always(self, other):
    return isinstance(other, HasTraits)


def eq_namespace(eqmode, keyattr):
    if eqmode == "identity":
        return {}
    ns = {"vf_key_attr": keyattr,
          "__eq__": _eq_value if eqmode.startswith("value") else _eq_always,
          "__hash__": None if eqmode.endswith("unhashable") else HasTraits.__hash__}
    return ns


# How the delegate reference `p` of a deferring class gets its value:
#   stored                    Instance(HasTraits), assigned
#   prop-[cached-]depends_on  Property (cached or not) announcing itself with depends_on /
#   prop-[cached-]observe     observe=, computed from the trait `src` (via "direct") or from
#                             `src.ref` of a holder object (via "holder")
#   deleg / proto             p is itself DelegatesTo / PrototypedFrom('src', prefix='ref')
#                             into a holder object
#   dyndefault                Instance(HasTraits) whose first value comes from _p_default
REFKINDS = ["stored", "prop-cached-depends_on", "prop-cached-observe", "prop-depends_on",
            "prop-observe", "deleg", "proto", "dyndefault"]
REF_FAMILY = {"stored": "stored", "prop-cached-depends_on": "cached-property",
              "prop-cached-observe": "cached-property", "prop-depends_on": "uncached-property",
              "prop-observe": "uncached-property", "deleg": "deferred", "proto": "deferred",
              "dyndefault": "dynamic-default"}
UNCACHED = ("prop-depends_on", "prop-observe")
DEFERRED = ("deleg", "proto")
DYN_DEFAULT = {}       # id(object) / "next" -> the delegate its dynamic default hands out


class RefHolder(HasTraits):
    """Object a computed delegate reference is read from."""
    ref = Instance(HasTraits)


def _dyn_default(self):
    return DYN_DEFAULT.get(id(self), DYN_DEFAULT.get("next"))


def _make_getter(via):
    if via == "direct":
        def _get_p(self):
            return self.src
    else:
        def _get_p(self):
            holder = self.src
            return None if holder is None else holder.ref
    return _get_p


def reference_namespace(refkind, via, kw):
    if refkind == "stored":
        return {"p": Instance(HasTraits, **kw)}
    if refkind == "dyndefault":
        return {"p": Instance(HasTraits), "_p_default": _dyn_default}
    if refkind in DEFERRED:
        T = DelegatesTo if refkind == "deleg" else PrototypedFrom
        return {"src": Instance(RefHolder, ()), "p": T("src", prefix="ref")}
    getter = _make_getter(via)
    announce = {"observe" if refkind.endswith("observe") else "depends_on":
                "src" if via == "direct" else "src.ref"}
    return {"src": Instance(HasTraits), "p": Property(**announce),
            "_get_p": cached_property(getter) if "cached" in refkind else getter}


def declaration(decl):
    """decl = (kind, reference name, style, explicit name, listenable); kind 'V' is an
    ordinary value trait (only as the alternative declaration of a base class)."""
    kind, ref, style, named, listen = decl
    if kind == "V":
        return Any("plain")
    T = DelegatesTo if kind == "D" else PrototypedFrom
    kw = {}
    if style == "named":
        kw["prefix"] = named
    elif style == "pre_star":
        kw["prefix"] = "pre_*"
    elif style == "star":
        kw["prefix"] = "*"
    if not listen:
        kw["listenable"] = False
    return T(ref, **kw)


def deferrer_class(kind, style, listen, attr, named, cls_prefix, inherit=False,
                   shape="plain", alt=None, decoys=(), eqmode="identity", refcmp="default",
                   refkind="stored", via="direct"):
    """inherit: the instantiated class is an empty subclass; __prefix__ and the
    deferring trait are defined on its base class(es)."""
    key = ("D", kind, style, listen, attr, named, cls_prefix, inherit,
           shape, alt, decoys, eqmode, refcmp, refkind, via)
    cls = _cls_cache.get(key)
    if cls is None:
        real = (kind, "p", style, named, listen)
        kw = {} if REFCMP[refcmp] is None else {"comparison_mode": REFCMP[refcmp]}
        ns = {"__prefix__": cls_prefix}
        ns.update(reference_namespace(refkind, via, kw))
        if shape != "plain":
            ns["o"] = Instance(HasTraits)       # the reference an alternative declaration may use
        for d in decoys:
            ns[d] = Any("decoy:" + d)
        ns.update(eq_namespace(eqmode, attr))
        if shape == "plain":
            ns[attr] = declaration(real)
            cls = _new_class("Def", (HasTraits,), ns)
        elif shape == "redeclares":
            ns[attr] = declaration(alt)
            base = _new_class("DefBase", (HasTraits,), ns)
            cls = _new_class("DefRe", (base,), {attr: declaration(real)})
        elif shape == "reback":
            ns[attr] = declaration(real)
            base = _new_class("DefBase", (HasTraits,), ns)
            mid = _new_class("DefAlt", (base,), {attr: declaration(alt)})
            cls = _new_class("DefRe", (mid,), {attr: declaration(real)})
        else:
            root = _new_class("DefRoot", (HasTraits,), ns)
            first = _new_class("DefMixA", (root,), {attr: declaration(real)})
            second = _new_class("DefMixB", (root,), {attr: declaration(alt)})
            cls = _new_class("DefMix", (first, second), {})
        if inherit:
            cls = _new_class("DefSub", (cls,), {})
        _cls_cache[key] = cls
    return cls


def terminal_class(target, tt, decoys, eqmode="identity"):
    key = ("T", target, tt, decoys, eqmode)
    cls = _cls_cache.get(key)
    if cls is None:
        ns = {target: TT_MAKE[tt]()}
        for d in decoys:
            ns[d] = Any("decoy:" + d)
        ns.update(eq_namespace(eqmode, target))
        cls = _new_class("Term", (HasTraits,), ns)
        _cls_cache[key] = cls
    return cls


# --------------------------------------------------------------------------
# The interpreter (model)
# --------------------------------------------------------------------------
class Term:
    is_def = False

    def __init__(self, serial, tt, target):
        self.serial, self.tt, self.target = serial, tt, target
        self.value = TT_DEFAULT[tt]
        self.obj = None
        self.label = "t%d" % serial


class Defer:
    is_def = True

    def __init__(self, serial, level, kind, style, listen, attr, cands, label):
        self.serial, self.level, self.kind, self.style = serial, level, kind, style
        self.listen, self.attr, self.cands, self.label = listen, attr, cands, label
        self.ref = None
        self.local = ABSENT
        self.obj = None
        self.swapped = False     # its reference was re-pointed at least once
        self.deleted = False     # its local value was deleted at least once
        self.copied = None       # how the current object was produced by a round trip
        self.via_none = False    # its reference was cleared (None) and set again
        self.eqswap = False      # its reference was last re-pointed to a distinct object that compared equal
        self.shape = "plain"     # how its class comes by the deferring trait (SHAPES)
        self.refkind = "stored"  # how its delegate reference gets its value (REFKINDS)
        self.via = "direct"      # Property reference: computed from src / from src.ref
        self.holder_ref = None   # deferred reference: node the holder's `ref` points to
        self.ref_local = False   # PrototypedFrom reference: assigned locally
        self.repointed = False   # its reference was re-pointed to another object / None
        self.holder_replaced = False   # deferred reference: the holder object was replaced
        self.kinds = ""          # e.g. "D>P": kinds from this level down


def m_end(n):
    """(linked deferring levels passed through, node holding the cell read).
    The node is None when a linked level has no delegate (reference cleared):
    reading is then outside the statement."""
    levels = []
    while n is not None and n.is_def and not (n.kind == "P" and n.local is not ABSENT):
        levels.append(n)
        n = n.ref
    return levels, n


def m_read(n):
    end = m_end(n)[1]
    return end.local if end.is_def else end.value


def m_terminal(n):
    """Object whose trait validates an assignment (None: a reference on the way is cleared)."""
    while n is not None and n.is_def:
        n = n.ref
    return n


def m_assign(n, raw):
    """Assign through deferring node n.  Returns (cell node, old, new)."""
    v = ref_validate(m_terminal(n).tt, raw)      # may raise Reject: nothing changes
    while n.is_def and n.kind == "D":            # setattr(current delegate, target, v)
        n = n.ref
    old = m_read(n)
    if n.is_def:
        n.local = v
    else:
        n.value = v
    return n, old, v


def kinds_from(n):
    return n.kinds


def d_walk(n):
    """Terminal node in which an assignment through n is stored when every level on
    the way is a DelegatesTo (None otherwise: a prototype level or a cleared reference)."""
    while n is not None and n.is_def:
        if n.kind != "D":
            return None
        n = n.ref
    return n


def clamp(tt, told):
    """Reaction of a normalising handler to the value it is told (None: fine as it is)."""
    if tt in ("Int", "Range", "CInt"):
        return 2 if type(told) is int and told > 2 else None
    if tt == "Str":
        return "a" if told != "a" else None
    return "g" if told != "g" else None


def delegateless(n):
    """n is a deferring (middle) node whose own delegate reference is None."""
    return n is not None and n.is_def and n.ref is None


def ref_chain(n):
    """Deferring nodes from n down along the current references (locals ignored)."""
    out = []
    while n is not None and n.is_def:
        out.append(n)
        n = n.ref
    return out


# --------------------------------------------------------------------------
# One history
# --------------------------------------------------------------------------
class Stop(Exception):
    """The history ended at its first violation."""

    def __init__(self, key, msg, extra=None):
        Exception.__init__(self, key)
        self.key, self.msg, self.extra = key, msg, extra


class EndQuietly(Exception):
    """The history cannot be continued for a reason outside this property
    (e.g. a copy that raised); it ends without a verdict."""


class NullCtx:
    """Counter sink used while a failing history is re-run for shrinking."""

    def __init__(self, ctx):
        self.quick = ctx.quick

    def ev(self, n=1):
        pass

    def count(self, name, n=1):
        pass

    def sig(self, *parts):
        pass


NO_DELEGATE_ERRORS = (TraitError, AttributeError, DelegationError)
ROUNDTRIPS = ["pickle2", "pickle3", "pickle4", "pickle5", "pickle5",
              "deepcopy", "deepcopy", "clone", "clone"]


def round_trip(how, objs):
    """Copies of objs (same order, sharing preserved) through one mechanism."""
    if how.startswith("pickle"):
        return pickle.loads(pickle.dumps(objs, protocol=int(how[6:])))
    if how == "deepcopy":
        return copy_module.deepcopy(objs)
    memo = {}
    out = []
    for o in objs:                       # clone_traits, delegates travel via the memo
        c = memo.get(id(o))
        if c is None:
            c = o.clone_traits(memo=memo)
        out.append(c)
    return out


class History:
    def __init__(self, ctx, hid, rng, computed=False):
        self.ctx, self.hid, self.rng = ctx, hid, rng
        self.computed = computed     # stratum: computed delegate references
        self.log = []            # (node serial, mechanism, name, new)
        self.trace = []
        self.terms, self.defs, self.mechs = [], [], ()
        self.front_verdict = "-"
        self.epoch = 0
        self.draw_config()

    # -- configuration ------------------------------------------------------
    def draw_config(self):
        rng = self.rng
        self.depth = 1 if rng.random() < 0.4 else 2
        self.levels = []
        for _ in range(self.depth):
            self.levels.append((rng.choice("DP"), rng.choice(STYLES), rng.random() < 0.75))
        # class flavour per level: traits and __prefix__ defined on the class
        # itself, or inherited from a base class
        self.inherit = [rng.random() < 0.3 for _ in range(self.depth)]
        tt0 = rng.choice(TTYPES)
        tt1 = tt0 if rng.random() < 0.65 else rng.choice(TTYPES)
        self.tts = (tt0, tt1)
        self.pref = ["q_", "q_"]
        # stratum: the two deferring classes carry different __prefix__ values
        if self.depth == 2 and self.levels[1][1] == "star" and rng.random() < 0.25:
            self.pref[1] = "r_"
        self.prefixdiff = self.pref[0] != self.pref[1]
        self.mix = rng.choices(["both", "otc", "obs", "none"], [55, 15, 15, 15])[0]
        self.init_explicit = rng.random() < 0.8
        self.late_ref = rng.random() < 0.2
        self.ctor_local = self.levels[0][0] == "P" and not self.late_ref and rng.random() < 0.15
        # strata around patterns that may hit an open finding
        kinds = "".join(k for k, _, _ in self.levels)
        self.front_write_ok = not (kinds == "DP" and (rng.random() < 0.5 or self.prefixdiff))
        self.del_unlistenable_ok = rng.random() < 0.5
        # stratum: ops that (re)hook the front attribute's listener onto a middle
        # object whose own delegate reference is None (swap of the front reference
        # to it, or a round trip in that state)
        self.hook_delegateless_ok = self.depth == 2 and rng.random() < 0.4
        # stratum: re-entrant handlers (a handler that reacts to a notification by
        # changing the same target again); the reacting handlers are attached only here
        self.reentrant = rng.random() < 0.35
        self.react_mech = rng.choice(["otc", "obs"])
        self.armed = None
        self.react_log = []
        self.nsteps = 15 if self.ctx.quick or rng.random() < 0.7 else 25
        names = ["x"]
        named = ["y", "z"]
        for lv in range(self.depth):
            names.append(resolve(self.levels[lv][1], names[-1], named[lv], self.pref[lv]))
        self.names = names
        # stratum: the candidate delegates define equality (by mirrored value / all equal,
        # hashable or not) and the reference trait has any comparison mode; swaps are
        # steered towards a distinct candidate that compares equal to the current one
        self.eqmode, self.refcmp = "identity", "default"
        if rng.random() < 0.16:
            self.eqmode = rng.choice(EQMODES[1:])
            self.refcmp = rng.choice(sorted(REFCMP))
        self.pending = []
        # stratum: the deferring trait is a re-declaration (or one of two inherited
        # declarations) next to an alternative declaration of the same name that defers
        # elsewhere: other reference ('o'), other target name, other kind, or no deferral
        self.shape, self.alt = [], []
        for lv in range(self.depth):
            shape = rng.choice(SHAPES[1:]) if rng.random() < 0.14 else "plain"
            alt = None
            if shape != "plain":
                kind, style, listen = self.levels[lv]
                while True:
                    alt = (rng.choice("DDDPPPV"), rng.choice("po"), rng.choice(STYLES),
                           rng.choice(named), rng.random() < 0.85)
                    if alt[0] == "V":
                        alt = ("V", "-", "-", "-", True)
                        break
                    alt_target = resolve(alt[2], names[lv], alt[3], self.pref[lv])
                    if (alt[1], alt_target) != ("p", names[lv + 1]):
                        break
            self.shape.append(shape)
            self.alt.append(alt)
        self.redeclared = any(sh != "plain" for sh in self.shape)
        decoys = set()
        for src in names[:-1]:
            for st in STYLES:
                for nm in named:
                    for pf in ("q_", "r_"):
                        decoys.add(resolve(st, src, nm, pf))
        decoys.discard(names[-1])
        self.decoys = tuple(sorted(decoys))
        # the delegates of a re-declaring level carry the same unrelated attributes
        # (an alternative declaration may name one of them)
        self.mid_decoys = ()
        if self.depth == 2 and self.shape[0] != "plain":
            self.mid_decoys = tuple(d for d in self.decoys if d != names[1])
        # stratum: computed delegate references (drawn last: the histories of the base
        # workload are those of the same id without this stratum)
        self.refkind, self.via = ["stored"] * self.depth, ["direct"] * self.depth
        self.uncached_swap_ok = self.holder_swap_ok = True
        if self.computed:
            self.eqmode, self.refcmp = "identity", "default"
            self.shape, self.alt = ["plain"] * self.depth, [None] * self.depth
            self.redeclared, self.mid_decoys = False, ()
            while all(k == "stored" for k in self.refkind):
                self.refkind = [rng.choice(REFKINDS[1:]) if rng.random() < 0.7 else "stored"
                                for _ in range(self.depth)]
            self.via = [rng.choice(["direct", "holder"]) for _ in range(self.depth)]
            # sub-strata around the two open findings of this family: re-pointing an
            # UNCACHED Property reference; replacing the holder object of a DEFERRED one
            self.uncached_swap_ok = rng.random() < 0.5
            self.holder_swap_ok = rng.random() < 0.5
        self.has_deferred_ref = any(k in DEFERRED for k in self.refkind)
        self.roundtrip_ok = self.holder_swap_ok or not self.has_deferred_ref

    def brief(self):
        out = "%s|%s|%s|%s|%s|%s" % (">".join("%s:%s:%d" % lv for lv in self.levels),
                                     ",".join(self.tts), self.mix,
                                     "".join("i" if i else "-" for i in self.inherit),
                                     ",".join(self.shape), self.eqmode + ":" + self.refcmp)
        if self.computed:
            out += "|ref=" + ">".join("%s:%s" % kv for kv in zip(self.refkind, self.via))
        return out

    def describe(self):
        return {"depth": self.depth,
                "levels": [{"kind": KIND_NAME[k], "style": s, "listenable": l,
                            "class": "inherits traits and __prefix__" if inh else "defines them",
                            "declaration": sh, "alternative_declaration": alt,
                            "delegate_reference": rk if rk in ("stored", "dyndefault") or rk in DEFERRED
                            else rk + " from " + ("src" if via == "direct" else "src.ref")}
                           for (k, s, l), inh, sh, alt, rk, via in zip(
                               self.levels, self.inherit, self.shape, self.alt,
                               self.refkind, self.via)],
                "delegate_equality": self.eqmode, "reference_comparison_mode": self.refcmp,
                "names": self.names, "terminal_types": self.tts, "prefixes": self.pref[:self.depth],
                "recorders": self.mix, "late_ref": self.late_ref, "ctor_local": self.ctor_local,
                "terminals_explicit": self.init_explicit,
                "strata": {"front_write": self.front_write_ok,
                           "del_unlistenable": self.del_unlistenable_ok,
                           "hook_delegateless_middle": self.hook_delegateless_ok,
                           "reentrant_handlers": self.react_mech if self.reentrant else False,
                           "computed_reference": self.computed,
                           "uncached_reference_swaps": self.uncached_swap_ok,
                           "deferred_reference_holder_replaced": self.holder_swap_ok,
                           "prefixdiff": self.prefixdiff}}

    # -- construction -------------------------------------------------------
    def build(self):
        rng = self.rng
        named = ["y", "z"]
        self.terms = []
        DYN_DEFAULT.clear()
        for i in range(2):
            t = Term(i, self.tts[i], self.names[-1])
            cls = terminal_class(t.target, t.tt, self.decoys, self.eqmode)
            if self.init_explicit:
                raw = rng.choice(TT_VALID[t.tt])
                t.value = ref_validate(t.tt, raw)
                t.obj = cls(**{t.target: raw})
            else:
                t.obj = cls()
            self.terms.append(t)
        below = self.terms
        self.defs = []
        serial = 10
        for lv in range(self.depth - 1, -1, -1):
            kind, style, listen = self.levels[lv]
            cls = deferrer_class(kind, style, listen, self.names[lv], named[lv], self.pref[lv],
                                 self.inherit[lv], self.shape[lv], self.alt[lv],
                                 self.mid_decoys if lv == 1 else (), self.eqmode, self.refcmp,
                                 self.refkind[lv], self.via[lv])
            count = 1 if lv == 0 else 2
            row = []
            for i in range(count):
                label = "c" if lv == 0 else "m%d" % i
                d = Defer(serial, lv, kind, style, listen, self.names[lv], below, label)
                d.kinds = kinds_from_levels(self.levels[lv:])
                d.shape = self.shape[lv]
                serial += 1
                d.ref = rng.choice(below)
                d.refkind, d.via = self.refkind[lv], self.via[lv]
                kw = {}
                if d.refkind != "stored":
                    if lv == 0 and self.ctor_local:
                        raw = rng.choice(TT_VALID[m_terminal(d).tt])
                        d.local = ref_validate(m_terminal(d).tt, raw)
                        kw = {d.attr: raw}
                    d.obj = self.construct_computed(cls, d, kw)
                elif lv == 0 and self.ctor_local:
                    raw = rng.choice(TT_VALID[m_terminal(d).tt])
                    d.local = ref_validate(m_terminal(d).tt, raw)
                    kw = {"p": d.ref.obj, d.attr: raw}
                    d.obj = cls(**kw)
                elif self.late_ref:
                    d.obj = cls()
                    d.obj.p = d.ref.obj
                else:
                    d.obj = cls(p=d.ref.obj)
                if d.shape != "plain" and rng.random() < 0.85:
                    d.obj.o = rng.choice(below).obj
                row.append(d)
            self.defs = row + self.defs      # front first, then the middles
            below = row
        self.front = self.defs[0]
        self.decoy_owners = [(t, self.decoys) for t in self.terms]
        if self.mid_decoys:
            self.decoy_owners += [(d, self.mid_decoys) for d in self.defs[1:]]
        self.decoy_vals = {(n.serial, dn): "decoy:" + dn for n, dns in self.decoy_owners for dn in dns}
        self.mechs = {"both": ("otc", "obs"), "otc": ("otc",), "obs": ("obs",), "none": ()}[self.mix]
        self.attach_recorders()

    def construct_computed(self, cls, d, local_kw):
        """A deferring object whose delegate reference is computed: what the reference is
        computed from is given to the constructor, or assigned afterwards (late_ref)."""
        tobj = d.ref.obj
        if d.refkind == "dyndefault":
            DYN_DEFAULT["next"] = tobj
            obj = cls(**local_kw)
            DYN_DEFAULT[id(obj)] = tobj     # should the default not have been asked for yet
            return obj
        if d.refkind in DEFERRED:
            d.holder_ref = d.ref
            if self.holder_swap_ok and not self.late_ref:
                # the holder given to the constructor replaces the default holder
                d.holder_replaced = True
                return cls(src=RefHolder(ref=tobj), **local_kw)
            obj = cls()
            obj.src.ref = tobj
            for name, raw in local_kw.items():
                setattr(obj, name, raw)
            return obj
        srcval = tobj if d.via == "direct" else RefHolder(ref=tobj)
        if self.late_ref:
            obj = cls()
            obj.src = srcval
            return obj
        return cls(src=srcval, **local_kw)

    def attach_recorders(self):
        """Recorders on every deferring attribute of the current objects (the
        epoch silences recorders left on objects replaced by a round trip)."""
        self.epoch += 1
        for d in self.defs:
            if "otc" in self.mechs:
                d.obj.on_trait_change(self.make_otc(d.serial, self.epoch), d.attr)
            if "obs" in self.mechs:
                d.obj.observe(self.make_obs(d.serial, self.epoch), d.attr)
        if self.reentrant:
            # dormant unless armed by an op; registered after the recorders
            for n, name in [(d, d.attr) for d in self.defs] + [(t, t.target) for t in self.terms]:
                if self.react_mech == "otc":
                    n.obj.on_trait_change(self.make_reactor(n.label, self.epoch, False), name)
                else:
                    n.obj.observe(self.make_reactor(n.label, self.epoch, True), name)

    def make_reactor(self, label, epoch, is_observe):
        def react(*args):
            a = self.armed
            if a is None or epoch != self.epoch or a["on"] != label or not a["plan"]:
                return
            told = args[0].new if is_observe else args[3]
            w = a["plan"].pop(0)
            if w == "clamp":
                w = clamp(a["term"].tt, told)
                if w is None:
                    return
            self.react_log.append(w)
            if a["via"] is None:
                setattr(a["term"].obj, a["term"].target, w)     # directly on the delegate
            else:
                setattr(a["via"].obj, a["via"].attr, w)         # through a deferring attribute
        if is_observe:
            return lambda event: react(event)
        return lambda obj, name, old, new: react(obj, name, old, new)

    def make_otc(self, serial, epoch):
        log = self.log

        def otc(obj, name, old, new):
            if epoch == self.epoch:
                log.append((serial, "otc", name, new))
        return otc

    def make_obs(self, serial, epoch):
        log = self.log

        def obs(event):
            if epoch == self.epoch:
                log.append((serial, "obs", event.name, event.new))
        return obs

    # -- violations ---------------------------------------------------------
    def fail(self, key, msg, extra=None):
        w = {"interpreter_state": self.model_state()}
        if extra:
            w.update(extra)
        raise Stop(key, msg, w)

    def model_state(self):
        s = {}
        for t in self.terms:
            s[t.label] = {"type": t.tt, t.target: t.value}
        for d in self.defs:
            s[d.label] = {"delegate": d.ref.label if d.ref else None, "local": d.local}
        return s

    def structure(self, node):
        """Structural part of a value/exception key."""
        if self.prefixdiff and node is self.front:
            return "midstar-prefixdiff"
        return kinds_from(node)

    def nkey(self, key, d):
        """Key of a notification violation on deferring node d.  With computed delegate
        references on the way the key names their families; the two open findings of
        that family (a re-pointed UNCACHED Property reference; a DEFERRED reference whose
        holder object was replaced) have one key each."""
        chain = ref_chain(d)
        if all(l.refkind == "stored" for l in chain):
            return key
        if any(l.refkind in UNCACHED and l.repointed for l in chain):
            return "notify/uncached-property-reference/re-pointed/forwarder-not-moved"
        if any(l.refkind in DEFERRED and l.holder_replaced for l in chain):
            return "notify/deferred-reference/holder-replaced/forwarder-not-moved"
        return key + "/ref=" + "+".join(sorted({REF_FAMILY[l.refkind] for l in chain} - {"stored"}))

    def count_computed(self, d, levels, verdict, why):
        """Counters of the computed-reference stratum for one judged (attribute, mechanism)."""
        ctx = self.ctx
        fams = sorted({REF_FAMILY[l.refkind].replace("-", "_") for l in levels} - {"stored"})
        if not fams:
            return
        folded = any((l.refkind in UNCACHED and l.repointed) or
                     (l.refkind in DEFERRED and l.holder_replaced) for l in ref_chain(d))
        if folded:
            ctx.count("computed_ref_judged_in_finding_substratum")
            return
        if verdict == "must":
            ctx.count("must_computed_ref")
            ctx.count("must_computed_ref_" + KIND_NAME[d.kind])
            for f in fams:
                ctx.count("must_ref_" + f)
            if any(l.swapped for l in levels if l.refkind != "stored"):
                ctx.count("must_after_swap_computed_ref")
            if any(l.deleted for l in levels if l.refkind != "stored"):
                ctx.count("must_after_del_computed_ref")
                for f in sorted({REF_FAMILY[l.refkind].replace("-", "_") for l in levels
                                 if l.deleted} - {"stored"}):
                    ctx.count("must_after_del_ref_" + f)
            if d.copied:
                ctx.count("must_after_roundtrip_computed_ref")
        else:
            ctx.count("none_computed_ref")
            if why == "link-broken":
                ctx.count("none_linkbroken_computed_ref")
                for f in fams:
                    ctx.count("none_linkbroken_ref_" + f)
            elif why == "not-current-delegate":
                ctx.count("none_former_computed_ref")
                for f in fams:
                    ctx.count("none_former_ref_" + f)

    # -- observation --------------------------------------------------------
    def check_state(self, op, node, what_stored, what_read):
        """Cells first (where things are stored), then what every deferring
        attribute reads."""
        st = self.structure(node)
        for t in self.terms:
            got = getattr(t.obj, t.target)
            if not same_value(got, t.value):
                self.fail("%s/%s/%s" % (op, what_stored, st),
                          "terminal %s.%s holds %r, interpreter says %r" % (t.label, t.target, got, t.value))
        for n, dns in self.decoy_owners:
            for dn in dns:
                got = getattr(n.obj, dn)
                if not same_value(got, self.decoy_vals[(n.serial, dn)]):
                    self.fail("%s/%s/%s" % (op, what_stored, st),
                              "unrelated attribute %s.%s became %r" % (n.label, dn, got))
        for d in self.defs:
            dct = d.obj.__dict__
            if d.local is ABSENT:
                if d.attr in dct:
                    self.fail("%s/%s/%s" % (op, what_stored, st),
                              "%s.__dict__ gained %r = %r (%s, no local value in the interpreter)"
                              % (d.label, d.attr, dct[d.attr], KIND_NAME[d.kind]))
            elif d.attr not in dct or not same_value(dct[d.attr], d.local):
                self.fail("%s/%s/%s" % (op, what_stored, st),
                          "%s local value is %r, interpreter says %r"
                          % (d.label, dct.get(d.attr, ABSENT), d.local))
            if d.obj.p is not (d.ref.obj if d.ref is not None else None):
                self.fail("%s/%s/%s" % (op, what_stored, st), "%s.p is not the assigned delegate" % d.label)
        for d in self.defs[::-1]:
            if m_end(d)[1] is None:
                # no delegate on the way: what a read gives is outside the statement
                self.ctx.count("no_delegate_reads")
                try:
                    getattr(d.obj, d.attr)
                except NO_DELEGATE_ERRORS:
                    pass
                except Exception as e:  # noqa: BLE001
                    self.fail("read/%s/no-delegate" % type(e).__name__,
                              "reading %s.%s while a delegate reference is None raised %r"
                              % (d.label, d.attr, e))
                continue
            try:
                got = getattr(d.obj, d.attr)
            except Exception as e:  # noqa: BLE001
                self.fail("read/%s/%s" % (type(e).__name__, self.structure(d)),
                          "reading %s.%s raised %r" % (d.label, d.attr, e))
            exp = m_read(d)
            if d.style == "star" and self.inherit[d.level]:
                self.ctx.count("reads_inherited_prefix")
            if not same_value(got, exp):
                self.fail("%s/%s/%s" % (op, what_read, self.structure(d)),
                          "%s.%s reads %r, interpreter says %r (levels %s)"
                          % (d.label, d.attr, got, exp, self.levels))
        self.ctx.ev()

    def check_notifications(self, verdicts, new, op):
        """verdicts: {deferrer serial: (verdict, why)}; deepest levels first so
        that a missing call is attributed to the level that failed to forward."""
        ctx = self.ctx
        missed_below = set()
        self.front_verdict = verdicts[self.front.serial][0] if self.mechs else "unobserved"
        for d in self.defs[::-1]:
            verdict, why = verdicts[d.serial]
            kk = "%s/%s" % (KIND_NAME[d.kind], d.style)
            for mech in self.mechs:
                calls = [(n, v) for (s, m, n, v) in self.log if s == d.serial and m == mech]
                if verdict == "none":
                    ctx.ev()
                    ctx.count("notify_none_checked")
                    if m_end(d)[1] is None:
                        ctx.count("none_while_no_delegate")
                    if why == "not-current-delegate" and any(l.via_none for l in ref_chain(d)):
                        ctx.count("none_former_after_none")
                    if why == "link-broken" and any(l.via_none for l in ref_chain(d)):
                        ctx.count("none_linkbroken_after_none")
                    if d.copied:
                        ctx.count("none_after_roundtrip")
                        if why == "link-broken":
                            ctx.count("none_linkbroken_after_" + d.copied)
                    if why == "not-current-delegate" and any(l.eqswap for l in ref_chain(d)):
                        ctx.count("none_former_after_equal_swap")
                    if d.shape != "plain":
                        ctx.count("none_redeclared")
                        if why in ("not-current-delegate", "unrelated-attribute", "unrelated-reference"):
                            ctx.count("none_redeclared_elsewhere")
                    if self.computed:
                        self.count_computed(d, ref_chain(d), "none", why)
                    if calls:
                        self.fail(self.nkey("notify/spurious/%s/%s" % (kk, why), d),
                                  "%s handler of %s.%s called %r after %s although %s"
                                  % (mech, d.label, d.attr, calls, op, why))
                elif verdict == "must":
                    # the levels this one listens through must have forwarded
                    levels = m_end(d)[0]
                    if any(l.serial in missed_below for l in levels[1:]):
                        ctx.count("notify_echo_skipped")
                        continue
                    ctx.ev()
                    ctx.count("notify_must_checked")
                    if any(l.swapped for l in levels):
                        ctx.count("must_after_swap")
                    if any(l.deleted for l in levels):
                        ctx.count("must_after_del")
                    if any(l.via_none for l in levels):
                        ctx.count("must_after_none")
                    if d.copied:
                        ctx.count("must_after_" + d.copied)
                    if d.style == "star" and self.inherit[d.level]:
                        ctx.count("must_inherited_prefix")
                    if len(levels) > 1:
                        ctx.count("must_through_chain")
                    if any(l.eqswap for l in levels):
                        ctx.count("must_after_equal_swap")
                    if self.eqmode != "identity":
                        ctx.count("must_eq_delegates")
                    if any(l.shape != "plain" for l in levels):
                        ctx.count("must_redeclared")
                        for l in levels:
                            if l.shape != "plain":
                                ctx.count("must_redeclared_" + l.shape)
                    if self.computed:
                        self.count_computed(d, levels, "must", "")
                    if not calls:
                        missed_below.add(d.serial)
                        self.fail(self.nkey("notify/missing/%s" % kk, d),
                                  "%s handler of %s.%s not called after %s (new value %r); linked levels %s"
                                  % (mech, d.label, d.attr, op, new,
                                     [(KIND_NAME[l.kind], l.style) for l in levels]))
                    if len(calls) > 1:
                        self.fail(self.nkey("notify/duplicate/%s" % kk, d),
                                  "%s handler of %s.%s called %d times after %s: %r"
                                  % (mech, d.label, d.attr, len(calls), op, calls))
                    name, v = calls[0]
                    if not same_value(v, new):
                        self.fail(self.nkey("notify/wrong-new/%s" % kk, d),
                                  "%s handler of %s.%s got new=%r, value is %r" % (mech, d.label, d.attr, v, new))
                    if name != d.attr:
                        self.fail(self.nkey("notify/wrong-name/%s" % kk, d),
                                  "%s handler of %s.%s got name %r" % (mech, d.label, d.attr, name))
                else:
                    ctx.count("notify_unjudged")

    def write_verdicts(self, cell, changed):
        """After a successful assignment that stored into `cell`."""
        out = {}
        for d in self.defs:
            levels, end = m_end(d)
            if end is cell:
                if not levels:
                    out[d.serial] = ("unjudged", "own local value")
                elif not changed:
                    out[d.serial] = ("unjudged", "equal value")
                elif all(l.listen for l in levels):
                    out[d.serial] = ("must", "")
                else:
                    out[d.serial] = ("unjudged", "listenable=False")
            else:
                reach = d
                while reach is not None and reach.is_def and reach is not cell:
                    reach = reach.ref
                if reach is cell:
                    why = "link-broken"
                elif not cell.is_def or cell.level > d.level:
                    why = "not-current-delegate"
                else:
                    why = "unrelated-object"
                out[d.serial] = ("none", why)
        return out

    def structural_verdicts(self, node):
        """Before a swap / del on deferring node `node`: attributes that read
        through it are not judged (design N), the others must stay silent."""
        out = {}
        for d in self.defs:
            levels, end = m_end(d)
            if node in levels or node is end:
                out[d.serial] = ("unjudged", "delegate re-pointed or link restored")
            else:
                out[d.serial] = ("none", "unrelated-object")
        return out

    # -- operations -----------------------------------------------------------
    def draw_op(self):
        if self.pending:
            return self.pending.pop(0)
        rng = self.rng
        r = rng.random()
        mids = self.defs[1:]
        if r < 0.30 or (r < 0.40 and not mids):
            node = self.front
            if not self.front_write_ok:
                node = self.front.ref or rng.choice(mids)    # same budget, one level down
            return self.maybe_reentrant(("assign", node.label, self.draw_raw(node)))
        if r < 0.40:
            node = rng.choice(mids)
            return self.maybe_reentrant(("assign", node.label, self.draw_raw(node)))
        if r < 0.68:
            t = (m_terminal(self.front) if rng.random() < 0.65 else None) or rng.choice(self.terms)
            return self.maybe_reentrant(("assign_t", t.label, rng.choice(TT_VALID[t.tt])))
        if r < 0.82:
            node = self.front if rng.random() < 0.55 else rng.choice(self.defs)
            cleared = [d for d in self.defs if d.ref is None]
            if cleared and rng.random() < 0.6:
                node = rng.choice(cleared)      # point a cleared reference at a candidate again
            elif rng.random() < 0.25:
                return self.with_how(("swap", node.label, None))      # clear the reference
            if node.shape != "plain" and rng.random() < 0.3:
                # re-point the reference only an alternative declaration names
                return ("swap_o", node.label, rng.choice([0, 1, 0, 1, None]))
            idx = rng.randrange(2)
            if node is self.front and not self.hook_delegateless_ok:
                if delegateless(node.cands[idx]):
                    idx = 1 - idx
                if delegateless(node.cands[idx]):
                    return ("read",)
            if self.eqmode != "identity" and rng.random() < 0.7:
                return self.steer_equal_swap(node, idx)
            return self.with_how(("swap", node.label, idx))
        if r < 0.93:
            ps = [d for d in self.defs if d.kind == "P" and (d.listen or self.del_unlistenable_ok)
                  and m_terminal(d) is not None]
            if ps:
                with_local = [d for d in ps if d.local is not ABSENT]
                node = rng.choice(with_local) if with_local and rng.random() < 0.8 else rng.choice(ps)
                return ("del", node.label)
        if rng.random() < 0.75 and (self.hook_delegateless_ok or not delegateless(self.front.ref)) \
                and self.roundtrip_ok:
            # the whole structure goes through a copy; the history continues on the copy
            return ("roundtrip", rng.choice(ROUNDTRIPS))
        if rng.random() < 0.5:
            # an unrelated attribute of a delegate changes
            n, dns = rng.choice(self.decoy_owners)
            return ("assign_decoy", n.label, rng.choice(dns), rng.choice(DECOY_VALUES))
        return ("read",)

    def with_how(self, op):
        """A swap of a COMPUTED delegate reference names the way it is re-pointed:
        src     assign what the reference is computed from (src, or src.ref of the holder)
        holder  replace the holder object by another one carrying the new delegate
        p       assign the reference itself (deferred references: DelegatesTo stores into
                the holder, PrototypedFrom makes the reference a local value)
        unlocal delete the local value of a PrototypedFrom reference (back to the holder's)"""
        node = self.node(op[1])
        k = node.refkind
        if k in ("stored", "dyndefault"):
            return op
        if k in UNCACHED and not self.uncached_swap_ok:
            return ("read",)
        if k in DEFERRED:
            opts = ["src", "src", "p"]
            if self.holder_swap_ok:
                opts += ["holder", "holder"]
            if k == "proto":
                opts += ["p"]
                if self.hook_delegateless_ok or node is not self.front \
                        or not delegateless(node.holder_ref):
                    opts += ["unlocal"]
        elif node.via == "holder":
            opts = ["src", "src", "holder"]
        else:
            opts = ["src"]
        return op + (self.rng.choice(opts),)

    def model_repoint(self, node, requested, how):
        """Interpreter side of a swap: the node that is the delegate afterwards."""
        k = node.refkind
        if k not in DEFERRED:
            return requested
        if how == "unlocal":
            if k == "proto":
                node.ref_local = False
                return node.holder_ref
            how = "src"
        if how == "p":
            if k == "proto":
                node.ref_local = True
            else:
                node.holder_ref = requested
            return requested
        node.holder_ref = requested
        if how == "holder":
            node.holder_replaced = True
        return node.ref if (k == "proto" and node.ref_local) else requested

    def real_repoint(self, node, requested, how):
        tobj = requested.obj if requested is not None else None
        k, obj = node.refkind, node.obj
        if k in ("stored", "dyndefault"):
            obj.p = tobj
        elif k in DEFERRED and how == "unlocal" and k == "proto":
            del obj.p
        elif k in DEFERRED and how == "p":
            obj.p = tobj
        elif k not in DEFERRED and node.via == "direct":
            obj.src = tobj
        elif how == "holder" or obj.src is None:
            obj.src = RefHolder(ref=tobj)
        else:
            obj.src.ref = tobj

    def steer_equal_swap(self, node, idx):
        """A swap of node's reference to the OTHER candidate, preceded (when the candidates
        compare by value and differ) by the assignment that makes the other candidate
        equal to the current one."""
        swap = ("swap", node.label, idx)
        cur = node.ref
        if cur is None:
            return swap
        if node.cands[idx] is cur:
            idx = 1 - idx
            if node is self.front and not self.hook_delegateless_ok and delegateless(node.cands[idx]):
                return swap
            swap = ("swap", node.label, idx)
        other = node.cands[idx]
        if other is cur or not self.eqmode.startswith("value"):
            return swap
        end_c, end_o = m_end(cur)[1], m_end(other)[1]
        if end_c is None or end_o is None or end_c is end_o:
            return swap
        want = m_read(cur)
        if same_value(m_read(other), want):
            return swap
        try:
            if m_terminal(other) is None or \
                    not same_value(ref_validate(m_terminal(other).tt, want), want):
                return swap
        except Reject:
            return swap
        self.pending.append(swap)
        if end_o.is_def:
            return ("assign", end_o.label, want)        # the other candidate reads a local value
        return ("assign_t", end_o.label, want)

    def reentrant_target(self, op):
        """Terminal node the (valid) assignment `op` stores into, when the op may carry
        a reacting handler: no structure change on the way, no open-finding pattern."""
        node = self.node(op[1])
        if self.prefixdiff and node is self.front:
            return None
        t = d_walk(node)
        if t is None:
            return None
        try:
            ref_validate(t.tt, op[2])
        except Reject:
            return None
        return t

    def reactor_route_ok(self, on, through, t):
        if not through:
            return True
        return on.is_def and d_walk(on) is t and not (self.prefixdiff and on is self.front)

    def maybe_reentrant(self, op):
        rng = self.rng
        if not self.reentrant or rng.random() < 0.45:
            return op
        t = self.reentrant_target(op)
        if t is None:
            return op
        told = [d for d in self.defs if self.write_verdicts(t, True)[d.serial][0] == "must"]
        r = rng.random()
        on = (rng.choice(told) if told and r < 0.65 else t if r < 0.85
              else rng.choice(self.defs + self.terms))
        through = rng.random() < 0.6 and self.reactor_route_ok(on, True, t)
        if rng.random() < 0.3:
            plan = ("clamp", "clamp")
        else:
            plan = tuple(rng.choice(TT_VALID[t.tt]) for _ in range(rng.choice([1, 1, 2, 3])))
        return op + ((on.label, "through" if through else "direct", plan),)

    def draw_raw(self, node):
        rng = self.rng
        r = rng.random()
        t = m_terminal(node) or rng.choice(self.terms)
        if r < 0.72:
            return rng.choice(TT_VALID[t.tt])
        if r < 0.80:
            return rng.choice(TT_VALID[self.tts[rng.randrange(2)]])
        return rng.choice(HOSTILE)

    def node(self, label):
        for n in self.defs + self.terms:
            if n.label == label:
                return n
        raise AssertionError(label)

    def step(self, op):
        ctx = self.ctx
        self.trace.append(op)
        del self.log[:]
        del EXC[:]
        ctx.count("ops")
        if self.depth == 2:
            ctx.count("chain_ops")
        name = op[0]
        front_local = self.front.local is not ABSENT
        outcome = "ok"
        new = None
        if len(op) > 3 and name in ("assign", "assign_t"):
            outcome = self.step_reentrant(op)
            if outcome is None:             # conditions no longer met (shrunk history)
                self.trace.pop()
                return self.step(op[:3])
        elif name == "assign" and m_terminal(self.node(op[1])) is None:
            # a delegate reference on the way is None: outside the statement, except
            # that a failure must be one of the documented error classes and that
            # nothing may change on any object or reach a handler
            node, raw = self.node(op[1]), op[2]
            try:
                setattr(node.obj, node.attr, raw)
            except NO_DELEGATE_ERRORS:
                pass
            except Exception as e:  # noqa: BLE001
                self.fail("assign/%s/no-delegate" % type(e).__name__,
                          "%s.%s = %r while a delegate reference is None raised %r"
                          % (node.label, node.attr, raw, e))
            self.check_exc_channel(name)
            self.check_state("assign", node, "no-delegate-changed-state", "no-delegate-changed-state")
            self.check_notifications({d.serial: ("none", "no-delegate-assignment") for d in self.defs},
                                     None, "%s.%s = %r without delegate" % (node.label, node.attr, raw))
            ctx.count("no_delegate_assign_checked")
            outcome = "no-delegate"
        elif name == "assign":
            node, raw = self.node(op[1]), op[2]
            st = self.structure(node)
            # interpreter first (on a rejected value it changes nothing)
            try:
                cell, old, new = m_assign(node, raw)
                valid = True
            except Reject:
                valid = False
            try:
                setattr(node.obj, node.attr, raw)
                real = None
            except Exception as e:  # noqa: BLE001
                real = e
            if valid:
                if isinstance(real, TraitError):
                    self.fail("assign/valid-rejected/" + st,
                              "%s.%s = %r rejected (%s) although the %s target accepts it"
                              % (node.label, node.attr, raw, real, m_terminal(node).tt))
                if real is not None:
                    self.fail("assign/%s/%s" % (type(real).__name__, st),
                              "%s.%s = %r raised %r" % (node.label, node.attr, raw, real))
                self.check_exc_channel(name)
                self.check_state("assign", node, "stored-wrong", "read-wrong")
                changed = not (old == new)
                if not same_value(raw, new):
                    ctx.count("coerced_assignments")
                self.check_notifications(self.write_verdicts(cell, changed), new,
                                         "%s.%s = %r" % (node.label, node.attr, raw))
                ctx.count("valid_assign_checked")
                outcome = "stored-" + ("local" if cell.is_def else "delegate") + ("" if changed else "-same")
            else:
                ctx.count("invalid_checked")
                outcome = "rejected"
                if real is None:
                    self.fail("assign/invalid-accepted/" + st,
                              "%s.%s = %r accepted although the %s target rejects it (now reads %r)"
                              % (node.label, node.attr, raw, m_terminal(node).tt,
                                 getattr(node.obj, node.attr, "<unreadable>")))
                if not isinstance(real, TraitError):
                    self.fail("assign/invalid-raised-%s/%s" % (type(real).__name__, st),
                              "%s.%s = %r raised %r instead of TraitError" % (node.label, node.attr, raw, real))
                self.check_exc_channel(name)
                self.check_state("assign", node, "invalid-changed-state", "invalid-changed-state")
                self.check_notifications({d.serial: ("none", "invalid-assignment") for d in self.defs},
                                         None, "rejected %s.%s = %r" % (node.label, node.attr, raw))
        elif name == "assign_t":
            t, raw = self.node(op[1]), op[2]
            new = ref_validate(t.tt, raw)
            old = t.value
            t.value = new
            try:
                setattr(t.obj, t.target, raw)
            except Exception as e:  # noqa: BLE001
                self.fail("assign-delegate/%s/%s" % (type(e).__name__, kinds_from(self.front)),
                          "%s.%s = %r raised %r" % (t.label, t.target, raw, e))
            self.check_exc_channel(name)
            self.check_state("assign-delegate", self.front, "stored-wrong", "read-wrong")
            changed = not (old == new)
            self.check_notifications(self.write_verdicts(t, changed), new,
                                     "%s.%s = %r" % (t.label, t.target, raw))
            ctx.count("delegate_assign_checked")
            outcome = "changed" if changed else "same"
        elif name == "swap":
            node = self.node(op[1])
            verdicts = self.structural_verdicts(node)
            UNDEF = object()
            before = m_read(node) if m_end(node)[1] is not None else UNDEF
            how = op[3] if len(op) > 3 else "p"
            requested = node.cands[op[2]] if op[2] is not None else None
            target = self.model_repoint(node, requested, how)
            repointed = node.ref is not target
            node.repointed = node.repointed or repointed
            if node.ref is None and target is not None:
                node.via_none = True
                ctx.count("swap_from_none")
            if target is None and node.ref is not None:
                ctx.count("swap_to_none")
            equal_distinct = False
            if repointed and target is not None and node.ref is not None:
                try:
                    equal_distinct = bool(node.ref.obj == target.obj)
                except Exception:  # noqa: BLE001
                    pass
            if repointed:
                node.eqswap = equal_distinct
            node.ref = target
            node.swapped = node.swapped or (repointed and target is not None)
            tl = target.label if target is not None else None
            if node.refkind != "stored":
                tl = "%s (%s reference re-pointed by '%s' to %s)" % (
                    tl, node.refkind, how, requested.label if requested is not None else None)
                ctx.count("swap_computed_ref")
                ctx.count("swap_ref_" + REF_FAMILY[node.refkind].replace("-", "_"))
                if node.refkind != "dyndefault":
                    ctx.count("swap_how_" + how)
            try:
                self.real_repoint(node, requested, how)
            except Exception as e:  # noqa: BLE001
                self.fail("swap/%s/%s" % (type(e).__name__, kinds_from(self.front)),
                          "%s.p = %s raised %r" % (node.label, tl, e))
            if node is self.front and delegateless(target):
                self.check_hook_channel("%s.p = %s" % (node.label, tl))
            self.check_exc_channel(name)
            self.check_state("swap", self.front, "stored-wrong", "read-wrong")
            self.check_notifications(verdicts, None, "%s.p = %s" % (node.label, tl))
            ctx.count("swap_checked")
            after = m_read(node) if m_end(node)[1] is not None else UNDEF
            outcome = ("same-object" if not repointed else "cleared" if target is None else
                       "from-none" if before is UNDEF else
                       "value-changed" if not same_value(before, after) else "value-same")
            if equal_distinct:
                ctx.count("swap_to_equal_distinct")
                ctx.count("swap_to_equal_distinct_" + self.eqmode.split("-")[0])
                if self.refcmp != "default":
                    ctx.count("swap_to_equal_distinct_refcmp_set")
                outcome += "-equal-delegate"
        elif name == "swap_o":
            # the reference that only an alternative (overridden) declaration names
            node = self.node(op[1])
            target = node.cands[op[2]] if op[2] is not None else None
            tl = target.label if target is not None else None
            try:
                node.obj.o = target.obj if target is not None else None
            except Exception as e:  # noqa: BLE001
                self.fail("swap-other-reference/%s/%s" % (type(e).__name__, kinds_from(self.front)),
                          "%s.o = %s raised %r" % (node.label, tl, e))
            self.check_exc_channel(name)
            self.check_state("swap-other-reference", self.front, "stored-wrong", "read-wrong")
            self.check_notifications({d.serial: ("none", "unrelated-reference") for d in self.defs},
                                     None, "%s.o = %s" % (node.label, tl))
            ctx.count("swap_other_ref_checked")
            outcome = "other-reference"
        elif name == "assign_decoy":
            n, dn, val = self.node(op[1]), op[2], op[3]
            old = self.decoy_vals[(n.serial, dn)]
            self.decoy_vals[(n.serial, dn)] = val
            try:
                setattr(n.obj, dn, val)
            except Exception as e:  # noqa: BLE001
                self.fail("assign-unrelated/%s/%s" % (type(e).__name__, kinds_from(self.front)),
                          "%s.%s = %r raised %r" % (n.label, dn, val, e))
            self.check_exc_channel(name)
            self.check_state("assign-unrelated", self.front, "stored-wrong", "read-wrong")
            self.check_notifications({d.serial: ("none", "unrelated-attribute") for d in self.defs},
                                     None, "%s.%s = %r (an attribute nothing defers to)" % (n.label, dn, val))
            ctx.count("decoy_assign_checked")
            if n.is_def:
                ctx.count("decoy_assign_on_middle")
            outcome = "unrelated-changed" if not same_value(old, val) else "same"
        elif name == "del":
            node = self.node(op[1])
            verdicts = self.structural_verdicts(node)
            had = node.local is not ABSENT
            node.local = ABSENT
            node.deleted = True
            try:
                delattr(node.obj, node.attr)
            except Exception as e:  # noqa: BLE001
                self.fail("del/%s/listenable=%s" % (type(e).__name__, node.listen),
                          "del %s.%s (%s, listenable=%s, local value %s) raised %r"
                          % (node.label, node.attr, KIND_NAME[node.kind], node.listen,
                             "present" if had else "absent", e))
            self.check_exc_channel(name)
            self.check_state("del", node, "stored-wrong", "read-wrong")
            self.check_notifications(verdicts, None, "del %s.%s" % (node.label, node.attr))
            ctx.count("del_checked")
            outcome = "restored" if had else "noop"
        elif name == "roundtrip":
            outcome = self.roundtrip(op[1])
        else:
            self.check_state("read", self.front, "stored-wrong", "read-wrong")
            self.check_exc_channel(name)
            self.check_notifications({d.serial: ("none", "read") for d in self.defs}, None, "read")
            outcome = "read"
        # non-trivial: a value changed, a link was broken/restored, a delegate was
        # really re-pointed, or an assignment was rejected
        if outcome not in ("read", "noop", "same", "stored-delegate-same", "same-object"):
            ctx.sig(self.depth, tuple(self.levels), name,
                    op[1][0] if len(op) > 1 else "-", outcome, front_local,
                    tuple(d.local is not ABSENT for d in self.defs[1:]),
                    self.front_verdict,
                    *(["redeclared"] if self.redeclared else []))

    def step_reentrant(self, op):
        """An assignment stored into terminal T while a handler is armed that reacts to
        the notifications it is told by assigning the same target again (directly on
        the delegate or through a deferring attribute; fixed values or clamping;
        bounded by its plan).  The reactions are user code: what it wrote is taken from
        its log, not predicted.  Judged: the cells, the reads, and that every handler
        of a linked deferring attribute was told every change of T exactly once (as a
        multiset: nested dispatch order is not the statement's subject)."""
        ctx = self.ctx
        name, label, raw, (on_label, route, plan) = op
        node, on = self.node(label), self.node(on_label)
        t = self.reentrant_target(op)
        if t is None or not self.reactor_route_ok(on, route == "through", t):
            return None
        self.armed = {"on": on_label, "plan": list(plan), "term": t,
                      "via": on if route == "through" else None}
        del self.react_log[:]
        what = "%s.%s = %r with a handler on %s reacting (%s, plan %r)" % (
            node.label, node.target if not node.is_def else node.attr, raw, on_label, route, plan)
        try:
            setattr(node.obj, node.attr if node.is_def else node.target, raw)
        except Exception as e:  # noqa: BLE001
            self.armed = None
            self.fail("assign-reentrant/%s/%s" % (type(e).__name__, kinds_from(self.front)),
                      "%s raised %r" % (what, e))
        self.armed = None
        writes = [ref_validate(t.tt, raw)] + [ref_validate(t.tt, w) for w in self.react_log]
        changes, prev = [], t.value
        for v in writes:
            if not (v == prev):
                changes.append(v)
                prev = v
        t.value = prev
        self.check_exc_channel("assign-reentrant")
        self.check_state("assign-reentrant", self.front, "stored-wrong", "read-wrong")
        verdicts = self.write_verdicts(t, bool(changes))
        what += "; target values written %r" % (writes,)
        missed = False
        self.front_verdict = verdicts[self.front.serial][0] if self.mechs else "unobserved"
        for d in self.defs[::-1]:
            verdict, why = verdicts[d.serial]
            kk = "%s/%s" % (KIND_NAME[d.kind], d.style)
            for mech in self.mechs:
                calls = [(n, v) for (s, m, n, v) in self.log if s == d.serial and m == mech]
                if verdict == "none":
                    ctx.ev()
                    ctx.count("notify_none_checked")
                    if calls:
                        self.fail(self.nkey("notify/spurious/%s/%s" % (kk, why), d),
                                  "%s handler of %s.%s called %r after %s although %s"
                                  % (mech, d.label, d.attr, calls, what, why))
                elif verdict == "must":
                    ctx.ev()
                    ctx.count("reentrant_must_checked")
                    if self.computed:
                        ctx.count("reentrant_must_computed_ref")
                    if len(m_end(d)[0]) > 1:
                        ctx.count("reentrant_must_through_chain")
                    told = collections.Counter((type(v).__name__, v) for _, v in calls)
                    owed = collections.Counter((type(v).__name__, v) for v in changes)
                    if owed - told:
                        self.fail(self.nkey("notify/reentrant-missing/%s" % kk, d),
                                  "%s handler of %s.%s was told %r after %s; changes %r: never told %r"
                                  % (mech, d.label, d.attr, [v for _, v in calls], what, changes,
                                     [v for _, v in (owed - told).elements()]))
                    if told - owed:
                        self.fail(self.nkey("notify/reentrant-extra/%s" % kk, d),
                                  "%s handler of %s.%s was told %r after %s; changes only %r"
                                  % (mech, d.label, d.attr, [v for _, v in calls], what, changes))
                    if any(n != d.attr for n, _ in calls):
                        self.fail(self.nkey("notify/wrong-name/%s" % kk, d),
                                  "%s handler of %s.%s got names %r" % (mech, d.label, d.attr, calls))
                    # not judged (dispatch order): was the value told last the current one?
                    ctx.count("reentrant_last_told_current" if same_value(calls[-1][1], changes[-1])
                              else "reentrant_last_told_superseded")
                else:
                    ctx.count("notify_unjudged")
        ctx.count("reentrant_ops")
        ctx.count("reentrant_route_" + route)
        ctx.count("reentrant_on_" + ("terminal" if not on.is_def else "front" if on is self.front else "middle"))
        if plan and plan[0] == "clamp":
            ctx.count("reentrant_clamp")
        nested = max(0, len(changes) - 1) if self.react_log else 0
        if self.react_log:
            ctx.count("reentrant_reactions", len(self.react_log))
        if nested:
            ctx.count("reentrant_nested_changes", nested)
            if nested > 1:
                ctx.count("reentrant_depth_2plus")
        return "reentrant-%d" % min(nested, 2)

    def roundtrip(self, how):
        """Replace every object by its copy and *adopt* the copy's cells by
        observation (which state a copy preserves is C14's subject, not this
        property's: e.g. deepcopy/clone_traits assign a still linked
        PrototypedFrom attribute and so break its link).  From then on the
        copy must mirror and notify like any other structure."""
        ctx = self.ctx
        nodes = self.defs + self.terms
        family = "pickle" if how.startswith("pickle") else how
        try:
            new = round_trip(how, [n.obj for n in nodes])
        except Exception:  # noqa: BLE001 - not this property's subject
            ctx.count("roundtrip_raised")
            raise EndQuietly()
        by_id = {id(o): n for o, n in zip(new, nodes)}
        for n, o in zip(nodes, new):
            n.obj = o
        changed_link = False
        for t in self.terms:
            t.value = getattr(t.obj, t.target)
        for n, dns in self.decoy_owners:
            for dn in dns:
                self.decoy_vals[(n.serial, dn)] = getattr(n.obj, dn)
        for d in self.defs:
            if d.obj.p is None:
                tgt = None
            else:
                tgt = by_id.get(id(d.obj.p))
                if tgt is None or tgt not in d.cands:
                    ctx.count("roundtrip_unadoptable")
                    raise EndQuietly()
            d.ref = tgt
            dct = d.obj.__dict__
            local = dct[d.attr] if d.attr in dct else ABSENT
            if (local is ABSENT) != (d.local is ABSENT):
                changed_link = True
                ctx.count("roundtrip_link_broken_by_copy" if d.local is ABSENT
                          else "roundtrip_link_restored_by_copy")
            elif local is not ABSENT:
                ctx.count("roundtrip_local_value_kept")
            d.local = local
            d.copied, d.swapped, d.deleted, d.via_none = family, False, False, False
            d.eqswap = False
            d.repointed = False
            if d.refkind in DEFERRED:
                # the copy's holder replaces the default holder of the new object
                holder = d.obj.src
                held = None if holder is None or holder.ref is None else by_id.get(id(holder.ref))
                if holder is None or (holder.ref is not None and held not in d.cands):
                    ctx.count("roundtrip_unadoptable")
                    raise EndQuietly()
                d.holder_ref, d.holder_replaced = held, True
                d.ref_local = d.refkind == "proto" and "p" in d.obj.__dict__
        self.attach_recorders()
        del self.log[:]
        if delegateless(self.front.ref):
            self.check_hook_channel("round trip (%s)" % how)
        del EXC[:]
        # what remains to be judged here: every deferring attribute of the copy
        # reads what the interpreter reads from the copy's cells
        self.check_state("roundtrip", self.front, "stored-wrong", "read-wrong")
        ctx.count("roundtrip_checked")
        ctx.count("roundtrip_" + family)
        return family + ("-link-changed" if changed_link else "")

    def check_hook_channel(self, what):
        """The op just made the front object listen to a middle object that has no
        delegate of its own; a failure inside the listener machinery here means the
        front attribute will miss the middle's later changes."""
        self.ctx.count("hook_delegateless_checked")
        if EXC:
            kind, e = EXC[0]
            self.fail("hook-delegateless-middle/handler-exception/%s" % type(e).__name__,
                      "%s hooks %s.%s onto a middle object whose delegate reference is None: "
                      "%r inside the %s machinery (the listener is not installed)"
                      % (what, self.front.label, self.front.attr, e, kind))

    def check_exc_channel(self, op):
        if EXC:
            kind, e = EXC[0]
            self.fail("handler-exception/%s/%s/%s" % (kind, type(e).__name__, op),
                      "exception inside a handler during %s: %r" % (op, e))

    def run(self, ops=None):
        """Run the history (drawing ops, or replaying the given list).
        Returns None, or the Stop describing the first violation."""
        try:
            try:
                self.build()
            except Exception as e:  # noqa: BLE001 - traits refused the structure
                self.fail("build/%s/%s" % (type(e).__name__, kinds_from_levels(self.levels)),
                          "building the objects raised %r" % (e,))
            # a constructor keyword for the deferring attribute is an assignment through it
            self.check_state("assign" if self.ctor_local else "init", self.front,
                             "stored-wrong", "read-wrong")
            if ops is None:
                for _ in range(self.nsteps):
                    self.step(self.draw_op())
            else:
                for op in ops:
                    self.step(op)
        except Stop as stop:
            return stop
        except EndQuietly:
            return None
        return None


# --------------------------------------------------------------------------
EXC = []


def _legacy_exc(obj, name, old, new):
    import sys
    EXC.append(("on_trait_change", sys.exc_info()[1]))


def _obs_exc(event):
    import sys
    EXC.append(("observe", sys.exc_info()[1]))


def run(ctx):
    push_exception_handler(handler=_legacy_exc, reraise_exceptions=False, main=True)
    obs_push_exception_handler(handler=_obs_exc, reraise_exceptions=False)
    nh = ctx.scale(30000, 400000)
    # the histories of the computed-reference stratum follow those of the base workload
    extra = ctx.scale(5600, 100000)
    for h in range(nh + extra):
        if not ctx.mine(h):
            continue
        hist = History(ctx, h, ctx.rng("h", h), computed=h >= nh)
        if not ctx.begin("h:%d" % h, hist.brief()):
            continue
        try:
            stop = hist.run()
            ctx.count("histories")
            if hist.redeclared:
                ctx.count("histories_redeclared")
            if hist.eqmode != "identity":
                ctx.count("histories_eq_delegates")
            if hist.computed:
                ctx.count("histories_computed_ref")
                for fam in sorted({REF_FAMILY[k] for k in hist.refkind} - {"stored"}):
                    ctx.count("histories_ref_" + fam.replace("-", "_"))
            if stop is not None:
                report(ctx, h, hist, stop)
            elif h < 3 * ctx.nshards:
                ctx.sample({"config": hist.describe(), "history": hist.trace[:8]})
        finally:
            ctx.end()


def report(ctx, h, hist, stop):
    """Shrink the op list (drop ops while the same key still fires), then
    record the violation with the shrunk witness."""
    ops = list(hist.trace)
    null = NullCtx(ctx)

    def fires(cand):
        hh = History(null, h, ctx.rng("h", h), computed=hist.computed)
        r = hh.run(cand)
        return (r, list(hh.trace)) if (r is not None and r.key == stop.key) else None
    best = stop
    # only the first records of a key are kept by the framework: shrink only those
    seen = ctx.viol_per_key.get(stop.key, 0) if hasattr(ctx, "viol_per_key") else 0
    if seen < 3 and fires(ops) is not None:     # deterministic replay confirmed
        i = len(ops) - 2
        while i >= 0:
            got = fires(ops[:i] + ops[i + 1:])
            if got is not None:
                best, ops = got             # ops = the part actually executed
            i = min(i - 1, len(ops) - 2)
    witness = {"history_id": h, "config": hist.describe(), "ops": ops,
               "ops_before_shrinking": hist.trace}
    witness.update(best.extra or {})
    ctx.violation(stop.key, "%s | config=%r | ops=%r" % (best.msg, hist.describe(), ops), witness)


def kinds_from_levels(levels):
    return ">".join(k for k, _, _ in levels)
